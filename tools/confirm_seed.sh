#!/bin/sh
# tools/confirm_seed.sh <ID> <mN> : re-verify a sub-agent's seeded change in the scratch worktree /tmp/wt/<ID>:
#   suite green with the change, demo fails with it and passes without it. Then copy into /verif/seeded/<ID>-<mN>/ .
set -u
ID="$1"; M="$2"; WT=/tmp/wt/$ID; SRC=/tmp/wt_out/$ID/$M; DST=/verif/seeded/$ID-$M
git -C $WT checkout -q -- . ; git -C $WT diff --quiet || { echo "worktree dirty"; exit 3; }
cd $WT
run() { PYTHONPATH=$WT PYTHONHASHSEED=0 timeout 600 /venv/bin/python "$@"; }
run $SRC/demo.py >/tmp/cs.$$.d0 2>&1; d0=$?
git apply $SRC/patch.diff || { echo "patch does not apply"; exit 3; }
tests=$(run -m pytest -q -p no:cacheprovider --timeout=900 2>&1 | tail -1)
run $SRC/demo.py >/tmp/cs.$$.d1 2>&1; d1=$?
git checkout -q -- .
echo "$ID-$M: demo without=$d0 with=$d1 tests: $tests"
ok=0; [ $d0 -eq 0 ] && [ $d1 -ne 0 ] && echo "$tests" | grep -q "337 passed" && ok=1
if [ $ok -eq 1 ]; then
  mkdir -p $DST && cp $SRC/patch.diff $SRC/demo.py $DST/ && cp $SRC/notes.md $DST/notes.md
  echo "CONFIRMED -> $DST"
else echo "NOT CONFIRMED"; tail -5 /tmp/cs.$$.d0 /tmp/cs.$$.d1; fi
rm -f /tmp/cs.$$.*
