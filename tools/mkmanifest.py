#!/venv/bin/python
"""Regenerates /verif/MANIFEST.json from the table below (kept valid at all times)."""
import json
import os
import sys

HERE = os.path.dirname(os.path.dirname(os.path.abspath(__file__)))
sys.path.insert(0, HERE)
from tools.claims import CLAIMS, PENDING, HOOK_COMMITS  # noqa

ALL = ["C%02d" % i for i in range(1, 21)]


def main():
    checks = []
    for pid in ALL:
        if pid not in CLAIMS:
            continue
        c = CLAIMS[pid]
        checks.append({
            "property_id": pid,
            "quick_cmd": "bin/check %s --tier quick" % pid,
            "thorough_cmd": "bin/check %s --tier thorough" % pid,
            "evidence_file": "/verif/evidence/%s.json" % pid,
            "replay_cmd_template": "bin/check %s --replay {path}" % pid,
            "engine": "tlc",
            "level_claimed": {"category": "model_checking", "text": c["text"], "design_ref": c.get("ref", "DESIGN.md section 3 / %s" % pid)},
            "level_note": c["note"],
            "technique": c["technique"],
        })
    na = [{"property_id": p, "reason": PENDING.get(p, "no TLA+-decided check built yet (build in progress, see DESIGN.md section 7)")}
          for p in ALL if p not in CLAIMS]
    man = {
        "version": 1,
        "setup_cmd": "sh -c 'chmod +x bin/check && java -version 2>/dev/null; /venv/bin/python -c \"import annet\"'",
        "hooks": {
            "guard": "ANNET_VERIF",
            "enable": "no build step: annet is imported from /repo's working tree (editable install in /venv); "
                      "observation is done from outside (public call returns, subclassing, replacing annet.parallel.mp); "
                      "ANNET_VERIF=1 would enable source hooks, none exist at present",
            "baseline_off_cmd": "cd /repo && /venv/bin/python -m pytest -ra -q -p no:cacheprovider --timeout=900 --continue-on-collection-errors",
            "source_commits": HOOK_COMMITS,
            "add_only": True,
        },
        "engines": [
            {"name": "tlc", "path": "/verif/spec", "serves_properties": [c["property_id"] for c in checks],
             "kind_free_text": "explicit TLA+ specification (spec/*.tla) checked with TLC: MC instances in spec/mc, trace (conformance) "
                               "specifications in spec/trace; Python drivers in vf/drivers execute annet on TLC-generated cases "
                               "(spec->code) and feed recorded executions back to TLC (code->spec)"},
        ],
        "checks": checks,
        "not_applicable": na,
        "notes": "All checks: exit 0 ok, exit 1 with VIOLATION line(s), exit 2 machinery failure. known_findings.json lists "
                 "known/fixed findings. See DESIGN.md.",
    }
    with open(os.path.join(HERE, "MANIFEST.json"), "w") as f:
        json.dump(man, f, indent=1)
    try:
        import jsonschema
        jsonschema.validate(man, json.load(open("/root/.vp/MANIFEST.schema.json")))
        print("MANIFEST.json valid; claimed:", [c["property_id"] for c in checks])
    except ImportError:
        print("jsonschema not available; written without validation")


if __name__ == "__main__":
    main()
