"""Per-property claims rendered into MANIFEST.json by tools/mkmanifest.py."""
HOOK_COMMITS = []
PENDING = {}
CLAIMS = {
    "C05": {
        "technique": "TLA+ spec (Offside.tla: declarative rule vs indent-stack machine), TLC exhaustive MC + TLC-generated texts replayed into parse_to_tree + TLC trace judge",
        "text": "TLC proves the transcription of annet's indent-stack machine equal to the declarative offside rule on every text in the bound "
                "(quick: <=4 lines x 13 line kinds; thorough: <=6 lines x 15 kinds, 12.2M states); every text TLC enumerated plus exhaustive "
                "indent-0..6 texts and seeded random long texts are run through the real parse_to_tree and each outcome (tree or ParserError) "
                "is judged by the trace spec against the declarative rule.",
        "note": "Trusted: TLC, CommunityModules Json/IOUtils, the 3-field lexer (leading blanks, first char, stripped text). Bounded: texts beyond the "
                "enumerated/random domains are not covered.",
    },
}
