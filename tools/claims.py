"""Per-property claims rendered into MANIFEST.json by tools/mkmanifest.py."""
HOOK_COMMITS = []   # no source hooks needed so far
FIX_COMMITS = ["5a30504 fix: a string is not an array when JSON pointer patterns are resolved (C13)", "e5d4816 fix: multiblock_if opens its blocks under an explicit true condition (C10)", "0db9b37 fix: rule row ends at its first parameter (C06, C07)", "944e092 fix: juniper cmd_paths word boundary (C01)", "fe40c21 fix: cumulus refuses before emitting (C14)", "8acdda3 fix: cisco vlandb keeps VLANs of unchanged lines (C11)", "6c8c7e3 fix: huawei next_hop return (C14)", "42d8898 fix: arista large-community-list ACL (C14)", "9c40074 fix: refuse before emitting (C14)", "750ea7d fix: RouterOS join nested sections (C04)", "e01415d fix: optixtrans match expression (C18)", "12c75c5 fix: make_patch op order (C13)", "8c66073 fix: resolved pointers escaped (C13)", "4756b94 fix: huawei multi_all unchanged lines (C11)", "81e31d8 fix: implicit default block with its defaults (C17)", "5bfc12a fix: order_config word boundary (C08)", "943f14e fix: patch sort key (C08)", "1bcbbe1 fix: rewrite logic sends the new line ... (C01)", "28efb2a fix: file mode builds the patch from the complete diff (C16)", "c62ee59 fix: pool parent loop leaves only when the done queue is drained (C12)"]
PENDING = {}
CLAIMS = {
    "C14": {
        "technique": "TLA+ clauses for shipped policy generators (Rpl.tla: error-before-emit machine, reference/definition syntax tables; Acl.tla; Offside.tla); TLC-enumerated route-map programs built as real RouteMap objects; event streams of real runs judged by a TLC trace judge",
        "text": "TLC enumerates all programs of one statement with <=2 conditions x <=2 actions over catalogues of 14 documented R.* conditions and 16 rule.* actions (57k programs; sampled in the quick tier) and checks the "
                "error-before-emit machine against its declarative reading; each program, plus seeded programs over extended catalogues (25 conditions, 37 actions, 1-2 statements), runs through the shipped huawei and arista "
                "RoutingPolicyGenerator (thin logging subclass), through _run_partial_generator(use_acl=True) and the shipped community/prefix/as-path/rd list generators; judged: no error after an emitted line of the same "
                "condition/action, no AclError, output nesting = generated nesting, every referenced list defined under the same name and kind.",
        "note": "Vendors huawei and arista; cumulus (generate_cumulus_rpl) not bound. One fixed entity set. Reference/definition syntax is a table of the spec (trusted reading of the vendor CLI).",
    },
    "C15": {
        "technique": "TLA+ mesh handler semantics (Mesh.tla: handler tables, order-free field-by-field combination vs sequential merging); TLC MC with handler application as actions in every order; real MeshExecutor on both ends under every registration permutation judged by a TLC trace judge",
        "text": "TLC applies every subset of a handler menu in every order: the sequentially merged state equals the order-free combination and a conflict is raised in every order or in none. Real MeshRulesRegistry + "
                "stub storage for two devices with 1..3 parallel links, 1..3 handler tables, direct/indirect rules, port/lag/svi/subif interface modes, in every registration permutation, executed for BOTH ends; judged: "
                "same result in all orders, conflict iff a single-valued field gets two values, addr/remote_as/local_as/mtu/bfd mirrored from the right tables, families united and mirrored, selected interface, ambiguous "
                "multi-link selection refused; merge(a,b) per declared merger incl. non-mutation.",
        "note": "Two-device topologies only (3..5 devices, virtual rules and name-template filters are not built yet: stated in evidence assumptions). Handlers are constant tables.",
    },
    "C04": {
        "technique": "TLC-enumerated trees + offside oracle (Formatter.tla/Offside.tla): MC of the indented rendering on the model; real join/parse of all 14 vendors judged by a TLC trace judge (identity, fixed point, independent text oracle)",
        "text": "TLC enumerates all trees (depth<=2, width<=2, rows of 1-3 words) and checks on the model that the indented rendering parses back for units 1/2/4; every tree and seeded random trees to depth 5 are rendered "
                "by each registered vendor's formatter and parsed back (RouterOS section trees and the Cisco address-family sub-domain included); judged: same rows, nesting and order, re-rendering is a fixed point, and for "
                "the ten indentation vendors the spec's own offside parser on the real text gives the tree.",
        "note": "The law is an identity between implementation outputs (stated in DESIGN.md); brace vendors (juniper, ribbon, nokia) and RouterOS have no independent text oracle. Well-formed row domain per vendor is a driver assumption.",
    },
    "C18": {
        "technique": "TLA+ hardware database semantics (HwDb.tla: regex-chain truth, most specific vendor, registration as actions); TLC MC over all registration orders incl. a tie regression instance; exhaustive enumeration of devdb.json judged by a TLC trace judge",
        "text": "TLC explores every registration order: the implementation's choice rule is order independent exactly when the most specific match is unique. For 161 of the 168 database sequences (model string "
                "synthesised from the regex chain) and every vendor's canonical hardware: HardwareView truth of every full sequence equals the regex-chain truth and is hierarchical; fresh Registry objects under "
                "permuted registration give one vendor, the most specific one; get_rulebook for every model x software-version shape loads, resolves every logic function, compiles every row regex, and two fresh "
                "providers give equal rulebooks.",
        "note": "Loadability is enumerated and judged, not modelled (Mako rendering / imports have no useful abstraction). 7 sequences (B4com.*, PC.Nebius*) get no synthesised model string (skipped, listed in evidence). "
                "Per-node regex hits via re.search (trusted).",
    },
    "C20": {
        "technique": "TLA+ model of a worker process with caches serving a job history (History.tla) with the code's protections as switches; TLC MC incl. regression instances; TLC-enumerated job sequences executed in one forked process vs each job in a fresh process; TLC trace judge",
        "text": "TLC checks observational determinism over all job sequences <=3 of an abstract menu with the protections on (provider cache keyed by hardware, per-call copies of rule attributes) and shows each "
                "protection necessary (two regression instances must fail). All sequences of the driver's job menu up to the TLC bound (2, thorough 3) plus seeded longer ones run in ONE forked process each; "
                "every position is compared with the job's result alone in a fresh fork; frame conditions (old, new, compiled rulebook snapshots) and a repeated call are judged too.",
        "note": "Job menu: corpus samples of 7 vendors, three Huawei hardware models over one config, shared compiled ACL with overlapping rules, rule-mutating logic (default_instead_undo), unknown rows. "
                "A fork of the pristine driver process counts as a fresh process.",
    },
    "C19": {
        "technique": "TLA+ file-deploy semantics (FileDeploy.tla: order-free winner, upload/reload decision); TLC MC that sequential selection equals the order-free winner for all listing orders; real Entire generators / PCDeployerJob / pc_diff judged by a TLC trace judge",
        "text": "TLC checks over all generator sequences in bounds that add_entire in listing order yields the highest-priority generator per path. Real Entire generator objects in every listing order go through "
                "run_file_generators().new_files(), PCDeployerJob.parse_result for entire_reload yes/no/force and pc_diff; judged: content and reload command from the winner, upload exactly the changed files (or all on force), "
                "uploaded bytes = content, reload commands only when enabled and only for uploaded files, diff shown iff contents differ, safe mode keeps only safe generators.",
        "note": "Deploy driver connector stubbed; UnifiedFileDiffer. Known finding: contents differing only in the final newline.",
    },
    "C13": {
        "technique": "TLA+ JSON document model: RFC 6902 application as a state machine, glob pointers and fragment merge (JsonDoc.tla); TLC MC of the merge laws over a document schema; real op lists / merge results / filter results judged by a TLC trace judge",
        "text": "TLC checks that the operational fragment merge satisfies the declarative clauses (selected parts = fragment, selected-but-absent removed, everything else untouched, idempotent) over all "
                "documents x fragments x pointer lists of a small schema. The real make_patch op lists (and, separately, the jsonpatch library's own) are applied op by op to old inside TLA+ and must reach new; "
                "real apply_patch output, real apply_json_fragment results (keys with '/', '~', '|', '*'; glob segments) and apply_acl_filters results are judged by the same spec.",
        "note": "PYTHONHASHSEED pinned to 0. Third-party known finding (jsonpatch cross-container move). Fragment/filter documents have scalar leaves (pointers address object paths, the property's schema clause).",
    },
    "C11": {
        "technique": "TLA+ VLAN-set device semantics and range expansion (Vlan.tla) + A-layer of huawei _process_vlandb; TLC exhaustive MC over all line-split configuration pairs; real patches of every VLAN-list rule family judged by a TLC trace judge",
        "text": "TLC checks the transcription of huawei _process_vlandb on all 1M pairs of configurations of a 5-VLAN universe split over <=3 lines (exact final set, no common VLAN dropped; the pre-repair "
                "shortcut is kept as an instance that must fail). For 9 rule families of the shipped huawei/cisco/nexus rulebooks (trunk allow-pass, hybrid tagged/untagged, vlan batch, swtrunk catalyst/nexus, "
                "vlan group, vlan) pairs of subsets with adjacent ids, split over 1..3 lines incl. unchanged lines, and random sets over 1..4094 go through make_diff/make_pre/make_patch; the real commands are "
                "executed on the old set by the judge; collapse/expand helpers are judged too.",
        "note": "Per-family command lexers are trusted. Cisco A-layer not modelled (judged on real outputs only). `vlan pool` lines (keyed by their first id) are outside the property's list.",
    },
    "C17": {
        "technique": "TLA+ completion semantics (Implicit.tla) over annet's implicit rule trees taken as data (RuleLang tokens); synthesised trees replayed into implicit.config/merge_dicts and the shipped rulebooks; TLC trace judge",
        "text": "For every hardware branch of the implicit rules (Huawei CE/NE/other, Arista, five Nexus variants incl. the tag-dependent one, Catalyst variants) trees synthesised from the rule rows (instances, the default "
                "itself, competing values, unrelated rows) are completed by the real code; judged: explicit lines kept, completed tree equals the P-layer completion (default iff no matching line, default blocks with "
                "their defaults), idempotence, and no patch command addresses a default present in both completions but written in neither input.",
        "note": "Rule rows are lexed with the C07 lexer (trusted); no MC instance beyond the judge runs (the completion is a pure function judged on every real output).",
    },
    "C10": {
        "technique": "TLA+ generator-program semantics (GenRun.tla: meaning = yielded paths; A-layer = TreeGenerator indentation + offside parse) + TLC MC of A=P over all programs in bounds; TLC-enumerated programs interpreted by real PartialGenerators through _old_new_per_device; TLC trace judge",
        "text": "TLC shows for every program <=4 (thorough 6) operations over yields, multi-line yields, block, block_if, multiblock that the indented lines parse to exactly the yielded paths; the same programs and "
                "seeded longer ones, with ACL texts per generator (covering ACLs, rule-menu ACLs, different left margins), run through the production generator path; judged: GeneratorError iff an uncovered "
                "path (in bands), exclusivity conflict iff two generators may delete one yielded row, otherwise new = union of yielded paths with nothing else.",
        "note": "Stub context for _old_new_per_device (empty running config, no implicit, no filter ACL); ACL structures driver-generated; bands as in C06.",
    },
    "C02": {
        "technique": "TLA+ ACL coverage semantics (Acl.tla) + device model (Device.tla); slot-closed ACLs derived from the TLA+ rulebook catalogue and TLC-enumerated configurations replayed into _diff_and_patch with ACL; TLC trace judge of (a)(b)(c)",
        "text": "For catalogue rulebooks x ACLs of one or two generators x (old_full, new) the real command paths are judged: every path covered level by level (directly or negated), every uncovered row of old "
                "whose ancestors survive is intact on the spec's device after the patch, every slot covered only by cant_delete rules (explicit or the built-in interface default) still occupied.",
        "note": "Domain: slot-closed ACLs; rulebooks whose logic emits the row or its negation (%rewrite and catch-all rulebooks excluded, stated in DESIGN.md). Known finding: moved %ordered block. "
                "The generator path (_old_new_per_device) is exercised by C10.",
    },
    "C06": {
        "technique": "TLA+ ACL coverage semantics with Lower/Upper bands (Acl.tla); seeded ACL structures and TLC-enumerated / random trees replayed into apply_acl (plain, repeated, strict) and merged ACLs; TLC trace judge",
        "text": "Every real filter result must be an order-preserving subtree with Lower(t) <= result <= Upper(t) (equality wherever no two different rules/forms compete), idempotent, strict mode raising exactly "
                "where an uncovered row is certainly visited / never on fully covered trees; the merge law is judged on A, B, A+B compiled from the joined text.",
        "note": "ACL structures are driver-generated (seeded), not TLC-enumerated. Known finding: merge law under competition. No A-layer of the specificity metric (bands make it irrelevant to the verdict).",
    },
    "C08": {
        "technique": "TLA+ rank semantics of ordering rulebooks (Orderer.tla) over a TLA+ ordering catalogue (OrderCatalog.tla, domain assumption model-checked) + TLC-enumerated configurations replayed into make_patch / order_config; TLC trace judge incl. metamorphic independence",
        "text": "For every catalogue (patching, ordering) rulebook pair and vendor profile, the real sorted PatchTree of all/sampled (old,new) pairs is judged at every depth: ranked siblings in rank order "
                "(removals mirrored and first, %order_reverse pinned), removal before re-creation, multiset-equal to the unsorted patch; order_config on shuffled configurations: permutation, idempotent, "
                "unmentioned rows stable, rank order; for the shipped *.order files dropping an unrelated top-level row must leave the order of the remaining commands unchanged.",
        "note": "Claims only between ranked siblings of different rank and of the same origin (own rules vs inherited %global entries); unmentioned rows are compared within the same polarity. "
                "No A-layer of get_order's weight heuristic (domain = disjoint sibling languages, where it cannot matter).",
    },
    "C01": {
        "technique": "TLA+ device model (Device.tla) + rule language + TLC-enumerated Configs(R) of a TLA+ rulebook catalogue replayed into _diff_and_patch; real command paths executed on the spec's device by a TLC trace judge, chains and second diff fed back from TLC's state",
        "text": "For every catalogue rulebook (literals, *, ~, nesting, %global, %ordered, %rewrite, undo_redo/permanent/ignore_changes, catch-all, near-miss negation words) and vendor profile, "
                "TLC enumerates Configs(R); all (or sampled) pairs go through the production composition; the P-layer device executes the real command paths one by one and must converge "
                "(contract-aware); the second diff/patch on the spec's device state must be empty, and a further target is applied from that state (chains).",
        "note": "Trusted: TLC, tree/row lexers. Device model assumptions in DESIGN.md 2.2 (one line per rule and key; value-carrying rows are leaves; a re-sent block has one %rewrite rule). "
                "A-layer MC of the patch algorithm not yet wired (a_layer: absent): design-level claim rests on the sketches. Block-structured vendors only.",
    },
    "C03": {
        "technique": "TLA+ P-layer of diffs (Differ.tla: projections, exact ops, unchanged, MOVED clause, rewrite group semantics) + offside parser on the two text views; TLC-enumerated Configs(R) pairs replayed into make_diff; TLC trace judge",
        "text": "Every real diff over all/sampled pairs of TLC-enumerated configurations (plus shuffled / unknown-row perturbations) per catalogue rulebook and vendor profile is judged: both inputs "
                "reconstructible, ops exact, unchanged exactly where subtrees are equal, MOVED iff predecessor sequence changed, self-diff empty, strip_unchanged exact, formatter.diff and "
                "gen_pre_as_diff(make_pre()) parse back (offside rule) to the same signed entries.",
        "note": "Standard diff logics only. %rewrite groups that did not change are reported not at all (documented semantics, encoded in Faithful). A-layer MC of base_diff not yet wired.",
    },
    "C09": {
        "technique": "TLA+ session spec (DeploySession.tla: flattening with vendor exit words, wrapper discipline, deploy-rule chains) + TLC-enumerated patch trees replayed into formatter.patch / cmd_paths / apply_deploy_rulebook; TLC trace judge",
        "text": "All patch trees with distinct sibling rows (depth<=2,width<=2 over a vendor-special alphabet) are enumerated by TLC (model invariant: shown lines determine the paths) and run for every "
                "block-structured vendor/hardware and commit/finalize flags with shipped and synthetic deploy rulebooks (scratch rulebook dir); PatchTrees from real make_patch over the catalogue, the corpus, "
                "assembled corpus blocks and rows synthesised from shipped rule lines are added. Judge: shown == cmd_paths == body of the sent stream in order and depth, only wrapper commands added, "
                "no commit when disabled, (timeout, answers) of the matching rule chain.",
        "note": "Wrapper vocabulary is a table of the spec. Flattening vendors excluded (not in the property's quantifier). Known finding: equal sibling commands collapse in cmd_paths.",
    },
    "C16": {
        "technique": "TLC trace judge of equality between the two front ends (FrontEnds.tla) over corpus, cross products and assembled trees",
        "text": "The law is an equality between two outputs of the implementation; TLC judges cmd_paths(file) == cmd_paths(device) and file diff == strip_unchanged(device diff), with the position of the "
                "first difference, over the 192-sample corpus in both directions, per-vendor cross products and trees assembled from corpus blocks, on the shipped rulebooks.",
        "note": "Thin TLA+ content by nature (stated in DESIGN.md): no model of the stages is needed to decide an equality of two implementation outputs. File workers on disk not yet driven.",
    },
    "C12": {
        "technique": "TLA+ spec of the pool (Pool.tla, one action per primitive), TLC exhaustive MC incl. liveness + TLC-simulated schedules replayed into the real Parallel.irun through a turn-based scheduler + event traces of the real code validated by a trace spec",
        "text": "TLC explores every interleaving of parent loop x workers x task/done queues for N<=3 (thorough N<=5), quotas, raising tasks and both tolerate_fails modes: "
                "NoDup, AllDelivered, RaiseJustified, NoSilentFailure and termination under per-process weak fairness hold; the pre-repair loop is kept as an instance that must "
                "violate AllDelivered. Simulated behaviours are replayed grant by grant into the unmodified irun/pool_worker (mp replaced by a scheduler stand-in) with the abstract "
                "state compared after every step; hundreds to thousands of seeded random schedules of the real code over an (n, pool, quota, raises, tolerate, bias) grid are recorded "
                "as event traces and each event must be an enabled Pool action, with the P-layer evaluated on the final state; wall-clock runs through real multiprocessing are judged "
                "on their outcome.",
        "note": "Trusted: TLC; the thread-based multiprocessing stand-in and scheduler (vf/sched.py), cross-checked by real-process runs; no external kill of workers; "
                "task_timeout never reached. Bounded: MC constants as listed in evidence; schedules beyond the sampled ones are not covered.",
    },
    "C07": {
        "technique": "TLA+ spec (RuleLang.tla: word-level meaning of rule patterns, keys, negated forms), TLC MC of the language laws + TLC-enumerated (pattern,row) product replayed into annet's rule compilers + TLC trace judge",
        "text": "TLC checks the algebraic laws of the rule language (negated form recognised with the same key, double negation, key arity, word boundaries) on every "
                "pattern <=3 (thorough 4) tokens x row <=4 (5) words; the enumerated patterns and rows are rendered to rule text and the product is run through "
                "compile_row_regexp/_make_reverse and the patching/ACL/ordering/deploy compilers; every shipped rule line (all vendors and hardware variants) is lexed "
                "into tokens with synthesised and mutated rows; cache/flag interplay is exercised in one process; every real (matched,key,reverse,negated-form) outcome "
                "is judged by Trace_RuleLang against the P-layer.",
        "note": "Trusted: TLC, the token lexer/printer, Python re.fullmatch for single-word sub-regex tables. No A-layer (the implementation is a regex macro-expander); "
                "constructs outside the token language (mid-row ~, ~/re/, anchors, alternations across words) are counted as skipped, not judged.",
    },
    "C05": {
        "technique": "TLA+ spec (Offside.tla: declarative rule vs indent-stack machine), TLC exhaustive MC + TLC-generated texts replayed into parse_to_tree + TLC trace judge",
        "text": "TLC proves the transcription of annet's indent-stack machine equal to the declarative offside rule on every text in the bound "
                "(quick: <=4 lines x 13 line kinds; thorough: <=6 lines x 15 kinds, 12.2M states); every text TLC enumerated plus exhaustive "
                "indent-0..6 texts and seeded random long texts are run through the real parse_to_tree and each outcome (tree or ParserError) "
                "is judged by the trace spec against the declarative rule.",
        "note": "Trusted: TLC, CommunityModules Json/IOUtils, the 3-field lexer (leading blanks, first char, stripped text). Bounded: texts beyond the "
                "enumerated/random domains are not covered.",
    },
}


# ---- additions made while the checks grew (appended sentences; the base texts above describe the first build)
def _add(prop, field, sentence, replace=None):
    c = CLAIMS[prop]
    if replace is not None:
        assert replace in c[field], (prop, replace)
        c[field] = c[field].replace(replace, sentence)
    else:
        c[field] = c[field].rstrip() + " " + sentence


_add("C01", "technique", "; A-layer transcription of the patch algorithm (Patcher.tla) model-checked on the device (MC_Converge) and compared with the real code (drift meter)")
_add("C01", "text", "MC_Converge: the TLA+ transcription of make_diff/make_pre/logics/make_patch/cmd_paths is executed on the P-layer device over the full square of Configs(R) per catalogue entry "
     "(convergence, empty second diff and patch, diff laws; both raw-rule rank orders and one chain hop in the thorough tier); the entry holding the recorded finding must violate SecondEmpty (anti-vacuity). "
     "Trace_Patcher compares the transcription with the real diff and command list on every round-1 pair (model_drift in the evidence).")
_add("C01", "note", "A-layer (Patcher.tla) covers the default/ordered/rewrite diff logics and the six common patch logics with an empty ordering rulebook; vendor-specific logics are not transcribed.",
     replace="A-layer MC of the patch algorithm not yet wired (a_layer: absent): design-level claim rests on the sketches.")
_add("C02", "text", "The ACL text is the one annet itself combines (RunGeneratorResult.acl_text()) from per-generator texts with differing source indentation.")
_add("C03", "note", "The A-layer of the diff (Patcher.tla) is checked against these laws by MC_Converge (run by C01); catalogue entries include a %rewrite rule over nested blocks and a row described by two local rules (children rules unite).",
     replace="A-layer MC of base_diff not yet wired.")
_add("C06", "technique", "; plus the exact nondeterministic reading (united rule lines, one governing match per row with fixed consequences, RaiseSet)")
_add("C06", "text", "On top of the bands SOME choice of governing matches (ties between identical effective patterns resolved direct-before-negated, local-before-%global) must explain both the filtered tree and the "
     "strict-mode outcome; inputs include families where one row is matched by several rules of different generality, a %global rule among them, or by a protected rule and the written-out negation of another.")
_add("C06", "note", "No A-layer of the specificity metric: which of several differently specific matches governs is left open by the exact reading.",
     replace="No A-layer of the specificity metric (bands make it irrelevant to the verdict).")
_add("C08", "note", "Ordering rules of a level form one sequence in text order; below a row the %global entries keep their place and the ranking rule's children are spliced in at its position (Orderer.Splice); "
     "alternative ordering rulebooks per catalogue entry; order_config inputs hold negated twins of some rows. Claims only between ranked siblings of different rank;",
     replace="Claims only between ranked siblings of different rank and of the same origin (own rules vs inherited %global entries);")
_add("C10", "text", "block_if is also run with its default condition over word / number / None / empty-string tokens (GenRun op enterdef); ACL texts may list one rule on two lines with different parameters.")
_add("C11", "text", "Three further families put `vlan` list lines next to `vlan N` blocks (Huawei batch, Catalyst, Nexus).")
_add("C12", "technique", "; TLA+ spec of the per-task retry loop (Retry.tla) with TLC-enumerated task patterns replayed into invoke_retry and judged by a trace judge")
_add("C12", "text", "Raising ids fail with an ordinary error or with a network error on every attempt, other ids fail transiently within net_retry. MC_Retry enumerates (net_retry 0..3, what the task does on each call); "
     "each case runs through the real invoke_retry in four exception flavours (direct, reset, context chain, generator-style) and is judged by Trace_Retry (outcome and number of calls).")
_add("C13", "text", "Documents also differ only in the JSON type of a scalar (1 / true / 1.0, 0 / false).")
_add("C13", "note", "Third-party known findings (jsonpatch cross-container move; array elements differing only in JSON type).", replace="Third-party known finding (jsonpatch cross-container move).")
_add("C16", "text", "The VLAN-list rule families of C11 (rules whose logic reads the unchanged lines of its key) are inputs too.")
_add("C18", "text", "Every short spelling (leading / middle names dropped) that denotes one node answers for that node; a spelling shared by two nodes is refused.")
_add("C19", "text", "new_files() and new_files(safe=True) are asked of one result object in either order and asked again (both plans judged, and their stability).")
_add("C20", "note", "Further jobs: synthetic ordering rulebooks whose sibling rules overlap and have children, a Huawei Tunnel interface (overlapping shipped ordering rules), an ACL sharing a row text with an "
     "%ignore_case rule (compiled before the rulebook is looked up).")
_add("C07", "text", "Every other pattern reaches the four rulebook compilers spelled with tabs / several blanks between its words.")
_add("C04", "text", "RouterOS trees hold twin neighbour sections; IOS-XR trees hold QoS blocks ending in end-policy-map / end-class-map rows.")
_add("C15", "note", "Handler values are constants or derived from the {n} of the device's own matched name.", replace="Handlers are constant tables.")
_add("C02", "technique", "; composed pipeline model (Annet.tla: A-layers of apply_acl, make_diff+apply_acl_diff, make_patch, cmd_paths on the P-layer device) model-checked over ACL families (MC_Pipeline)")
_add("C02", "text", "MC_Pipeline: for every ACL of a catalogue rulebook's family (sub-forests of its rule tree, rules deletable or protected) x every device configuration x every ACL-confined generator output, the "
     "transcribed pipeline's commands executed on the device satisfy (a)(b)(c) and the covered part converges; the pipeline without apply_acl_diff's cant_delete branch and the catalogue entry holding the recorded "
     "%ordered-block finding must violate Safe (anti-vacuity).")
_add("C15", "text", "Three-device chains a1-b2-c3 (the middle device served by two rules with different name templates, plus decoy rules whose filter is false or whose regex template does not match) give one judged pair per link.")
_add("C15", "note", "Two-device topologies and three-device chains; virtual and device rules are not driven.", replace="Two-device topologies only (3..5 devices, virtual rules and name-template filters are not built yet: stated in evidence assumptions).")
_add("C14", "text", "The cumulus back-end (CumulusPolicyGenerator.generate_cumulus_rpl, one FRR stream) runs the same programs: error-before-emit per match/then call and every referenced list defined in the stream.")
_add("C14", "note", "Vendors huawei, arista (all clauses) and cumulus (error-before-emit, references defined; no ACL / nesting there).", replace="Vendors huawei and arista; cumulus (generate_cumulus_rpl) not bound.")
_add("C01", "text", "The juniper profile (flat `set` / `delete` lines) is judged by Device.ExecAllFlat: the device segments a flat line with the rulebook (block headers are key-determined).")
_add("C01", "note", "Block-structured vendors and juniper; nokia and routeros not covered.", replace="Block-structured vendors only.")
_add("C20", "text", "History.tla models four per-process caches (rulebooks, compiled row regexps, compiled ACLs, the ordering rulebook an Orderer extends) with two kinds of protection each job relies on "
     "(a key fine enough to tell jobs apart; operations working on private copies); five regression instances, one per protection switched off, must violate determinism or the cache frame condition.")
# ---- round 5
_add("C01", "text", "A second flattening profile, ribbon (own vendor class choosing the default diff functions), and catalogue entries `rewrite-sandwich` (%rewrite > ordinary rule > %rewrite) and `slash-key` (a placeholder whose own regex and keys contain slashes).")
_add("C01", "note", "Block-structured vendors, juniper and ribbon; nokia and routeros not covered.", replace="Block-structured vendors and juniper; nokia and routeros not covered.")
_add("C04", "text", "The formatter is the one the box's model string resolves to (registry.match over a menu of real model spellings per family); block headers that are syntax of ANOTHER family (address-family, xpl ..., route-policy) appear as ordinary blocks followed by rows at their own level.")
_add("C05", "text", "A text refused with any other exception than ParserError is rejected as such.")
_add("C06", "text", "Words that merely begin with the vendor's negation word (`node`, `undox`) occur in ACL rules and rows, with a targeted tier holding the plain and the negated line.")
_add("C07", "text", "A tier of placeholders whose regex contains slashes (interface names) goes through the bare compiler and the patching / ACL / ordering compilers.")
_add("C08", "technique", "; documented device dependencies of the shipped huawei.order (ShippedDeps.tla) judged on real patches")
_add("C08", "text", "An %order_reverse rule written without the negation word pins the positive-text removal command of a negated line. ShippedDeps.tla lists fifteen dependencies the comments of huawei.order document (an object is created before and removed after what refers to it); real Huawei patches holding both commands of a fact (three models, both input orders, with bystanders) must send them in that order.")
_add("C09", "text", "Every other call passes do_finalize / do_commit by position (the public signature). For models that edit a candidate configuration (Huawei CE / NE, Arista, IOS-XR, OcNOS) a commit command must follow the last patch command when committing is enabled (DeploySession.CommitSent).")
_add("C10", "text", "Parent rules `interfaces`, `interface-range` (protected by the built-in cant_delete default) and `interfac`, `iface` (not) are shared by two generators.")
_add("C15", "technique", "; two-ended lookup model (MC_MeshEnds) with a regression instance")
_add("C15", "text", "Same-tier pairs whose names fit both templates of a rule (the rule applies in both orientations, handler data depends on which device is left) and IPv6 addresses written non-canonically (literal table of canonical texts). MC_MeshEnds: each end looks the rule up in both orientations; Mirrored holds, and is violated when an end stops after the first fitting orientation.")
_add("C17", "text", "Blocks also hold explicit companion lines handled by vendor-specific diff logics (VRF binding, address, description, mtu).")
_add("C19", "text", "Generators may decline the device (supports_device() overridden while path() names a file: FileDeploy.Active) and may set their priority per instance before Entire.__init__.")
_add("C20", "text", "Further jobs: trees holding rows that `!` rules describe (top level and inside a block), and two boxes of one model with different software versions.")
_add("C10", "text", "multiblock_if(...) runs with explicit true / false conditions and with its default condition (with and without a None among the blocks): GenRun op menterif.")
_add("C02", "text", "Every third generator-path case runs in --acl-safe mode: each generator also has a narrower safe ACL, the run is restricted to it, and the patch is judged against the combined safe ACL.")
_add("C03", "text", "The shown diff of every third case is computed by the production worker annet.diff.worker (old against the ordered desired configuration).")
_add("C09", "text", "CliDeployerJob.parse_result (the production caller, --dont-commit on and off) is driven on the sample corpus and its command list judged like every other stream; the flattening vendors (juniper, ribbon, nokia, routeros) are judged on the wrapper clauses.")
_add("C10", "text", "Generators may decline the device (supports_device / NotSupportedDevice: they then take no part); every fifth run is annotated (annet gen --annotate).")
_add("C12", "text", "Real-process runs also go through Parallel.run (success / failure dicts, strict exit code).")
_add("C13", "text", "The patch PCDeployerJob.parse_result uploads for a JSON fragment file is judged like make_patch's.")
_add("C15", "text", "Merge laws on whole model instances (GlobalOptionsDTO with nested Merge, DictMerge, Concat, Unite fields; Mesh.MergeInst): outcome, inputs unchanged, associativity.")
_add("C16", "text", "file_diff_worker's printed diff is compared with the device-mode diff of what the two files hold.")
_add("C06", "text", "The library entry points annet.annlib.filter_acl.make_acl / filter_config (text in, text out) are judged by the same clauses.")
_add("C18", "text", "The model is also given as a string and without a default; a menu of real model names must resolve to its family; a model no expression matches resolves to the generic vendor.")
_add("C19", "text", "Declining also happens from inside run() (NotSupportedDevice).")
_add("C11", "text", "Huawei VLANs declared by a bare `vlan N` next to the batch line; Cisco trunk lists written as `none`.")
_add("C16", "technique", "; design-level model of the two compositions (MC_FrontEnds) with a regression instance")
_add("C16", "text", "MC_FrontEnds: over every diff level of up to five entries with a patch logic that looks at the whole group of its key, grouping the complete diff (both front ends) agrees; stripping before grouping (the composition before repair 28efb2a) violates Agree.")
# ---- round 6
_add("C02", "text", "Every third main-tier run passes an all-covering filter ACL (--filter-acl) to _diff_and_patch: it can only narrow the patch.")
_add("C04", "text", "Rows of nokia trees may hold `##` words (Nokia's remark characters) inside the row.")
_add("C06", "text", "Every other merged ACL is built by annet's own merger (RunGeneratorResult.acl_text()) from texts with different margins.")
_add("C07", "text", "Exception lines of filter ACLs (`!row`, compiled with allow_ignore) are judged like every other pattern.")
_add("C08", "text", "A plain ordering rule written in the negated form (`<Prefix> nx ~`) ranks its line directly and the removal through the reverse form.")
_add("C09", "text", "Targeted cases: a context-bound deploy rule followed by a plain rule for the same command, the command issued in and outside the context.")
_add("C10", "text", "Every other multi-line yield has empty lines between its rows.")
_add("C11", "text", "Every other case goes through the production composition api._diff_and_patch.")
_add("C15", "text", "Interface mode `lagsub`: a sub-interface on the LAG.")
_add("C18", "text", "A site plug-in vendor registered for the deepest family of every second synthesised model must win in every registration order.")
_add("C01", "note", "Known gap: block rules whose header text changes under one key while they have children (outside the device model: block headers are determined by rule and key).")
_add("C13", "note", "Known gap: --acl-safe together with --filter-acl through annet.gen._old_new_per_device's file branch is not driven.")
_add("C17", "note", "Known gap: --acl-safe runs (completion of the safe config) are not driven.")
_add("C03", "note", "Known gap: %multiline rules (a vendor diff logic) are outside the catalogue.")
_add("C13", "text", "The production path annet.gen._old_new_per_device is driven for a file device with a real JSONFragment generator, the device's document downloaded, with and without --acl-safe and --filter-acl (judged as a merge, or as the filter applied to the merge). Documents hold string scalars.")
_add("C13", "note", "Third-party known findings (jsonpatch cross-container move; array elements differing only in JSON type).", replace="Known gap: --acl-safe together with --filter-acl through annet.gen._old_new_per_device's file branch is not driven.")
_add("C08", "text", "Every fifth ordered configuration is what the production worker of annet gen (annet.gen.worker) prints, read back.")
_add("C16", "text", "What the production worker of annet patch prints (res_diff_patch / _patch_worker) is compared with device mode on the same pair.")
# ---- round 7
_add("C01", "text", "Catalogue entry `negated-form` holds rules written in the negated form whose next word begins with letters of the negation word (`<Prefix> nx *`, `<Prefix> ox`).")
_add("C03", "text", "annet diff over several devices: gen_sort_diff is collected first and rendered afterwards (with and without collapsing equal diffs); every device's text is judged as its own diff view.")
_add("C04", "text", "Forked children (processes that have not formatted anything yet) go through the formatter families in other orders (nokia before juniper, b4com before cisco, ...).")
_add("C09", "text", "A synthetic deploy rule has dialog lines that differ only in blanks / letter case (each keeps its answer); models that write straight into the running configuration (S-series, H3C, classic IOS, NX-OS, B4T-CS2148P) never get a commit command.")
_add("C11", "text", "Huawei VLANs declared only by a bare `vlan N` (in no batch line).")
_add("C16", "text", "Every third pair of dump files carries a common leading offset on every line.")
_add("C17", "text", "The production path is also run on a blank device (--config empty).")
_add("C19", "text", "Generator class names may collide (results are keyed by path and decided by priority).")
_add("C20", "text", "Jobs with --filter-acl <dir> (one ACL file per device, the worker's shared stdin dict).")
_add("C07", "note", "Known gap: a `~` glued to the preceding text of a word (`name:~`) is outside the token language.")
_add("C15", "text", "Topology a1 -- b2.dc1, a1 -- b2.dc2 under match_short_name: two neighbours sharing a short name are two sessions.")
_add("C11", "note", "Known finding: a VLAN id that leaves the huawei `vlan batch` lines but stays declared by a `vlan N` block is removed by `undo vlan batch` (targeted case in every run).")
