"""Per-property claims rendered into MANIFEST.json by tools/mkmanifest.py."""
HOOK_COMMITS = []   # no source hooks needed so far
FIX_COMMITS = ["c62ee59 fix: pool parent loop leaves only when the done queue is drained (C12)"]
PENDING = {}
CLAIMS = {
    "C12": {
        "technique": "TLA+ spec of the pool (Pool.tla, one action per primitive), TLC exhaustive MC incl. liveness + TLC-simulated schedules replayed into the real Parallel.irun through a turn-based scheduler + event traces of the real code validated by a trace spec",
        "text": "TLC explores every interleaving of parent loop x workers x task/done queues for N<=3 (thorough N<=5), quotas, raising tasks and both tolerate_fails modes: "
                "NoDup, AllDelivered, RaiseJustified, NoSilentFailure and termination under per-process weak fairness hold; the pre-repair loop is kept as an instance that must "
                "violate AllDelivered. Simulated behaviours are replayed grant by grant into the unmodified irun/pool_worker (mp replaced by a scheduler stand-in) with the abstract "
                "state compared after every step; hundreds to thousands of seeded random schedules of the real code over an (n, pool, quota, raises, tolerate, bias) grid are recorded "
                "as event traces and each event must be an enabled Pool action, with the P-layer evaluated on the final state; wall-clock runs through real multiprocessing are judged "
                "on their outcome.",
        "note": "Trusted: TLC; the thread-based multiprocessing stand-in and scheduler (vf/sched.py), cross-checked by real-process runs; no external kill of workers; "
                "task_timeout never reached. Bounded: MC constants as listed in evidence; schedules beyond the sampled ones are not covered.",
    },
    "C07": {
        "technique": "TLA+ spec (RuleLang.tla: word-level meaning of rule patterns, keys, negated forms), TLC MC of the language laws + TLC-enumerated (pattern,row) product replayed into annet's rule compilers + TLC trace judge",
        "text": "TLC checks the algebraic laws of the rule language (negated form recognised with the same key, double negation, key arity, word boundaries) on every "
                "pattern <=3 (thorough 4) tokens x row <=4 (5) words; the enumerated patterns and rows are rendered to rule text and the product is run through "
                "compile_row_regexp/_make_reverse and the patching/ACL/ordering/deploy compilers; every shipped rule line (all vendors and hardware variants) is lexed "
                "into tokens with synthesised and mutated rows; cache/flag interplay is exercised in one process; every real (matched,key,reverse,negated-form) outcome "
                "is judged by Trace_RuleLang against the P-layer.",
        "note": "Trusted: TLC, the token lexer/printer, Python re.fullmatch for single-word sub-regex tables. No A-layer (the implementation is a regex macro-expander); "
                "constructs outside the token language (mid-row ~, ~/re/, anchors, alternations across words) are counted as skipped, not judged.",
    },
    "C05": {
        "technique": "TLA+ spec (Offside.tla: declarative rule vs indent-stack machine), TLC exhaustive MC + TLC-generated texts replayed into parse_to_tree + TLC trace judge",
        "text": "TLC proves the transcription of annet's indent-stack machine equal to the declarative offside rule on every text in the bound "
                "(quick: <=4 lines x 13 line kinds; thorough: <=6 lines x 15 kinds, 12.2M states); every text TLC enumerated plus exhaustive "
                "indent-0..6 texts and seeded random long texts are run through the real parse_to_tree and each outcome (tree or ParserError) "
                "is judged by the trace spec against the declarative rule.",
        "note": "Trusted: TLC, CommunityModules Json/IOUtils, the 3-field lexer (leading blanks, first char, stripped text). Bounded: texts beyond the "
                "enumerated/random domains are not covered.",
    },
}
