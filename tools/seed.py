#!/venv/bin/python
"""Seeded-change bookkeeping.

  tools/seed.py add <PROP> <mN> "<what it needs to manifest>"   confirm in the scratch worktree /tmp/wt/<PROP> (suite green, demo fails with /
                                                                 passes without), copy to /verif/seeded/<PROP>-<mN>/, run the check against it
  tools/seed.py run [<seed-id> ...] [--tier quick]                apply each kept change to /repo, run its property's check, undo; update meta.json
  tools/seed.py table                                             markdown table for DESIGN.md
"""
import json
import os
import re
import subprocess
import sys

VERIF = os.path.dirname(os.path.dirname(os.path.abspath(__file__)))
SEEDED = os.environ.get("SEED_DIR", os.path.join(VERIF, "seeded"))   # a snapshot copy of /verif may run the checks while /verif is being edited


def sh(cmd, **kw):
    return subprocess.run(cmd, shell=True, stdout=subprocess.PIPE, stderr=subprocess.STDOUT, text=True, **kw)


WT_ROOT = os.environ.get("SEED_WT", "/tmp/wt")
OUT_ROOT = os.environ.get("SEED_OUT", "/tmp/wt_out")


def confirm(prop, m):
    wt, src = "%s/%s" % (WT_ROOT, prop), "%s/%s/%s" % (OUT_ROOT, prop, m)
    env = "cd %s && PYTHONPATH=%s PYTHONHASHSEED=0 timeout 900 /venv/bin/python" % (wt, wt)
    sh("git -C %s checkout -q -- ." % wt)
    d0 = sh("%s %s/demo.py" % (env, src))
    ap = sh("git -C %s apply %s/patch.diff" % (wt, src))
    if ap.returncode:
        return None, "patch does not apply: " + ap.stdout
    tests = sh("%s -m pytest -q -p no:cacheprovider --timeout=900 2>&1 | tail -1" % env).stdout.strip()
    d1 = sh("%s %s/demo.py" % (env, src))
    sh("git -C %s checkout -q -- ." % wt)
    ok = d0.returncode == 0 and d1.returncode != 0 and "337 passed" in tests
    return ok, {"demo_without_change_exit": d0.returncode, "demo_with_change_exit": d1.returncode, "suite_with_change": tests}


def run_check(sid, tier="quick"):
    d = os.path.join(SEEDED, sid)
    meta = json.load(open(os.path.join(d, "meta.json")))
    prop = meta["property"]
    repo = os.environ.get("SEED_REPO", "/repo")         # a scratch clone keeps /repo free for other checks
    out = os.environ.get("SEED_OUT_DIR", "/tmp/seedout")
    if sh("git -C %s diff --quiet" % repo).returncode:
        raise SystemExit("%s not clean" % repo)
    ap = sh("git -C %s apply %s/patch.diff" % (repo, d))
    if ap.returncode:
        meta["check_result"] = {"error": "patch no longer applies to /repo HEAD: " + ap.stdout[-300:]}
    else:
        try:
            r = sh("cd %s && VERIF_REPO=%s VERIF_OUT=%s bin/check %s --tier %s" % (VERIF, repo, out, prop, tier))
        finally:
            sh("git -C %s checkout -- ." % repo)
        viol = re.findall(r"^VIOLATION .*", r.stdout, re.M)
        clauses = {}
        for c in re.findall(r"^  clause=(.*?) case=", r.stdout, re.M):
            clauses[c] = clauses.get(c, 0) + 1
        total = re.search(r"violations=(\d+)", r.stdout)
        meta["check_result"] = {"cmd": "bin/check %s --tier %s" % (prop, tier), "exit": r.returncode,
                                "violation_lines": len(viol), "violations_total": int(total.group(1)) if total else None,
                                "clauses": clauses, "detected": r.returncode == 1,
                                "machinery": re.findall(r"^MACHINERY.*", r.stdout, re.M)[:2]}
    json.dump(meta, open(os.path.join(d, "meta.json"), "w"), indent=1)
    cr = meta["check_result"]
    print("%-8s %s exit=%s detected=%s %s" % (sid, prop, cr.get("exit"), cr.get("detected"), cr.get("clauses") or cr.get("error") or cr.get("machinery")))
    return meta


def main():
    a = sys.argv[1:]
    if a[0] in ("add", "confirm"):
        # confirm <PROP> <mN in the agent's output> <needs> [<mK to store it as>] : confirm and store only (no check run; parallel-safe)
        prop, m, needs = a[1], a[2], a[3]
        dst = a[4] if len(a) > 4 else m
        ok, info = confirm(prop, m)
        print(prop, m, "confirmed" if ok else "NOT CONFIRMED", info)
        if not ok:
            return 1
        sid = "%s-%s" % (prop, dst)
        d = os.path.join(SEEDED, sid)
        os.makedirs(d, exist_ok=True)
        src = "%s/%s/%s" % (OUT_ROOT, prop, m)
        for f in ("patch.diff", "demo.py", "notes.md"):
            sh("cp %s/%s %s/" % (src, f, d))
        meta = {"id": sid, "property": prop, "origin": "independent sub-agent given only the property text and a scratch worktree",
                "needs_to_manifest": needs,
                "confirmed_in_scratch_worktree": info,
                "how_to_run": "git -C /repo apply /verif/seeded/%s/patch.diff && bin/check %s ; git -C /repo checkout -- ." % (sid, prop)}
        json.dump(meta, open(os.path.join(d, "meta.json"), "w"), indent=1)
        if a[0] == "add":
            run_check(sid)
    elif a[0] == "run":
        tier = "quick"
        if "--tier" in a:
            tier = a[a.index("--tier") + 1]
            a = [x for x in a if x not in ("--tier", tier)]
        ids = a[1:] or sorted(os.listdir(SEEDED))
        for sid in ids:
            if os.path.exists(os.path.join(SEEDED, sid, "meta.json")):
                run_check(sid, tier)
    elif a[0] == "table":
        print("| seeded change | property | needs | detected by quick check | rejecting clause(s) |")
        print("|---|---|---|---|---|")
        for sid in sorted(os.listdir(SEEDED)):
            p = os.path.join(SEEDED, sid, "meta.json")
            if not os.path.exists(p):
                continue
            m = json.load(open(p))
            cr = m.get("check_result", {})
            print("| %s | %s | %s | %s | %s |" % (sid, m["property"], m["needs_to_manifest"], "yes" if cr.get("detected") else "NO",
                                             ", ".join(sorted(cr.get("clauses", {}))[:3])))


if __name__ == "__main__":
    sys.exit(main() or 0)
