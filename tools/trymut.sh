#!/bin/sh
# tools/trymut.sh <patch.diff> <PROP> [tier]  : apply a seeded change to /repo, run the check, undo the change.  Prints the exit code.
set -u
P="$1"; ID="$2"; TIER="${3:-quick}"
cd /verif
git -C /repo diff --quiet || { echo "/repo not clean"; exit 3; }
git -C /repo apply "$P" || { echo "patch does not apply"; exit 3; }
bin/check "$ID" --tier "$TIER" > /tmp/trymut.$$.log 2>&1
rc=$?
git -C /repo checkout -- .
git -C /repo diff --quiet || echo "WARNING: /repo not restored"
grep -c '^VIOLATION' /tmp/trymut.$$.log | sed 's/^/violations: /'
grep -E '^  clause=' /tmp/trymut.$$.log | sed 's/case=.*//' | sort | uniq -c | head -8
grep -E 'MACHINERY|KNOWN-FINDING|done:' /tmp/trymut.$$.log | tail -4
rm -f /tmp/trymut.$$.log
echo "exit=$rc"
