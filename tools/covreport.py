#!/venv/bin/python
"""Which lines of a property's anchor files does its check never execute?  (development aid, not a check)

    COVERAGE_CORE=sysmon /venv/bin/python -m coverage run --source=/repo/annet --data-file=/tmp/cov/data_C05 -m vf.main C05
    tools/covreport.py C05 /tmp/cov/data_C05 [-v]

Lines never executed cannot reveal a change made to them: the report lists them per anchor file so that input domains can be widened."""
import json
import sys

import coverage


def main():
    prop, data = sys.argv[1], sys.argv[2]
    verbose = "-v" in sys.argv
    props = {json.loads(l)["id"]: json.loads(l) for l in open("/verif/properties.jsonl")}
    files = props[prop]["anchors"]["files"]
    cov = coverage.Coverage(data_file=data)
    cov.load()
    for f in files:
        path = "/repo/" + f
        try:
            _fn, execl, _excl, missing, mstr = cov.analysis2(path)
        except Exception as e:
            print("%-45s not measured (%s)" % (f, type(e).__name__))
            continue
        print("%-45s %4d/%4d lines executed; missing: %s" % (f, len(execl) - len(missing), len(execl), mstr if verbose or len(mstr) < 400 else mstr[:400] + " ..."))
    import re
    print("-- mechanisms")
    for m in props[prop]["anchors"]["mechanism"]:
        mm = re.match(r"([\w/\.]+\.py):(\d+)-(\d+)", m["where"])
        if not mm:
            print("   %-60s (no line range: %s)" % (m["name"][:60], m["where"]))
            continue
        f, a, b = mm.group(1), int(mm.group(2)), int(mm.group(3))
        try:
            _fn, execl, _excl, missing, _ = cov.analysis2("/repo/" + f)
        except Exception:
            print("   %-60s not measured" % m["name"][:60])
            continue
        ex = [x for x in execl if a <= x <= b]
        ms = [x for x in missing if a <= x <= b]
        print("   %-60s %s:%d-%d  %d/%d  missing %s" % (m["name"][:60], f, a, b, len(ex) - len(ms), len(ex), ms))


if __name__ == "__main__":
    main()
