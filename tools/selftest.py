#!/venv/bin/python
"""Binding demonstration for the trace specifications: a genuine recorded execution is accepted; the same record with one field corrupted or
one event dropped is rejected.  Run: PYTHONPATH=/verif:/repo PYTHONHASHSEED=0 /venv/bin/python tools/selftest.py   (exit 0 = all as expected)"""
import copy
import json
import os
import random
import sys

HERE = os.path.dirname(os.path.dirname(os.path.abspath(__file__)))
sys.path.insert(0, HERE)
sys.path.insert(0, "/repo")
from vf import core, sched  # noqa
from vf.drivers import c12, c05  # noqa

ok = True


def expect(name, got, want_ok):
    global ok
    good = (got == "ok") == want_ok
    print("%-58s verdict=%-45s %s" % (name, got, "as expected" if good else "UNEXPECTED"))
    ok = ok and good


def main():
    ctx = core.Ctx("SELFTEST", "quick", 0)
    rnd = random.Random(3)
    # ---- Trace_Pool (stepping judge): a real schedule of the real pool
    run = sched.explore(4, 2, 2, (), True, rnd)
    rec = run.record("good")
    rec["mode"] = "events"
    key = (4, 2, 2, (), True)
    dropped = copy.deepcopy(rec)
    dropped["id"] = "event-dropped"
    k = next(i for i, e in enumerate(dropped["ev"]) if e["a"] == "put")
    del dropped["ev"][k]
    payload = copy.deepcopy(rec)
    payload["id"] = "payload-corrupted"
    payload["out"][0]["val"] += 1
    lost = copy.deepcopy(rec)
    lost["id"] = "result-removed-from-consumer-view"
    lost["out"].pop()
    v = c12.judge_pool(ctx, {key: [rec, dropped, payload, lost]})
    expect("Trace_Pool: genuine trace", v["good"][0], True)
    expect("Trace_Pool: one `put` event dropped", " ".join(map(str, v["event-dropped"])), False)
    expect("Trace_Pool: payload of one result corrupted", v["payload-corrupted"][0], False)
    expect("Trace_Pool: one delivered result hidden", v["result-removed-from-consumer-view"][0], False)
    # ---- Trace_Offside (functional judge)
    from annet.annlib import tabparser
    text = "a\n  b\n    c\n  d\n"
    sp = tabparser.CommonFormatter().split
    out = c05.real_parse(text, sp, ("!", "#"))
    good = {"id": "good", "comments": ["!", "#"], "lines": c05.lex(sp(text)), "err": out["err"], "tree": out["tree"]}
    bad = copy.deepcopy(good)
    bad["id"] = "tree-corrupted"
    bad["tree"][0]["kids"].append(bad["tree"][0]["kids"][0]["kids"].pop())      # move `c` one level up
    bad2 = copy.deepcopy(good)
    bad2["id"] = "error-flag-flipped"
    bad2["err"] = True
    v = ctx.judge("trace/Trace_Offside.tla", "trace/Trace.cfg", [good, bad, bad2])
    expect("Trace_Offside: genuine parse", v["good"][0], True)
    expect("Trace_Offside: a node moved to another parent", v["tree-corrupted"][0], False)
    expect("Trace_Offside: outcome flipped to ParserError", v["error-flag-flipped"][0], False)
    # ---- Trace_Vlan
    good = {"id": "good", "kind": "patch", "old": [[2, 0, 5], [10]], "new": [[2, 0, 5]], "cmds": [{"op": "del", "toks": [10]}]}
    bad = dict(good, id="wrong-command", cmds=[{"op": "delall", "toks": []}])
    v = ctx.judge("trace/Trace_Vlan.tla", "trace/Trace.cfg", [good, bad])
    expect("Trace_Vlan: removal of the removed VLAN only", v["good"][0], True)
    expect("Trace_Vlan: `undo ... all` instead", v["wrong-command"][0], False)
    import shutil
    shutil.rmtree(ctx.scratch, ignore_errors=True)
    print("SELFTEST", "OK" if ok else "FAILED")
    return 0 if ok else 1


if __name__ == "__main__":
    sys.exit(main())
