import random
from collections import OrderedDict as od
from annet.vendors import registry_connector
from annet.annlib.tabparser import parse_to_tree
reg=registry_connector.get()
random.seed(4)
W=["a","b","c","x-1","10.0.0.1/24","k=v"]
def row(): return " ".join(random.choice(W) for _ in range(random.randint(1,3)))
def tree(d):
    t=od()
    for _ in range(random.randint(0,3) if d>0 else 0):
        t[row()]=tree(d-1)
    return t
def ros_tree(d):
    # sections: single words nested, then leaf rows
    t=od()
    for _ in range(random.randint(1,2)):
        sec=random.choice(["ip","interface","bridge","address"])
        if d>0 and random.random()<0.5: t[sec]=ros_tree(d-1)
        else:
            leaves=od((("add "+row()),od()) for _ in range(random.randint(1,3)))
            t[sec]=leaves
    return t
def plain(t): return [(k,plain(v)) for k,v in t.items()]
for v in reg:
    f=reg[v].make_formatter(); bad=0; exc=0
    for i in range(3000):
        t = ros_tree(2) if v=="routeros" else tree(4)
        try:
            s=f.join(t); t2=parse_to_tree(s,f.split); s2=f.join(t2)
            if plain(t2)!=plain(t) or s2!=s:
                bad+=1
                if bad<2: print(v,"FAIL",plain(t),"|",s.replace("\n","\\n"),"|",plain(t2))
        except Exception as e:
            exc+=1
            if exc<2: print(v,"EXC",type(e).__name__,e,plain(t))
    print(v,"bad",bad,"exc",exc)
