import sys, copy, random, pickle, hashlib, types, json
sys.path.insert(0,'/repo')
from tests.annet import patch_data
from tests import make_hw_stub
from annet.hardware import hardware_connector, AnnetHardwareProvider
from annet.rulebook import rulebook_provider_connector, DefaultRulebookProvider
hardware_connector.set(AnnetHardwareProvider); rulebook_provider_connector.set(DefaultRulebookProvider)
from annet import rulebook, patching, api
from annet.vendors import registry_connector
samples=list(patch_data.get_samples(dirname="annet/test_patch"))
def plain(t): return [(k,plain(v)) for k,v in t.items()]
def snap_rb(rb):
    # structural snapshot ignoring function identity
    def conv(x):
        if isinstance(x,dict): return {str(k):conv(v) for k,v in x.items()}
        if isinstance(x,(list,tuple)): return [conv(v) for v in x]
        if callable(x): return getattr(x,"__module__","")+"."+getattr(x,"__name__",repr(x))
        if hasattr(x,"pattern"): return ("re",x.pattern,x.flags)
        return x
    return json.dumps(conv(rb),sort_keys=True,default=str)
def run(name,sample):
    vendor=sample.get("vendor","huawei").lower(); hw=make_hw_stub(vendor)
    old,new,_=patch_data.get_configs(hw,sample)
    so,sn=plain(old),plain(new)
    rb=rulebook.get_rulebook(hw); srb=snap_rb(rb)
    d,p=api._diff_and_patch(types.SimpleNamespace(hw=hw),old,new,None,None,False)
    f=registry_connector.get().match(hw).make_formatter(indent="")
    res=(json.dumps([ (op,row) for op,row,_,_ in d]), list(f.cmd_paths(p)))
    mut = (plain(old)!=so, plain(new)!=sn, snap_rb(rb)!=srb)
    return res, mut
mode=sys.argv[1]
if mode=="fresh":
    import subprocess
    out={}
    # one subprocess per job is slow; do each job in fresh forked child
    import os
    for i,(name,s) in enumerate(samples):
        r,w=os.pipe()
        pid=os.fork()
        if pid==0:
            os.close(r)
            try: res=run(name,s)
            except Exception as e: res=("EXC",repr(e))
            os.write(w,pickle.dumps(res)); os._exit(0)
        os.close(w); data=b""
        while True:
            b=os.read(r,65536)
            if not b: break
            data+=b
        os.waitpid(pid,0); out[name]=pickle.loads(data)
    pickle.dump(out,open("/tmp/fresh.pk","wb")); print("fresh",len(out))
else:
    fresh=pickle.load(open("/tmp/fresh.pk","rb"))
    random.seed(int(mode)); order=list(range(len(samples)))
    bad=0; muts=0
    for rep in range(3):
        random.shuffle(order)
        for i in order:
            name,s=samples[i]
            try: res=run(name,s)
            except Exception as e: res=("EXC",repr(e))
            if res!=fresh[name]:
                bad+=1
                if bad<4: print("HIST-DIFF",name, res[1] if res[0]!="EXC" else res, fresh[name][1])
            elif res[0]!="EXC" and any(res[1]): muts+=1; print("MUT",name,res[1]) if muts<4 else None
    print("jobs",3*len(order),"bad",bad,"mut",muts)
