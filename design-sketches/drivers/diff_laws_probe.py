import random, sys
from collections import OrderedDict as od
from annet.hardware import hardware_connector, AnnetHardwareProvider
from annet.rulebook import rulebook_provider_connector, DefaultRulebookProvider
hardware_connector.set(AnnetHardwareProvider); rulebook_provider_connector.set(DefaultRulebookProvider)
from annet import patching
from annet.annlib.types import Op
from annet.annlib.diff import gen_pre_as_diff
from annet.rulebook.patching import compile_patching_text
from annet.vendors import registry_connector
VEND="huawei"
RUL = sys.argv[1] if len(sys.argv)>1 else "a *\nb\nblk *\n    x * %ordered\n    y\n    sub *\n        z *\n!ign ~\n"
rb={"patching": compile_patching_text(RUL,VEND)}
f=registry_connector.get()[VEND].make_formatter()
random.seed(3)
K=["1","2","3"]
def shuffled(l):
    l=list(l); random.shuffle(l); return l
def rnd_cfg():
    t=od()
    items=[]
    for k in K[:2]:
        if random.random()<0.4: items.append(("a "+k,od()))
    if random.random()<0.4: items.append(("b"+random.choice([""," v1"," v2"]),od()))
    if random.random()<0.2: items.append(("unk "+random.choice(K),od()))
    if random.random()<0.2: items.append(("ign "+random.choice(K),od()))
    for k in K[:2]:
        if random.random()<0.6:
            b=[]
            for k2 in K:
                if random.random()<0.6: b.append(("x "+k2,od()))
            if random.random()<0.4: b.append(("y"+random.choice([""," w1"," w2"]),od()))
            for k2 in K[:2]:
                if random.random()<0.3:
                    s=od((("z "+k3),od()) for k3 in shuffled(K) if random.random()<0.5)
                    b.append(("sub "+k2,s))
            items.append(("blk "+k,od(shuffled(b))))
    return od(shuffled(items))
def known(t, rules):
    from annet.annlib.patching import _match_row_to_rules
    r=od()
    for k,v in t.items():
        m,ch=_match_row_to_rules(k,rules)
        if m: r[k]=known(v,ch)
    return r
def proj(d, drop):
    return [(row, proj(ch, drop)) for (op,row,ch,_) in d if op!=drop]
def plain(t): return [(k,plain(v)) for k,v in t.items()]
def unordered(l): return sorted((r,unordered(c)) for r,c in l)
def ordered_under_x(l): return l
def parse_signed(lines, indent="  "):
    root=[]; stack=[(-1,root)]
    for ln in lines:
        sign=ln[0]; rest=ln[2:]; lvl=(len(rest)-len(rest.lstrip(" ")))//len(indent); row=rest.strip()
        while stack[-1][0]>=lvl: stack.pop()
        node=(sign,row,[]); stack[-1][1].append(node); stack.append((lvl,node[2]))
    return root
SIGN={Op.ADDED:"+",Op.REMOVED:"-",Op.MOVED:">",Op.AFFECTED:" "}
def signed(d): return [(SIGN[op],row,signed(ch)) for (op,row,ch,_) in d]
bad=0;N=20000
for i in range(N):
    old=rnd_cfg(); new=rnd_cfg()
    d=patching.make_diff(old,new,rb,[])
    ko=plain(known(old,rb["patching"])); kn=plain(known(new,rb["patching"]))
    po=proj(d,Op.ADDED); pn=proj(d,Op.REMOVED)
    ok = unordered(po)==unordered(ko) and unordered(pn)==unordered(kn)
    ds=patching.strip_unchanged(d)
    txt=f.diff(ds)
    ok_txt = parse_signed(txt)==signed(ds)
    dself=patching.strip_unchanged(patching.make_diff(old,old,rb,[]))
    if not (ok and ok_txt and dself==[]):
        bad+=1
        if bad<4: print("FAIL",ok,ok_txt,dself==[],"\n",plain(old),"\n",plain(new),"\n",[(o,r) for o,r,_,_ in d],"\n",txt)
print(N,"bad",bad)

# ---- MOVED clause and ordered projections, gen_pre_as_diff multiset
from annet.annlib.diff import gen_pre_as_diff
badm=0; bado=0; badg=0
random.seed(8)
for i in range(20000):
    old=rnd_cfg(); new=rnd_cfg()
    d=patching.make_diff(old,new,rb,[])
    for (op,row,ch,m) in d:
        if not row.startswith("blk"): continue
        ox=[k for k in old.get(row,{}) if k.startswith("x ")]; nx=[k for k in new.get(row,{}) if k.startswith("x ")]
        got={r:o for (o,r,_,_) in ch if r.startswith("x ")}
        # ordered projection
        po=[r for (o,r,_,_) in ch if r.startswith("x ") and o!=Op.ADDED]; pn=[r for (o,r,_,_) in ch if r.startswith("x ") and o!=Op.REMOVED]
        if row in old and row in new:
            if sorted(po)!=sorted(ox) or pn!=nx: bado+=1
            for j,r in enumerate(nx):
                if r in ox:
                    moved_ref = nx[:j]!=ox[:ox.index(r)]
                    if (got[r]==Op.MOVED)!=moved_ref:
                        badm+=1
                        if badm<4: print("MOVED?",ox,nx,r,got[r])
    ds=patching.strip_unchanged(d)
    pre=patching.make_pre(ds)
    lines=[l.rstrip("\n") for l in gen_pre_as_diff(pre,False,"  ",True)]
    def ms(t): return sorted((s,r,ms(c)) for s,r,c in t)
    if ms(parse_signed(lines))!=ms(signed(ds)):
        badg+=1
        if badg<3: print("GEN",lines,signed(ds))
print("moved-clause bad",badm,"ordered-proj bad",bado,"gen_pre_as_diff bad",badg)
