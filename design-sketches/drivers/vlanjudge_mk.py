import itertools, json, sys
from collections import OrderedDict as od
from annet.hardware import hardware_connector, AnnetHardwareProvider
from annet.rulebook import rulebook_provider_connector, DefaultRulebookProvider
hardware_connector.set(AnnetHardwareProvider); rulebook_provider_connector.set(DefaultRulebookProvider)
from annet import rulebook, patching
from annet.annlib.lib import huawei_collapse_vlandb
from annet.vendors import registry_connector
from annet.annlib.netdev.views.hardware import HardwareView
hw=HardwareView("Huawei CE6870",None); rb=rulebook.get_rulebook(hw)
f=registry_connector.get().match(hw).make_formatter(indent="")
U=[2,3,4,6,7,10]
PFX="port trunk allow-pass vlan"
def lines_of(S, split):
    if not S: return []
    col=huawei_collapse_vlandb(S)          # list of "a to b" / "a"
    # split collapsed items over up to 2 lines at position `split`
    parts=[col[:split],col[split:]] if 0<split<len(col) else [col]
    return [" ".join(p) for p in parts if p]
def lex(s): return [int(t) if t.isdigit() else 0 for t in s.split()]
n=0
with open("/tmp/vlan/recs.ndjson","w") as fo:
    subsets=[set(c) for k in range(len(U)+1) for c in itertools.combinations(U,k)]
    for so in subsets:
        for sn in subsets:
            for sp_o in range(0,3):
                for sp_n in range(0,3):
                    lo=lines_of(so,sp_o); ln=lines_of(sn,sp_n)
                    if sp_o>0 and len(lo)<2: continue
                    if sp_n>0 and len(ln)<2: continue
                    old=od([("interface if1", od([("port link-type trunk",od())]+[(PFX+" "+l,od()) for l in lo]))])
                    new=od([("interface if1", od([("port link-type trunk",od())]+[(PFX+" "+l,od()) for l in ln]))])
                    d=patching.make_diff(old,new,rb,[]); p=patching.make_patch(patching.make_pre(d),rb,hw,False)
                    cmds=[]
                    for path in f.cmd_paths(p):
                        c=path[-1]
                        if c in ("interface if1","quit"): continue
                        if c=="undo "+PFX+" all": cmds.append({"op":"delall","toks":[]})
                        elif c.startswith("undo "+PFX+" "): cmds.append({"op":"del","toks":lex(c[len("undo "+PFX+" "):])})
                        elif c.startswith(PFX+" "): cmds.append({"op":"add","toks":lex(c[len(PFX+" "):])})
                        else: cmds.append({"op":"other:"+c,"toks":[]})
                    fo.write(json.dumps({"id":n,"old":[lex(l) for l in lo],"new":[lex(l) for l in ln],"cmds":cmds})+"\n"); n+=1
print("records",n)
