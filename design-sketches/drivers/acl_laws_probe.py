import random, itertools
from collections import OrderedDict as od
from annet.annlib.rbparser.acl import compile_acl_text
from annet.annlib.patching import apply_acl, AclError
random.seed(5)
W=["a","b","c"]
def rnd_row(): return " ".join(random.choice(W) for _ in range(random.randint(1,3)))
def rnd_tree(d):
    t=od()
    if d==0: return t
    for _ in range(random.randint(0,3)):
        t[rnd_row()]=rnd_tree(d-1)
    return t
def rnd_pat():
    n=random.randint(1,3); toks=[random.choice(W+["*"]) for _ in range(n)]
    if random.random()<0.3: toks.append("~")
    pass
    return " ".join(toks)
def rnd_acl(d, ind=0):
    out=[]
    for _ in range(random.randint(1,3)):
        line=" "*ind+rnd_pat()
        pass
        pass
        out.append(line)
        if d>1 and "%global" not in line and random.random()<0.6: out+=rnd_acl(d-1, ind+2)
    return out
def plain(t): return [(k,plain(v)) for k,v in t.items()]
def is_sub(s,t):
    # order preserving subtree
    it=iter(t.items())
    for k,v in s.items():
        for k2,v2 in it:
            if k2==k:
                if not is_sub(v,v2): return False
                break
        else: return False
    return True
def union_sub(a,b,c):  # a∪b subtree of c
    return is_sub(a,c) and is_sub(b,c)
cnt=dict(idem=0,sub=0,mono=0,n=0, err=0)
for i in range(20000):
    A="\n".join(rnd_acl(3)); B="\n".join(rnd_acl(3)); t=rnd_tree(3)
    try:
        ra=compile_acl_text(A,"huawei"); rb=compile_acl_text(B,"huawei"); rab=compile_acl_text(A+"\n"+B,"huawei")
    except Exception as e:
        cnt["err"]+=1; continue
    x=apply_acl(t,ra); y=apply_acl(t,rb); z=apply_acl(t,rab)
    cnt["n"]+=1
    if not is_sub(x,t): cnt["sub"]+=1; print("SUB",A,plain(t),plain(x)) if cnt["sub"]<3 else None
    if plain(apply_acl(x,ra))!=plain(x):
        cnt["idem"]+=1
        if cnt["idem"]<4: print("IDEM\n"+A,"\n",plain(t),"\n",plain(x),"\n",plain(apply_acl(x,ra)))
    if not union_sub(x,y,z):
        cnt["mono"]+=1
        if cnt["mono"]<4: print("MONO\n"+A+"\n--\n"+B,"\n",plain(t),"\n",plain(x),plain(y),"\n",plain(z))
print(cnt)
