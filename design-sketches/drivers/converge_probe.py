import random, itertools, sys
from collections import OrderedDict as od
from annet.hardware import hardware_connector, AnnetHardwareProvider
from annet.rulebook import rulebook_provider_connector, DefaultRulebookProvider
hardware_connector.set(AnnetHardwareProvider); rulebook_provider_connector.set(DefaultRulebookProvider)
from annet import patching, tabparser, api
from annet.annlib.patching import _match_row_to_rules
from annet.rulebook.patching import compile_patching_text
from annet.annlib.rbparser.ordering import compile_ordering_text
from annet.rulebook.deploying import compile_deploying_text
from annet.vendors import registry_connector
from annet.annlib.netdev.views.hardware import HardwareView
import types
VEND = sys.argv[1] if len(sys.argv)>1 else "huawei"
hwname = {"huawei":"Huawei CE0000","cisco":"Cisco Catalyst","pc":"PC"}[VEND]
hw = HardwareView(hwname, None)
vendor = registry_connector.get()[VEND]
f = vendor.make_formatter(indent="")
RUL = sys.argv[2] if len(sys.argv)>2 else """
a *
b
c ~
blk *
    x *
    y
    sub *
        z *
"""
rb = {"patching": compile_patching_text(RUL,VEND), "ordering": compile_ordering_text("",VEND), "deploying": compile_deploying_text("", VEND)}
dev_obj = types.SimpleNamespace(hw=hw)
def slot(rules, row):
    m, ch = _match_row_to_rules(row, rules)
    if not m: return None, None, None
    return (m["raw_rule"], m["key"]), m, ch
def exec_path(dev, rules, path):
    # dev: odict row->odict ; returns nothing, mutates
    row = path[0]
    if len(path) > 1:
        s, m, ch = slot(rules, row)
        if row not in dev:
            setline(dev, rules, row)
        exec_path(dev[row], ch, path[1:])
        return
    if row == vendor.exit and vendor.exit: return
    hit=False
    for r in list(dev):
        s2, m2, _ = slot(rules, r)
        if m2 and m2["attrs"]["reverse"].format(*m2["key"]) == row:
            del dev[r]; hit=True
    if hit: return
    s, m, ch = slot(rules, row)
    if s is not None:
        if m["attrs"]["parent"] and row in dev:
            # entering existing block: clear rewrite-governed children
            for r in list(dev[row]):
                s3, m3, _ = slot(ch, r)
                if m3 and m3["attrs"]["logic"].__name__=="rewrite": del dev[row][r]
        setline(dev, rules, row); return
def setline(dev, rules, row):
    s, m, ch = slot(rules, row)
    for r in list(dev):
        if r == row: return
        s2,_,_ = slot(rules, r)
        if s2 == s:
            # replace in place keep position
            items = [(row if k==r else k, (v if k!=r else v)) for k,v in dev.items()]
            dev.clear(); dev.update(items); return
    dev[row] = od()
def plain(t): return {k: plain(v) for k,v in t.items()}
def cp(t): return od((k,cp(v)) for k,v in t.items())
random.seed(int(sys.argv[3]) if len(sys.argv)>3 else 1)
K=["1","2"]
def rnd_cfg():
    t=od()
    for k in K:
        if random.random()<0.4: t["a "+k]=od()
    if random.random()<0.4: t["b" + random.choice([""," v1"," v2"])]=od()
    if random.random()<0.4: t["c "+random.choice(["p","p q","r"])]=od()
    for k in K:
        if random.random()<0.5:
            b=od()
            for k2 in K:
                if random.random()<0.4: b["x "+k2+random.choice([""," v1"," v2"])]=od()
            if random.random()<0.4: b["y"+random.choice([""," w1"," w2"])]=od()
            for k2 in K:
                if random.random()<0.3:
                    s=od()
                    for k3 in K:
                        if random.random()<0.5: s["z "+k3]=od()
                    b["sub "+k2]=s
            t["blk "+k]=b
    return t
bad=0; N=5000; nontriv=0
for i in range(N):
    old=rnd_cfg(); new=rnd_cfg()
    d,p = api._diff_and_patch(dev_obj, old, new, None, None, False, rb=rb)
    cmds=list(f.cmd_paths(p))
    dev=cp(old)
    for c in cmds: exec_path(dev, rb["patching"], list(c))
    if cmds: nontriv+=1
    ok = plain(dev)==plain(new)
    d2,p2 = api._diff_and_patch(dev_obj, dev, new, None, None, False, rb=rb)
    ok2 = (d2==[] and not f.cmd_paths(p2))
    if not (ok and ok2):
        bad+=1
        if bad<=4: print("FAIL ok=%s ok2=%s\n old=%s\n new=%s\n cmds=%s\n dev=%s"%(ok,ok2,plain(old),plain(new),cmds,plain(dev)))
print("N",N,"nontrivial",nontriv,"bad",bad)
