import sys, random, types
sys.argv=["x","huawei"]
exec(open('/verif/design-sketches/drivers/converge_probe.py').read().split("bad=0; N=5000")[0])
from annet.annlib.rbparser.acl import compile_acl_text
random.seed(21)
def rnd_acl():
    lines=[]
    def star(k): return random.choice(["*"]+K)
    if random.random()<0.6: lines.append("a "+star(0)+(" %cant_delete=1" if random.random()<0.3 else ""))
    if random.random()<0.5: lines.append("b"+(" %cant_delete=1" if random.random()<0.3 else ""))
    if random.random()<0.5: lines.append("c ~")
    if random.random()<0.8:
        lines.append("blk "+star(0)+(" %cant_delete="+random.choice("01") if random.random()<0.5 else ""))
        if random.random()<0.7: lines.append("    x "+star(0))
        if random.random()<0.5: lines.append("    y"+(" %cant_delete=1" if random.random()<0.3 else ""))
        if random.random()<0.5:
            lines.append("    sub "+star(0))
            if random.random()<0.7: lines.append("        z *")
        if random.random()<0.2: lines.append("    ~ %global")
    return "\n".join(lines)+"\n"
def matches(rules, globs_inh, row):
    out=[]
    for key in ("direct_regexp","reverse_regexp"):
        for isg,rs in ((False,rules["local"]),(True,rules["global"])):
            for raw,r in rs.items():
                if r["attrs"][key].match(row): out.append((r,isg,key=="reverse_regexp"))
    return out
def cov_some(path, rules):
    row=path[0]; ms=matches(rules,None,row)
    if not ms: return False
    if len(path)==1: return True
    for r,isg,rev in ms:
        if not isg and not rev:
            sub={"local":r["children"]["local"], "global":dict(r["children"]["global"], **rules["global"])}
        else:
            sub={"local":{}, "global":rules["global"]}
        if cov_some(path[1:], sub): return True
    return False
def only_cant(path, rules):
    # all rules matching last row along any chain have all cant_delete true
    row=path[0]; ms=matches(rules,None,row)
    if len(path)==1: return bool(ms) and all(all(r["attrs"]["cant_delete"]) for r,_,_ in ms)
    res=[]
    for r,isg,rev in ms:
        if not isg and not rev: sub={"local":r["children"]["local"], "global":dict(r["children"]["global"], **rules["global"])}
        else: sub={"local":{}, "global":rules["global"]}
        res.append(sub)
    return bool(res) and all(only_cant(path[1:],s) for s in res if matches(s,None,path[1]) or True) and any(matches(s,None,path[1]) for s in res)
def paths(t,pfx=()):
    for k,v in t.items():
        yield pfx+(k,); yield from paths(v,pfx+(k,))
def get(t,p):
    for k in p:
        if k not in t: return None
        t=t[k]
    return t
va=vb=vc=0; n=0; nontriv=0
for i in range(6000):
    A=rnd_acl(); acl=compile_acl_text(A,"huawei")
    old=rnd_cfg(); new=rnd_cfg()
    d,p=api._diff_and_patch(dev_obj, old, new, acl, None, False, rb=rb)
    cmds=list(f.cmd_paths(p)); n+=1
    if cmds: nontriv+=1
    for c in cmds:
        if c[-1]==vendor.exit: continue
        if not cov_some(list(c),acl):
            va+=1
            if va<3: print("A-VIOL",A,c)
    dev=cp(old)
    for c in cmds: exec_path(dev, rb["patching"], list(c))
    for pth in paths(old):
        anc_ok=all(get(dev,pth[:j]) is not None for j in range(1,len(pth)))
        if not cov_some(list(pth),acl) and anc_ok:
            if get(dev,pth) is None or plain(get(dev,pth))!=plain(get(old,pth)):
                # subtree equality only meaningful if none of the subtree is covered; check row presence only + fully-uncovered subtree
                sub_unc=all(not cov_some(list(pth+q),acl) for q in paths(get(old,pth)))
                if get(dev,pth) is None or sub_unc:
                    vb+=1
                    if vb<3: print("B-VIOL",A,pth,plain(old),plain(new),cmds,plain(dev))
        def slot_present(dev, pth):
            from annet.annlib.patching import _match_row_to_rules
            rules=rb["patching"]; t=dev
            for k in pth[:-1]:
                m,ch=_match_row_to_rules(k,rules); rules=ch; t=t[k]
            m,_=_match_row_to_rules(pth[-1],rules)
            for r in t:
                m2,_=_match_row_to_rules(r,rules)
                if m2 and (m2["raw_rule"],m2["key"])==(m["raw_rule"],m["key"]): return True
            return False
        if only_cant(list(pth),acl) and anc_ok and not slot_present(dev,pth):
            vc+=1
            if vc<3: print("C-VIOL",A,pth,plain(old),plain(new),cmds)
print("n",n,"nontrivial",nontriv,"viol a,b,c",va,vb,vc)
