import sys, json, random, types
RUL = open('/tmp/alayer/rul.txt').read()
sys.argv=["x","huawei",RUL]
exec(open('/verif/design-sketches/drivers/converge_probe.py').read().split("bad=0; N=5000")[0])
def toks(raw):
    out=[]
    for w in raw.split():
        if w.startswith("%"): break
        out.append({"t":"star"} if w=="*" else {"t":"tilde"} if w=="~" else {"t":"lit","w":w})
    return out
def all_raw(rules, acc):
    for key in ("local","global"):
        for raw,r in rules[key].items():
            acc.add(raw)
            if r["children"]: all_raw(r["children"],acc)
    return acc
ranks={raw:i for i,raw in enumerate(sorted(all_raw(rb["patching"],set())))}
def conv_rules(rules):
    out=[]
    for glob,key in ((False,"local"),(True,"global")):
        for raw,r in rules[key].items():
            out.append({"pat":toks(raw),"kids":conv_rules(r["children"]) if r["children"] else [], "glob":glob,
                        "rk":ranks[raw], "logic": r["attrs"]["logic"].__name__, "parent": bool(r["attrs"]["parent"])})
    return out
json.dump({"prefix":vendor.reverse,"exit":vendor.exit,"rules":conv_rules(rb["patching"])}, open("/tmp/alayer/rb.json","w"))
def tj(t): return [{"row":k.split(),"kids":tj(v)} for k,v in t.items()]
N=int(sys.argv[3]) if len(sys.argv)>3 else 3000
random.seed(11)
with open("/tmp/alayer/recs.ndjson","w") as fo:
    for i in range(3000):
        old=rnd_cfg(); new=rnd_cfg()
        d,p = api._diff_and_patch(dev_obj, old, new, None, None, False, rb=rb)
        cmds=[[c.split() for c in path] for path in f.cmd_paths(p)]
        fo.write(json.dumps({"id":i,"old":tj(old),"new":tj(new),"cmds":cmds})+"\n")
print("wrote")
