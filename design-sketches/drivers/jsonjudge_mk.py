import itertools, json, jsonpatch, jsonpointer, sys
from annet.annlib import jsontools as jt
def enc(d):
    if isinstance(d,dict): return {"t":"o","k":list(d.keys()),"v":[enc(x) for x in d.values()]}
    if isinstance(d,list): return {"t":"a","v":[enc(x) for x in d]}
    return {"t":"s","x":json.dumps(d)}
def ptr(s):
    parts=jsonpointer.JsonPointer(s).parts
    return [{"s":p,"n":(int(p) if p.isdigit() else (-2 if p=="-" else -1))} for p in parts]
def encop(op):
    o={"op":op["op"],"path":ptr(op["path"]),"from":ptr(op["from"]) if "from" in op else [],"value":enc(op["value"]) if "value" in op else {"t":"ERR"}}
    return o
# documents of one schema: {"a": list over {1,2,3,4} (<=4 distinct elems, any order), "b": {"c": scalar}?, "k~": scalar?}
arrs=[list(p) for n in range(0,4) for p in itertools.permutations([1,2,3,4],n)]
docs=[]
for a in arrs:
    for b in (None,{"c":1},{"c":2,"d/e":1}):
        d={"a":a}
        if b is not None: d["b"]=b
        docs.append(d)
print(len(docs),"docs")
import random; random.seed(1)
pairs=[(o,n) for o in docs for n in docs]
random.shuffle(pairs); pairs=pairs[:int(sys.argv[1])]
PY={}
with open("/tmp/js/recs.ndjson","w") as fo:
    for i,(o,n) in enumerate(pairs):
        ops_sorted=jt.make_patch(o,n)
        ops_raw=list(jsonpatch.make_patch(o,n).patch)
        def pyok(ops):
            try: return jsonpatch.JsonPatch(ops).apply(o)==n
            except Exception: return False
        PY[2*i]=pyok(ops_sorted); PY[2*i+1]=pyok(ops_raw)
        fo.write(json.dumps({"id":2*i,"src":"annet "+json.dumps(o)+" -> "+json.dumps(n),"old":enc(o),"new":enc(n),"ops":[encop(x) for x in ops_sorted]})+"\n")
        fo.write(json.dumps({"id":2*i+1,"src":"jsonpatch-unsorted","old":enc(o),"new":enc(n),"ops":[encop(x) for x in ops_raw]})+"\n")

json.dump(PY,open("/tmp/js/py.json","w"))
