import random, itertools
from annet.hardware import hardware_connector, AnnetHardwareProvider
from annet.rulebook import rulebook_provider_connector, DefaultRulebookProvider
hardware_connector.set(AnnetHardwareProvider); rulebook_provider_connector.set(DefaultRulebookProvider)
from annet.annlib.patching import PatchTree
from annet.vendors import registry_connector
from annet import deploy
from annet.annlib.rulebook import common
reg=registry_connector.get()
random.seed(9)
SPECIAL={"huawei":["xpl route-filter F","xpl ip-prefix-list P","if x then","elseif y then","else","rsa peer-public-key k","public-key-code begin"],
         "cisco":["address-family ipv4"],"iosxr":["prefix-set P","if x then","route-policy R","as-path-set A"]}
def rows(v,n):
    base=[f"{a} {b}" for a in "abcd" for b in "123"]+SPECIAL.get(v,[])
    return random.sample(base, min(n,len(base)))
def tree(v,d):
    t=PatchTree()
    for r in rows(v, random.randint(0,3) if d<3 else random.randint(1,3)):
        if d>0 and random.random()<0.5: t.add_block(r, tree(v,d-1))
        elif random.random()<0.15: t.add_block(r)   # empty block
        else: t.add(r,{})
    return t
HW={"huawei":"Huawei CE6870","h3c":"H3C S5","cisco":"Cisco Catalyst WS-C2960","nexus":"Cisco Nexus 3132","arista":"Arista 7050","aruba":"Aruba AP","b4com":"B4com CS4100","iosxr":"Cisco ASR 9001","optixtrans":"Huawei OptiXtrans DC908","pc":"PC x"}
from annet.annlib.netdev.views.hardware import HardwareView
for v,model in HW.items():
    bad=0; n=0
    for i in range(1500):
        pt=tree(v,3)
        f=reg[v].make_formatter(indent="  ")
        txt=[l for l in f.patch(pt).split("\n") if l]
        lines=[((len(l)-len(l.lstrip(" ")))//2, l.strip()) for l in txt]
        cp=[(len(p)-1,p[-1]) for p in f.cmd_paths(pt)]
        n+=1
        if lines!=cp:
            bad+=1
            if bad<2: print(v,"TEXT!=PATHS",lines,cp)
    # deploy stream for one tree
    hw=HardwareView(model,"")
    try:
        pt=tree(v,3); f=reg[v].make_formatter(indent="")
        for dc,df in itertools.product((True,False),repeat=2):
            cl=deploy.apply_deploy_rulebook(hw, f.cmd_paths(pt), do_finalize=df, do_commit=dc)
            b,a=common.apply(hw,dc,df)
            body=[(c.level,c.cmd) for c in cl][len(b.cmss):len(cl)-len(a.cmss)] if len(f.cmd_paths(pt)) else []
            exp=[(len(p)-1,p[-1]) for p in f.cmd_paths(pt)]
            if body!=exp and exp: print(v,"STREAM!=PATHS",dc,df,body[:5],exp[:5])
    except Exception as e: print(v,"EXC",type(e).__name__,e)
    print(v,n,"bad",bad)
