import random, json, sys
from collections import OrderedDict as od
from annet.annlib.rbparser.acl import compile_acl_text
from annet.annlib.patching import apply_acl
random.seed(int(sys.argv[1]))
W=["a","b","c","ab","undo"]
def rnd_row(): return " ".join(random.choice(W[:4]) for _ in range(random.randint(1,3)))
def rnd_tree(d):
    t=od()
    if d==0: return t
    for _ in range(random.randint(0,3)):
        r=rnd_row()
        if random.random()<0.15: r="undo "+r
        t[r]=rnd_tree(d-1)
    return t
def rnd_pat():
    n=random.randint(1,3); toks=[random.choice(W[:4]+["*"]) for _ in range(n)]
    if random.random()<0.3: toks.append("~")
    if random.random()<0.15: toks=["undo"]+toks
    return " ".join(toks)
def rnd_acl(d, ind=0, seen=None):
    out=[]; seen=set()
    for _ in range(random.randint(1,3)):
        p=rnd_pat()
        if p in seen: continue
        seen.add(p)
        line=" "*ind+p
        if random.random()<0.25: line+=" %global"
        if random.random()<0.25: line+=" %cant_delete="+str(random.randint(0,1))
        if random.random()<0.15: line+=" %prio="+str(random.randint(0,2))
        out.append(line)
        if d>1 and "%global" not in line and random.random()<0.6: out+=rnd_acl(d-1, ind+2)
    return out
cnt=[0]
def conv(rules):
    out=[]
    for glob,key in ((False,"local"),(True,"global")):
        for raw,r in rules[key].items():
            cnt[0]+=1
            toks=[]
            for w in raw.split():
                if w.startswith("%"): break
                toks.append({"t":"star"} if w=="*" else {"t":"tilde"} if w=="~" else {"t":"lit","w":w})
            out.append({"id":id(r), "pat":toks, "glob":glob, "prio":r["attrs"]["prio"], "cant":r["attrs"]["cant_delete"],
                        "kids": conv(r["children"]) if r["children"] else []})
    return out
def tj(t): return [{"row":k.split(),"kids":tj(v)} for k,v in t.items()]
json.dump({"chars":{w:list(w) for w in W}, "prefix":"undo"}, open("/tmp/acl/tab.json","w"))
N=int(sys.argv[2])
with open("/tmp/acl/recs.ndjson","w") as fo:
    for i in range(N):
        A="\n".join(rnd_acl(3)); t=rnd_tree(3)
        ra=compile_acl_text(A,"huawei")
        out=apply_acl(t,ra)
        fo.write(json.dumps({"id":i,"text":A,"acl":conv(ra),"tree":tj(t),"out":tj(out)})+"\n")
print("ok")
