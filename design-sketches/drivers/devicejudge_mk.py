import sys, json, random, types
sys.argv=["x","huawei"]
exec(open('/verif/design-sketches/drivers/converge_probe.py').read().split("bad=0; N=5000")[0])
def toks(raw):
    out=[]
    for w in raw.split():
        if w.startswith("%"): break
        out.append({"t":"star"} if w=="*" else {"t":"tilde"} if w=="~" else {"t":"lit","w":w})
    return out
def conv_rules(rules):
    out=[]
    for glob,key in ((False,"local"),(True,"global")):
        for raw,r in rules[key].items():
            out.append({"pat":toks(raw),"kids":conv_rules(r["children"]) if r["children"] else [], "glob":glob,
                        "rewrite": r["attrs"]["logic"].__name__=="rewrite"})
    return out
json.dump({"prefix":vendor.reverse,"exit":vendor.exit,"rules":conv_rules(rb["patching"])}, open("/tmp/c2s/rb.json","w"))
def tj(t): return [{"row":k.split(),"kids":tj(v)} for k,v in t.items()]
N=int(open('/tmp/c2s/N').read())
with open("/tmp/c2s/recs.ndjson","w") as fo:
    for i in range(N):
        old=rnd_cfg(); new=rnd_cfg()
        d,p = api._diff_and_patch(dev_obj, old, new, None, None, False, rb=rb)
        cmds=[[c.split() for c in path] for path in f.cmd_paths(p)]
        fo.write(json.dumps({"id":i,"old":tj(old),"new":tj(new),"cmds":cmds})+"\n")
print("wrote",N)
