import sys, itertools
sys.path.insert(0,'/repo')
from tests.annet.test_mesh.fakes import FakeStorage, FakeDevice, FakeInterface
from annet.mesh import MeshExecutor, MeshRulesRegistry, DirectPeer, MeshSession, IndirectPeer, separate_ports
def topo(nlinks=1):
    a=FakeDevice("a1.ex", [FakeInterface(f"if{i}","b1.ex",f"eth{i}") for i in range(nlinks)]+[FakeInterface("lo0",None,None)])
    b=FakeDevice("b1.ex", [FakeInterface(f"eth{i}","a1.ex",f"if{i}") for i in range(nlinks)]+[FakeInterface("lo0",None,None)])
    st=FakeStorage(); st.add_device(a); st.add_device(b); a.storage=st; b.storage=st
    def sc(d1,d2):
        return [(i, d2.find_interface(i.neighbor_port)) for i in d1.interfaces if i.neighbor_fqdn==d2.fqdn]
    st.search_connections=sc
    return st,a,b
def h1(left: DirectPeer, right: DirectPeer, s: MeshSession):
    left.addr="10.0.0.1/31"; right.addr="10.0.0.0/31"; left.asnum=65001; right.asnum=65002
    s.families={"ipv4_unicast"}; s.bfd=True
def h2(left, right, s):
    left.addr="10.0.0.1/31"; right.addr="10.0.0.0/31"; s.families={"ipv6_unicast"}; left.mtu=9000
def h3(left, right, s):
    left.addr="10.0.0.1/31"; right.addr="10.0.0.0/31"; left.mtu=1500
def build(hs):
    r=MeshRulesRegistry()
    for h in hs: r.direct("a{n}.ex","b{n}.ex")(h)
    return r
def proj(cfg):
    return sorted((p.addr, str(p.remote_as), p.interface, tuple(sorted(p.families)), str(p.options.local_as), p.options.mtu, p.options.bfd) for p in cfg.peers)
for hs in ([h1],[h1,h2],[h1,h2,h3]):
    for perm in itertools.permutations(hs):
        st,a,b=topo(1)
        try:
            ex=MeshExecutor(build(perm),st)
            pa=proj(ex.execute_for(a)); pb=proj(ex.execute_for(b))
            print([h.__name__ for h in perm], "A:",pa,"B:",pb, [ (i.name,i.addrs) for i in a.interfaces], [ (i.name,i.addrs) for i in b.interfaces])
        except Exception as e:
            print([h.__name__ for h in perm], "EXC", type(e).__name__, str(e)[:100])
