import random, types
from collections import OrderedDict as od
from annet import implicit
from annet.annlib.lib import merge_dicts
from annet.annlib.netdev.views.hardware import HardwareView
from annet.hardware import hardware_connector, AnnetHardwareProvider
hardware_connector.set(AnnetHardwareProvider)
random.seed(2)
def plain(t): return {k:plain(v) for k,v in t.items()}
def sub(a,b): return all(k in b and sub(v,b[k]) for k,v in a.items())
for model in ["Huawei CE6870","Huawei NE40E","Huawei S5700","Arista DCS-7368","Cisco Nexus 3432","Cisco Nexus 3132","Cisco Nexus 9316","Cisco Catalyst WS-C2960","Cisco Catalyst WS-C6509"]:
    dev=types.SimpleNamespace(hw=HardwareView(model,""), tags=["spine1"])
    rules=implicit.compile_rules(dev)
    tree=implicit._implicit_tree(dev)
    rows=[]
    def collect(t, acc):
        for k,a in t.items():
            acc.append((a["row"], a["type"], a["children"]))
    top=[(a["row"],a["type"],a["children"]) for a in tree.values()]
    def inst(row):
        import re
        row=re.sub(r"\*/[^/]+/", "Loopback0", row)
        return row.replace("*","x1").replace("~","p q").replace("X?","X").replace("[0-9]","0")
    bad=0
    for i in range(2000):
        t=od()
        for row,typ,ch in top:
            r=random.random()
            if r<0.3: 
                k=inst(row); t[k]=od()
                for a in ch.values():
                    if random.random()<0.5: t[k][inst(a["row"])]=od()
                    elif random.random()<0.3: t[k][inst(a["row"]).split()[0]+" other"]=od()
            elif r<0.45 and typ!="ignore":
                t[row.split()[0]+" zzz"]=od()
        imp=implicit.config(t,rules); m=merge_dicts(t,imp) if t or imp else od()
        ok = sub(t,m) and plain(merge_dicts(m, implicit.config(m,rules)))==plain(m)
        if not ok:
            bad+=1
            if bad<3: print(model,"FAIL",plain(t),plain(m),plain(implicit.config(m,rules)))
    print(model, len(top), "bad", bad)
