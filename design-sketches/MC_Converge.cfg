INIT Init
NEXT Next
INVARIANT Converges
CHECK_DEADLOCK FALSE
