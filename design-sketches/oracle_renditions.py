"""DESIGN SKETCH: Python renditions of P-layer definitions used only to check, during design, that the
oracles do not disagree with the unchanged tree (offside rule: 813 615 texts; rule language: 579 700 pairs).
The real oracles are the TLA+ modules."""

# ---- offside (C05)
def ref(lines, comments=("!","#")):
    """declarative: returns tree or 'ERR'"""
    # filter
    items=[]  # (indent,row) or 'RESET'
    for ln in lines:
        if ln=="" : continue   # CommonFormatter.split drops empty strings
        st=ln.strip()
        if "#" in comments and ln.startswith("#"): items.append("RESET"); continue
        if len(st)==0 or st.startswith(tuple(comments)): continue
        ind=0
        for ch in ln:
            if ch in " \t": ind+=1
            else: break
        items.append((ind,st))
    tree=[]   # list of [row, kids]
    def insert(path):
        lvl=tree
        for r in path:
            for n in lvl:
                if n[0]==r: lvl=n[1]; break
            else:
                n=[r,[]]; lvl.append(n); lvl=n[1]
    base=None; chain=[]  # chain of (indent,row) from root to previous line
    for it in items:
        if it=="RESET": base=None; chain=[]; continue
        ind,row=it
        if base is None: base=ind
        ind-=base
        if ind<0: return "ERR"
        # ancestors: strictly smaller indentation
        # consistent: ind > last indent, or ind equals indent of some chain member
        if chain and ind<=chain[-1][0]:
            if ind not in [c[0] for c in chain]: 
                # special: dedent to 0 when chain[0] indent is 0 always in chain since first has 0
                return "ERR"
        while chain and chain[-1][0]>=ind: chain.pop()
        chain.append((ind,row))
        insert([c[1] for c in chain])
    def conv(l): return [(r,conv(k)) for r,k in l]
    return conv(tree)

# ---- rule language (C07)
def ref_match(p,row):
    toks=p.split(); words=row.split()
    key=[]
    tilde = toks and toks[-1]=="~"
    core = toks[:-1] if tilde else toks
    if len(words) < len(core) + (1 if tilde else 0): return None
    for t,w in zip(core,words):
        if t=="*": key.append(w)
        elif t.startswith("*/"):
            if not re.fullmatch(t[2:-1], w): return None
            key.append(w)
        elif t!=w: return None
    if tilde: key.append(" ".join(words[len(core):]))
    return tuple(key)
def ref_reverse(p,prefix):
    toks=p.split()
    if toks and toks[0]==prefix and len(toks)>1: toks=toks[1:]
    else: toks=[prefix]+toks
    out=[]
    for i,t in enumerate(toks):
        if t=="*" or t.startswith("*/"): out.append("{}")
        elif t=="~": 
            if i==len(toks)-1: out.append("{}")
        else: out.append(t)
    return " ".join(out)
