\* DESIGN SKETCH (not framework code): prototype validated with TLC during the design phase, see DESIGN.md section 10/11.
\* Pool: one action per primitive of annet/parallel.py; Drain=FALSE is the current loop (TLC finds the result loss), Drain=TRUE the repaired one.
---- MODULE Pool ----
EXTENDS Naturals, Sequences, FiniteSets, TLC
CONSTANTS N, W, MaxTasks, Drain   \* Drain = TRUE models the repaired loop
Ids == 1..N
Workers == 1..W
STOP == 0
VARIABLES taskQ, doneQ, ws, cnt, cur, pool, delivered, ppc, got, retired, toCheck
vars == <<taskQ, doneQ, ws, cnt, cur, pool, delivered, ppc, got, retired, toCheck>>
Init == /\ taskQ = [i \in 1..(N+W) |-> IF i <= N THEN i ELSE STOP]
        /\ doneQ = <<>>
        /\ ws = [w \in Workers |-> "idle"]     \* idle | busy | put | exit0 | exit9 | gone
        /\ cnt = [w \in Workers |-> 0]
        /\ cur = [w \in Workers |-> 0]
        /\ pool = Workers
        /\ delivered = <<>>
        /\ ppc = "get" /\ got = 0 /\ retired = {} /\ toCheck = {}
\* ---- worker
WGet(w) == /\ ws[w] = "idle" /\ taskQ # <<>>
           /\ LET t == Head(taskQ) IN
              /\ taskQ' = Tail(taskQ)
              /\ IF t = STOP THEN ws' = [ws EXCEPT ![w] = "exit0"] /\ cur' = cur
                 ELSE ws' = [ws EXCEPT ![w] = "busy"] /\ cur' = [cur EXCEPT ![w] = t]
           /\ UNCHANGED <<doneQ, cnt, pool, delivered, ppc, got, retired, toCheck>>
WPut(w) == /\ ws[w] = "busy"
           /\ doneQ' = Append(doneQ, cur[w])
           /\ cnt' = [cnt EXCEPT ![w] = @ + 1]
           /\ ws' = [ws EXCEPT ![w] = IF cnt[w] + 1 >= MaxTasks THEN "exit9" ELSE "idle"]
           /\ UNCHANGED <<taskQ, cur, pool, delivered, ppc, got, retired, toCheck>>
\* ---- parent
PGet == /\ ppc = "get"
        /\ \/ /\ doneQ # <<>> /\ got' = Head(doneQ) /\ doneQ' = Tail(doneQ)
           \/ /\ got' = 0 /\ doneQ' = doneQ      \* timeout (1 s poll) may fire any time the parent does not see an item
              /\ doneQ = <<>>
        /\ ppc' = "check" /\ toCheck' = pool /\ retired' = {}
        /\ UNCHANGED <<taskQ, ws, cnt, cur, pool, delivered>>
PCheck == /\ ppc = "check"
          /\ IF toCheck = {} THEN ppc' = "yield" /\ UNCHANGED <<toCheck, pool, retired, ws>>
             ELSE \E w \in toCheck :
                    /\ toCheck' = toCheck \ {w}
                    /\ ppc' = ppc
                    /\ CASE ws[w] = "exit9" -> retired' = retired \cup {w} /\ pool' = pool /\ ws' = ws
                         [] ws[w] = "exit0" -> pool' = pool \ {w} /\ retired' = retired /\ ws' = [ws EXCEPT ![w] = "gone"]
                         [] OTHER -> UNCHANGED <<pool, retired, ws>>
          /\ UNCHANGED <<taskQ, doneQ, cnt, cur, delivered, got>>
PYield == /\ ppc = "yield"
          /\ delivered' = IF got # 0 THEN Append(delivered, got) ELSE delivered
          /\ ppc' = "decide"
          /\ UNCHANGED <<taskQ, doneQ, ws, cnt, cur, pool, got, retired, toCheck>>
PDecide == /\ ppc = "decide"
           /\ IF pool = {} /\ (~Drain \/ doneQ = <<>>)
              THEN ppc' = "done" /\ UNCHANGED <<ws, cnt>>
              ELSE /\ ppc' = "get"
                   /\ ws' = [w \in Workers |-> IF w \in retired THEN "idle" ELSE ws[w]]
                   /\ cnt' = [w \in Workers |-> IF w \in retired THEN 0 ELSE cnt[w]]
           /\ UNCHANGED <<taskQ, doneQ, cur, pool, delivered, got, retired, toCheck>>
Next == \/ \E w \in Workers : WGet(w) \/ WPut(w)
        \/ PGet \/ PCheck \/ PYield \/ PDecide
Spec == Init /\ [][Next]_vars /\ WF_vars(PGet \/ PCheck \/ PYield \/ PDecide) /\ \A w \in Workers : WF_vars(WGet(w) \/ WPut(w))
ToSet(s) == {s[i] : i \in DOMAIN s}
NoDup == Cardinality(ToSet(delivered)) = Len(delivered)
AllDelivered == ppc = "done" => ToSet(delivered) = Ids
Terminates == <>(ppc = "done")
====
