\* DESIGN SKETCH (not framework code): prototype validated with TLC during the design phase, see DESIGN.md section 10/11.
\* A-layer ACL matching with the character-level specificity metric: 0 drift on 8000 random (ACL, tree).
---- MODULE AclAlgo ----
EXTENDS Naturals, Integers, Sequences, FiniteSets, TLC, Json, IOUtils, SequencesExt
Recs == ndJsonDeserialize("recs.ndjson")     \* [id, acl (rules), tree, out]
TAB == JsonDeserialize("tab.json")           \* [chars: word -> Seq(char), prefix]
Chars(w) == ToSet(TAB.chars[w])
WLen(w) == Len(TAB.chars[w])
RECURSIVE Flat(_)
Flat(ss) == IF ss = <<>> THEN <<>> ELSE Head(ss) \o Flat(Tail(ss))
RECURSIVE SumLen(_)
SumLen(row) == IF row = <<>> THEN 0 ELSE WLen(Head(row)) + SumLen(Tail(row))
RowChars(row) == UNION {Chars(row[i]) : i \in 1..Len(row)} \cup (IF Len(row) > 1 THEN {" "} ELSE {})
RowLen(row) == SumLen(row) + Len(row) - 1

IsTilde(p) == Len(p) > 0 /\ p[Len(p)].t = "tilde"
Core(p) == IF IsTilde(p) THEN SubSeq(p, 1, Len(p) - 1) ELSE p
Match(p, row) == LET c == Core(p) IN
  /\ Len(row) >= Len(c) + (IF IsTilde(p) THEN 1 ELSE 0)
  /\ \A i \in 1..Len(c) : c[i].t = "lit" => c[i].w = row[i]
\* character set of the regex source compile_row_regexp produces for a pattern
StarSrc == {"(", "[", "^", "\\", "s", "]", "+", ")"}
SepSrc == {"\\", "s", "+"}
EndSrc == {"(", "?", ":", "\\", "s", "|", "$", ")"}
TildeSrc == {"(", ".", "+", ")"}
PatChars(p) == {"^"} \cup UNION {IF p[i].t = "lit" THEN Chars(p[i].w) ELSE IF p[i].t = "star" THEN StarSrc ELSE TildeSrc : i \in 1..Len(p)}
                \cup (IF Len(p) > 1 THEN SepSrc ELSE {}) \cup (IF IsTilde(p) THEN {} ELSE EndSrc)
\* reverse pattern of an ACL rule (acl._make_reverse)
RevPat(p) == IF Len(p) > 1 /\ p[1].t = "lit" /\ p[1].w = TAB.prefix THEN Tail(p) ELSE <<[t |-> "lit", w |-> TAB.prefix]>> \o p

\* _find_acl_matches: candidates in code order, then stable sort by (prio, metric) descending
Cands(row, loc, glo) ==
  LET one(rules, isg, rev) == Flat([i \in 1..Len(rules) |->
          LET pt == IF rev THEN RevPat(rules[i].pat) ELSE rules[i].pat IN
          IF Match(pt, row) THEN <<[rule |-> rules[i], crok |-> (~isg /\ ~rev), rev |-> rev,
                                    prio |-> rules[i].prio, num |-> Cardinality(RowChars(row) \cap PatChars(pt))]>> ELSE <<>>])
  IN one(loc, FALSE, FALSE) \o one(glo, TRUE, FALSE) \o one(loc, FALSE, TRUE) \o one(glo, TRUE, TRUE)
\* same row => same denominator, so the metric compares by numerator
Better(a, b) == a.prio > b.prio \/ (a.prio = b.prio /\ a.num > b.num)
RECURSIVE InsSort(_, _)
Ins(x, s) == LET k == CHOOSE k \in 0..Len(s) : (\A j \in 1..k : ~Better(x, s[j])) /\ (k = Len(s) \/ Better(x, s[k + 1]))
             IN SubSeq(s, 1, k) \o <<x>> \o SubSeq(s, k + 1, Len(s))
InsSort(s, acc) == IF s = <<>> THEN acc ELSE InsSort(Tail(s), Ins(Head(s), acc))
Sorted(s) == InsSort(s, <<>>)
\* merge_dicts on rule lists: union by raw text (id), first-seen order; children merged recursively
RECURSIVE MergeRules(_, _)
MergeRules(a, b) ==
  IF b = <<>> THEN a
  ELSE LET r == Head(b) S == {i \in 1..Len(a) : a[i].id = r.id} IN
       IF S = {} THEN MergeRules(Append(a, r), Tail(b))
       ELSE MergeRules(a, Tail(b))     \* same compiled rule object: identical, nothing to add
Locals(rs) == SelectSeq(rs, LAMBDA r : ~r.glob)
Globs(rs) == SelectSeq(rs, LAMBDA r : r.glob)
RECURSIVE MergeAll(_, _)
MergeAll(ms, acc) == IF ms = <<>> THEN acc ELSE MergeAll(Tail(ms), IF Head(ms).crok THEN MergeRules(acc, Head(ms).rule.kids) ELSE acc)
RECURSIVE ApplyAcl(_, _, _)
ApplyAcl(tree, loc, glo) ==
  Flat([i \in 1..Len(tree) |->
     LET row == tree[i].row
         ms == Sorted(Cands(row, loc, glo))
     IN IF ms = <<>> THEN <<>>
        ELSE LET f == ms[1]
                 kidsAll == IF f.crok THEN MergeAll(ms, <<>>) ELSE <<>>
                 cloc == Locals(kidsAll)
                 cglo == MergeRules(Globs(kidsAll), glo)
             IN IF f.rev /\ (\A j \in 1..Len(f.rule.cant) : f.rule.cant[j]) THEN <<>>
                ELSE <<[row |-> row, kids |-> ApplyAcl(tree[i].kids, cloc, cglo)]>>])
VARIABLE i
Init == i = 1
Next == i <= Len(Recs) /\ i' = i + 1
Ok == i <= Len(Recs) =>
        LET r == Recs[i] o == ApplyAcl(r.tree, Locals(r.acl), Globs(r.acl)) IN
          IF o = r.out THEN TRUE ELSE PrintT(<<"DRIFT", r.id, ToJson(o), ToJson(r.out)>>) /\ TRUE
====
