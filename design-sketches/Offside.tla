\* DESIGN SKETCH (not framework code): prototype validated with TLC during the design phase, see DESIGN.md section 10/11.
\* Offside: declarative rule (P) vs indent-stack machine (A); AEqualsP holds on all 271 453 texts <= 5 lines.
---- MODULE Offside ----
EXTENDS Naturals, Integers, Sequences, FiniteSets, TLC, SequencesExt
\* A line is [k |-> "row", ind |-> Nat, w |-> word] | [k |-> "skip"] (blank/comment) | [k |-> "reset"] ('#' in column 0)
\* Result: a tree  Seq([row, kids])  or the string "ERR".
CONSTANTS MaxLines, Indents, Words

\* ---------- tree insertion (identical rows at the same place merge) ----------
RECURSIVE Insert(_, _)
Insert(tree, path) ==
  IF path = <<>> THEN tree
  ELSE LET r == Head(path)
           S == {i \in 1..Len(tree) : tree[i].row = r}
       IN IF S = {} THEN Append(tree, [row |-> r, kids |-> Insert(<<>>, Tail(path))])
          ELSE LET i == CHOOSE i \in S : TRUE IN [tree EXCEPT ![i].kids = Insert(@, Tail(path))]

\* ---------- P: declarative offside rule ----------
\* chain = sequence of [ind, w] from the root to the previous content line (relative indents)
RECURSIVE PParse(_, _, _, _)
PParse(lines, base, chain, tree) ==
  IF lines = <<>> THEN tree
  ELSE LET ln == Head(lines) rest == Tail(lines) IN
    CASE ln.k = "skip"  -> PParse(rest, base, chain, tree)
      [] ln.k = "reset" -> PParse(rest, -1, <<>>, tree)
      [] OTHER ->
         LET b   == IF base = -1 THEN ln.ind ELSE base
             ind == ln.ind - b
         IN IF ind < 0 THEN "ERR"
            ELSE LET \* enclosing lines: strictly smaller indentation, nearest first kept as a prefix of chain
                     keep == SelectSeq(chain, LAMBDA c : c.ind < ind)
                     \* keep must be a prefix of chain (it is, indents in chain strictly increase)
                     consistent == \/ chain = <<>>
                                   \/ ind > chain[Len(chain)].ind
                                   \/ \E j \in 1..Len(chain) : chain[j].ind = ind
                 IN IF ~consistent THEN "ERR"
                    ELSE LET nchain == Append(keep, [ind |-> ind, w |-> ln.w])
                         IN PParse(rest, b, nchain, Insert(tree, [j \in 1..Len(nchain) |-> nchain[j].w]))
P(lines) == PParse(lines, -1, <<>>, <<>>)

\* ---------- A: the code's machine (_stripped_indents + _stacked), one step per line ----------
\* state: indents (stack of increments), curr (current level), g (base or -1), stack (path), tree, err
RECURSIVE PopTo(_, _, _)
PopTo(indents, curr, level) ==   \* while curr > level and len(indents): curr -= indents.pop()
  IF curr > level /\ indents # <<>>
  THEN PopTo(SubSeq(indents, 1, Len(indents) - 1), curr - indents[Len(indents)], level)
  ELSE <<indents, curr>>
AStep(s, ln) ==
  IF s.err THEN s
  ELSE CASE ln.k = "skip"  -> s
         [] ln.k = "reset" -> [s EXCEPT !.indents = <<>>, !.curr = 0, !.g = -1]
         [] OTHER ->
            LET g == IF s.g = -1 THEN ln.ind ELSE s.g
                level == ln.ind - g
            IN IF level < 0 THEN [s EXCEPT !.err = TRUE]
               ELSE LET r == IF level > s.curr THEN <<Append(s.indents, level - s.curr), level>>
                             ELSE IF level < s.curr THEN PopTo(s.indents, s.curr, level)
                             ELSE <<s.indents, s.curr>>
                    IN IF r[2] # level THEN [s EXCEPT !.err = TRUE]
                       ELSE LET lvl == Len(r[1]) + 1     \* _stacked: level += 1
                                stk == IF lvl > Len(s.stack) THEN Append(s.stack, ln.w)
                                       ELSE IF lvl = Len(s.stack) THEN [s.stack EXCEPT ![lvl] = ln.w]
                                       ELSE Append(SubSeq(s.stack, 1, lvl - 1), ln.w)
                            IN [s EXCEPT !.indents = r[1], !.curr = level, !.g = g, !.stack = stk,
                                         !.tree = Insert(s.tree, stk)]
A0 == [indents |-> <<>>, curr |-> 0, g |-> -1, stack |-> <<>>, tree |-> <<>>, err |-> FALSE]

\* ---------- model: texts grow one line per action ----------
VARIABLES text, st
LineSet == [k : {"row"}, ind : Indents, w : Words] \cup {[k |-> "skip"], [k |-> "reset"]}
Init == text = <<>> /\ st = A0
Next == /\ Len(text) < MaxLines
        /\ \E ln \in LineSet : text' = Append(text, ln) /\ st' = AStep(st, ln)
AEqualsP == (IF st.err THEN "ERR" ELSE st.tree) = P(text)
====
