CONSTANTS N = 4
W = 3
MaxTasks = 99
Drain = TRUE
SPECIFICATION Spec
INVARIANT NoDup
INVARIANT AllDelivered
PROPERTY Terminates
CHECK_DEADLOCK FALSE
