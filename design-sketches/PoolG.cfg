CONSTANTS N = 4
W = 2
MaxTasks = 2
Drain = FALSE
SPECIFICATION Spec
ACTION_CONSTRAINT Emit
CHECK_DEADLOCK FALSE
