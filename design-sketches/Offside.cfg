CONSTANTS MaxLines = 5
Indents = {0,1,2,3,4}
Words = {"a","b"}
INIT Init
NEXT Next
INVARIANT AEqualsP
CHECK_DEADLOCK FALSE
