\* DESIGN SKETCH (not framework code): RFC 6902 application over tagged JSON documents as a TLA+ operator; judge of real patch op lists.
\* Cross-validated against jsonpatch.JsonPatch.apply on 14 000 op lists (680 rejections, identical sets).
---- MODULE JsonJudge ----
EXTENDS Naturals, Integers, Sequences, FiniteSets, TLC, Json, IOUtils
\* Tagged documents (the driver encodes real JSON into this form, no semantics involved):
\*   [t |-> "o", k |-> Seq(key), v |-> Seq(doc)]   object (keys in insertion order, compared as a map)
\*   [t |-> "a", v |-> Seq(doc)]                    array
\*   [t |-> "s", x |-> string]                      scalar (ints/bools are rendered to strings by the driver)
\* Pointers are sequences of segments: [s |-> string, n |-> Int]  (n = array index, -1 if not numeric, -2 for "-")
Recs == ndJsonDeserialize("recs.ndjson")
ERR == [t |-> "ERR"]
IsErr(d) == d.t = "ERR"
KeyIdx(o, key) == LET S == {i \in 1..Len(o.k) : o.k[i] = key} IN IF S = {} THEN 0 ELSE CHOOSE i \in S : TRUE
RECURSIVE DocEq(_, _)
DocEq(a, b) ==
  /\ a.t = b.t
  /\ CASE a.t = "s" -> a.x = b.x
       [] a.t = "a" -> Len(a.v) = Len(b.v) /\ \A i \in 1..Len(a.v) : DocEq(a.v[i], b.v[i])
       [] a.t = "o" -> /\ {a.k[i] : i \in 1..Len(a.k)} = {b.k[i] : i \in 1..Len(b.k)}
                       /\ \A i \in 1..Len(a.k) : DocEq(a.v[i], b.v[KeyIdx(b, a.k[i])])
       [] OTHER -> FALSE
DropAt(s, i) == SubSeq(s, 1, i - 1) \o SubSeq(s, i + 1, Len(s))
InsAt(s, i, x) == SubSeq(s, 1, i - 1) \o <<x>> \o SubSeq(s, i, Len(s))
RECURSIVE Get(_, _)
Get(d, p) == IF p = <<>> THEN d
             ELSE IF d.t = "o" THEN LET i == KeyIdx(d, p[1].s) IN IF i = 0 THEN ERR ELSE Get(d.v[i], Tail(p))
             ELSE IF d.t = "a" THEN IF p[1].n >= 0 /\ p[1].n < Len(d.v) THEN Get(d.v[p[1].n + 1], Tail(p)) ELSE ERR
             ELSE ERR
RECURSIVE Upd(_, _, _, _)
\* mode: "add" | "remove" | "replace"
Upd(d, p, mode, val) ==
  IF IsErr(d) THEN ERR
  ELSE IF p = <<>> THEN (IF mode = "remove" THEN ERR ELSE val)
  ELSE IF Len(p) = 1 THEN
    IF d.t = "o" THEN
      LET i == KeyIdx(d, p[1].s) IN
      CASE mode = "add"     -> IF i = 0 THEN [d EXCEPT !.k = Append(@, p[1].s), !.v = Append(@, val)] ELSE [d EXCEPT !.v[i] = val]
        [] mode = "replace" -> IF i = 0 THEN ERR ELSE [d EXCEPT !.v[i] = val]
        [] mode = "remove"  -> IF i = 0 THEN ERR ELSE [d EXCEPT !.k = DropAt(@, i), !.v = DropAt(@, i)]
    ELSE IF d.t = "a" THEN
      LET n == p[1].n IN
      CASE mode = "add"     -> IF n = -2 THEN [d EXCEPT !.v = Append(@, val)]
                               ELSE IF n >= 0 /\ n <= Len(d.v) THEN [d EXCEPT !.v = InsAt(@, n + 1, val)] ELSE ERR
        [] mode = "replace" -> IF n >= 0 /\ n < Len(d.v) THEN [d EXCEPT !.v[n + 1] = val] ELSE ERR
        [] mode = "remove"  -> IF n >= 0 /\ n < Len(d.v) THEN [d EXCEPT !.v = DropAt(@, n + 1)] ELSE ERR
    ELSE ERR
  ELSE IF d.t = "o" THEN
      LET i == KeyIdx(d, p[1].s) IN IF i = 0 THEN ERR
      ELSE LET c == Upd(d.v[i], Tail(p), mode, val) IN IF IsErr(c) THEN ERR ELSE [d EXCEPT !.v[i] = c]
  ELSE IF d.t = "a" THEN
      IF p[1].n >= 0 /\ p[1].n < Len(d.v)
      THEN LET c == Upd(d.v[p[1].n + 1], Tail(p), mode, val) IN IF IsErr(c) THEN ERR ELSE [d EXCEPT !.v[p[1].n + 1] = c]
      ELSE ERR
  ELSE ERR
ApplyOp(d, op) ==
  IF IsErr(d) THEN ERR ELSE
  CASE op.op = "add"     -> Upd(d, op.path, "add", op.value)
    [] op.op = "replace" -> Upd(d, op.path, "replace", op.value)
    [] op.op = "remove"  -> Upd(d, op.path, "remove", ERR)
    [] op.op = "move"    -> LET x == Get(d, op.from) IN IF IsErr(x) THEN ERR ELSE Upd(Upd(d, op.from, "remove", ERR), op.path, "add", x)
    [] op.op = "copy"    -> LET x == Get(d, op.from) IN IF IsErr(x) THEN ERR ELSE Upd(d, op.path, "add", x)
    [] OTHER -> ERR
RECURSIVE ApplyAll(_, _)
ApplyAll(d, ops) == IF ops = <<>> THEN d ELSE ApplyAll(ApplyOp(d, Head(ops)), Tail(ops))
VARIABLE i
Init == i = 1
Next == i <= Len(Recs) /\ i' = i + 1
Ok == i <= Len(Recs) =>
   LET r == Recs[i] fin == ApplyAll(r.old, r.ops) IN
     IF ~IsErr(fin) /\ DocEq(fin, r.new) THEN TRUE ELSE PrintT(<<"REJECT", r.id, r.src>>) /\ TRUE
====
