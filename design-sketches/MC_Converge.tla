\* DESIGN SKETCH (not framework code): MC_Converge = A-layer PatchAlgo + P-layer Device + TLC-side enumeration of Configs(R).
\* All 276 x 276 (old,new) pairs of one catalogue rulebook (default / undo_redo / ignore_changes / permanent, depth 3): invariant holds, 76 453 states, 52 s, 16 workers.
\* The choice of old and new is split over two steps on purpose: TLC enumerates initial states sequentially.
---- MODULE MC_Converge ----
EXTENDS Naturals, Integers, Sequences, FiniteSets, TLC, Json, IOUtils, SequencesExt
\* rulebook as a TLA+ constant (catalogue entry "nest+logics"), huawei profile
L(w) == [t |-> "lit", w |-> w]
ST == [t |-> "star"]
TT == [t |-> "tilde"]
Rule(pat, kids, logic, rk, slack, keys) == [keys |-> keys, pat |-> pat, kids |-> kids, glob |-> FALSE, rk |-> rk, logic |-> logic,
                                      parent |-> kids # <<>>, rewrite |-> FALSE, slack |-> slack]
RB == [prefix |-> "undo", exit |-> "quit", rules |-> <<
        Rule(<<L("a"), ST>>, <<>>, "default", 1, FALSE, <<"1">>),
        Rule(<<L("b")>>, <<>>, "undo_redo", 2, TRUE, <<"0">>),
        Rule(<<L("blk"), ST>>, <<
              Rule(<<L("x"), ST>>, <<>>, "default", 4, TRUE, <<"1">>),
              Rule(<<L("y")>>, <<>>, "ignore_changes", 5, TRUE, <<"0">>),
              Rule(<<L("sub"), ST>>, << Rule(<<L("z"), ST>>, <<>>, "default", 7, FALSE, <<"1","2">>) >>, "permanent", 6, FALSE, <<"1">>)
           >>, "default", 3, FALSE, <<"1">>) >>]
Keys == {"1", "2"}
Vals == {<<>>, <<"v1">>}
\* ---------------- RuleLang (P) ----------------
IsTilde(p) == Len(p) > 0 /\ p[Len(p)].t = "tilde"
Core(p) == IF IsTilde(p) THEN SubSeq(p, 1, Len(p) - 1) ELSE p
Match(p, row) == LET c == Core(p) IN
  /\ Len(row) >= Len(c) + (IF IsTilde(p) THEN 1 ELSE 0)
  /\ \A i \in 1..Len(c) : c[i].t = "lit" => c[i].w = row[i]
RECURSIVE Flat(_)
Flat(ss) == IF ss = <<>> THEN <<>> ELSE Head(ss) \o Flat(Tail(ss))
Key(p, row) == LET c == Core(p) IN
  Flat([i \in 1..Len(c) |-> IF c[i].t = "star" THEN <<<<row[i]>>>> ELSE <<>>])
    \o (IF IsTilde(p) THEN <<SubSeq(row, Len(c) + 1, Len(row))>> ELSE <<>>)
\* reverse command for (pattern,key): prefix + words with placeholders filled; own prefix stripped
RevCmd(p, key, prefix) ==
  LET c == Core(p)
      RECURSIVE Fill(_, _)
      Fill(i, k) == IF i > Len(c) THEN (IF IsTilde(p) THEN key[k] ELSE <<>>)
                    ELSE IF c[i].t = "lit" THEN <<c[i].w>> \o Fill(i + 1, k) ELSE key[k] \o Fill(i + 1, k + 1)
      body == Fill(1, 1)
  IN IF Len(p) > 1 /\ p[1].t = "lit" /\ p[1].w = prefix THEN Tail(body) ELSE <<prefix>> \o body
RECURSIVE FirstMatch(_, _)
FirstMatch(rules, row) == IF rules = <<>> THEN 0 ELSE IF Match(Head(rules).pat, row) THEN 1
                          ELSE LET r == FirstMatch(Tail(rules), row) IN IF r = 0 THEN 0 ELSE r + 1
Globals(rules) == SelectSeq(rules, LAMBDA r : r.glob)
Visible(loc, glo) == SelectSeq(loc, LAMBDA r : ~r.glob) \o Globals(loc) \o glo

\* ---------------- trees ----------------
Rows(t) == [i \in 1..Len(t) |-> t[i].row]
Has(t, row) == \E i \in 1..Len(t) : t[i].row = row
IdxOf(t, row) == CHOOSE i \in 1..Len(t) : t[i].row = row
KidsOf(t, row) == IF Has(t, row) THEN t[IdxOf(t, row)].kids ELSE <<>>

\* ---------------- Differ (A): apply_diff_rb + default_diff (base_diff, moved_to_affected) + mark_unchanged ----
OpRank(op) == CASE op = "added" -> 0 [] op = "affected" -> 1 [] op = "moved" -> 2 [] op = "removed" -> 3 [] OTHER -> 4
Known(t, vis) == SelectSeq(t, LAMBDA n : FirstMatch(vis, n.row) # 0)
RECURSIVE Diff(_, _, _, _, _)
\* returns Seq([op,row,kids,ri (index in vis),key])
Diff(old0, new0, loc, glo, parentOp) ==
  LET vis == Visible(loc, glo)
      old == Known(old0, vis)  new == Known(new0, vis)
      kglo == Globals(loc) \o glo
      Item(op, row, kids) == LET ri == FirstMatch(vis, row) IN
            [op |-> op, row |-> row, kids |-> kids, ri |-> ri, key |-> Key(vis[ri].pat, row), rule |-> vis[ri]]
      Rem == [i \in 1..Len(old) |->
               IF ~Has(new, old[i].row)
               THEN <<[idx |-> i - 1, it |-> Item("removed", old[i].row,
                           Diff(old[i].kids, <<>>, vis[FirstMatch(vis, old[i].row)].kids, kglo, "removed"))]>>
               ELSE <<>>]
      \* disorder flag is sticky: compute op for position i from prefix
      RECURSIVE Ops(_, _)
      Ops(i, dis) == IF i > Len(new) THEN <<>> ELSE
          LET row == new[i].row
              isnew == ~Has(old, row)
              moved == ~isnew /\ (dis \/ IdxOf(old, row) # i)
              op == IF isnew THEN "added" ELSE parentOp      \* moved_to_affected: moved -> parent op
          IN <<op>> \o Ops(i + 1, dis \/ isnew \/ moved)
      ops == Ops(1, FALSE)
      Add == [i \in 1..Len(new) |->
               <<[idx |-> i - 1, it |-> Item(ops[i], new[i].row,
                     Diff(KidsOf(old, new[i].row), new[i].kids, vis[FirstMatch(vis, new[i].row)].kids, kglo, ops[i]))]>>]
      all == Flat(Rem) \o Flat(Add)
      Less(a, b) == \/ a.idx < b.idx
                    \/ a.idx = b.idx /\ OpRank(a.it.op) < OpRank(b.it.op)
      sorted == SortSeq(all, Less)
  IN [i \in 1..Len(sorted) |-> sorted[i].it]
RECURSIVE Mark(_)
Mark(d) == [i \in 1..Len(d) |->
             IF d[i].op = "affected"
             THEN LET k == Mark(d[i].kids) IN
                  [d[i] EXCEPT !.kids = k, !.op = IF \A j \in 1..Len(k) : k[j].op = "unchanged" THEN "unchanged" ELSE "affected"]
             ELSE d[i]]
MakeDiff(old, new) == Mark(Diff(old, new, RB.rules, <<>>, "affected"))

\* ---------------- make_pre + logic + make_patch (A) ----------------
\* groups: first-seen order of (rule index, key)
RECURSIVE Groups(_, _)
Groups(d, acc) == IF d = <<>> THEN acc ELSE
   LET g == <<Head(d).ri, Head(d).key>> IN Groups(Tail(d), IF \E i \in 1..Len(acc) : acc[i] = g THEN acc ELSE Append(acc, g))
Bucket(d, g, op) == SelectSeq(d, LAMBDA x : <<x.ri, x.key>> = g /\ x.op = op)
RECURSIVE PatchItems(_)
\* default logic on buckets; returns Seq([direct,row,kids (Seq or "NONE"),rk])
Default(rule, key, aff, add, mov, rem) ==
   IF aff # <<>> THEN <<[direct |-> TRUE, row |-> aff[1].row, sub |-> aff[1].kids]>>
   ELSE IF add # <<>> THEN <<[direct |-> TRUE, row |-> add[1].row, sub |-> add[1].kids]>>
   ELSE IF mov # <<>> THEN <<[direct |-> TRUE, row |-> mov[1].row, sub |-> mov[1].kids]>>
   ELSE IF rem # <<>> THEN <<[direct |-> FALSE, row |-> RevCmd(rule.pat, key, RB.prefix), sub |-> <<>>]>>
   ELSE <<>>
Logic(rule, key, aff, add, mov, rem) ==
   CASE rule.logic = "undo_redo" /\ add # <<>> /\ rem # <<>> /\ aff = <<>> ->
            Default(rule, key, <<>>, <<>>, <<>>, rem) \o Default(rule, key, <<>>, add, <<>>, <<>>)
     [] rule.logic = "ignore_changes" /\ add # <<>> /\ rem # <<>> -> <<>>
     [] rule.logic = "permanent" /\ rem # <<>> ->
            IF rem[1].kids = <<>> THEN <<>> ELSE Default(rule, key, aff \o rem, add, mov, <<>>)
     [] OTHER -> Default(rule, key, aff, add, mov, rem)
PatchItems(d) ==
   LET gs == Groups(d, <<>>)
       raw == Flat([gi \in 1..Len(gs) |->
                LET g == gs[gi]
                    any == CHOOSE x \in {d[i] : i \in 1..Len(d)} : <<x.ri, x.key>> = g
                    rule == any.rule
                    ys == Logic(rule, g[2], Bucket(d, g, "affected"), Bucket(d, g, "added"), Bucket(d, g, "moved"), Bucket(d, g, "removed"))
                IN [j \in 1..Len(ys) |->
                      LET y == ys[j]
                          kids == IF y.sub = <<>> THEN <<>> ELSE PatchItems(y.sub)
                          leaf == (kids = <<>> /\ ~rule.parent) \/ ~y.direct
                      IN [direct |-> y.direct, row |-> y.row, block |-> ~leaf, kids |-> IF leaf THEN <<>> ELSE kids, rk |-> rule.rk]]])
       Less(a, b) == \/ a.rk < b.rk \/ (a.rk = b.rk /\ ~a.direct /\ b.direct)
   IN SortSeq(raw, Less)
RECURSIVE CmdPaths(_, _)
CmdPaths(items, pfx) == Flat([i \in 1..Len(items) |->
     <<Append(pfx, items[i].row)>> \o
     (IF items[i].block THEN CmdPaths(items[i].kids, Append(pfx, items[i].row)) \o <<pfx \o <<items[i].row, <<RB.exit>>>>>> ELSE <<>>)])
PatchCmds(old, new) == CmdPaths(PatchItems(MakeDiff(old, new)), <<>>)

\* slot of a row: <<index in visible, key>> or <<0>>
Slot(vis, row) == LET i == FirstMatch(vis, row) IN IF i = 0 THEN <<0>> ELSE <<i, Key(vis[i].pat, row)>>

IdxOf0(tree, row) == LET S == {i \in 1..Len(tree) : tree[i].row = row} IN IF S = {} THEN 0 ELSE CHOOSE i \in S : TRUE
DropIdx(s, I) == SelectSeq([i \in 1..Len(s) |-> IF i \in I THEN <<>> ELSE <<s[i]>>], LAMBDA x : x # <<>>)
Unwrap(s) == [i \in 1..Len(s) |-> s[i][1]]

RECURSIVE Exec(_, _, _, _)
\* tree, local rules of this level, inherited globals, path (seq of rows) -> tree
Exec(tree, loc, glo, path) ==
  LET vis == Visible(loc, glo)
      row == Head(path)
      mi  == FirstMatch(vis, row)
      kidrules == IF mi = 0 THEN <<>> ELSE vis[mi].kids
      kidglo   == Globals(loc) \o glo
  IN
  IF Len(path) > 1 THEN
     LET i == IdxOf0(tree, row) IN
     IF i # 0 THEN [tree EXCEPT ![i].kids = Exec(tree[i].kids, kidrules, kidglo, Tail(path))]
     ELSE Append(tree, [row |-> row, kids |-> Exec(<<>>, kidrules, kidglo, Tail(path))])
  ELSE IF row = <<RB.exit>> THEN tree
  ELSE
     LET revhits == {i \in 1..Len(tree) :
                       LET j == FirstMatch(vis, tree[i].row) IN
                       j # 0 /\ RevCmd(vis[j].pat, Key(vis[j].pat, tree[i].row), RB.prefix) = row}
     IN IF revhits # {} THEN Unwrap(DropIdx(tree, revhits))
        ELSE IF mi = 0 THEN tree
        ELSE LET same == {i \in 1..Len(tree) : Slot(vis, tree[i].row) = Slot(vis, row)} IN
             IF same = {} THEN Append(tree, [row |-> row, kids |-> <<>>])
             ELSE LET i == CHOOSE i \in same : TRUE IN
                  IF tree[i].row = row
                  THEN [tree EXCEPT ![i].kids = SelectSeq(@, LAMBDA n :
                            LET kv == Visible(kidrules, kidglo) k == FirstMatch(kv, n.row) IN k = 0 \/ ~kv[k].rewrite)]
                  ELSE [tree EXCEPT ![i] = [row |-> row, kids |-> tree[i].kids]]

RECURSIVE ExecAll(_, _)
ExecAll(tree, cmds) == IF cmds = <<>> THEN tree ELSE ExecAll(Exec(tree, RB.rules, <<>>, Head(cmds)), Tail(cmds))

RECURSIVE Canon(_)
Canon(tree) == { <<tree[i].row, Canon(tree[i].kids)>> : i \in 1..Len(tree) }


\* ---------------- enumeration of Configs(R) ----------------
\* rows instantiating a pattern for one key choice k (single star per pattern in this catalogue entry)
RowOf(rule, k) == [i \in 1..Len(rule.pat) |-> IF rule.pat[i].t = "lit" THEN rule.pat[i].w ELSE k]
HasStar(rule) == \E i \in 1..Len(rule.pat) : rule.pat[i].t = "star"
RECURSIVE Level(_)
Opt(rule, k) == {<<>>} \cup { <<[row |-> RowOf(rule, k) \o v, kids |-> kd]>> :
                              v \in (IF rule.slack THEN Vals ELSE {<<>>}), kd \in (IF rule.kids = <<>> THEN {<<>>} ELSE Level(rule.kids)) }
Cat(A, B) == {a \o b : a \in A, b \in B}
RECURSIVE OptsK(_, _)
OptsK(rule, ks) == IF ks = <<>> THEN {<<>>} ELSE Cat(Opt(rule, Head(ks)), OptsK(rule, Tail(ks)))
RuleOpts(rule) == OptsK(rule, rule.keys)
Level(rules) == IF rules = <<>> THEN {<<>>} ELSE Cat(RuleOpts(Head(rules)), Level(Tail(rules)))
Configs == Level(RB.rules)

\* contract-aware convergence: compare slot-wise
RECURSIVE Conv(_, _, _, _)
SlotOf(vis, row) == LET i == FirstMatch(vis, row) IN <<i, Key(vis[i].pat, row)>>
Conv(dev, new, old, loc) ==
  LET vis == Visible(loc, <<>>)
      slots == {SlotOf(vis, dev[i].row) : i \in 1..Len(dev)} \cup {SlotOf(vis, new[i].row) : i \in 1..Len(new)}
      pick(t, s) == LET I == {i \in 1..Len(t) : SlotOf(vis, t[i].row) = s} IN IF I = {} THEN <<>> ELSE <<t[CHOOSE i \in I : TRUE]>>
  IN \A s \in slots :
       LET d == pick(dev, s) n == pick(new, s) o == pick(old, s) rule == vis[s[1]] IN
       CASE rule.logic = "permanent" /\ n = <<>> -> d # <<>> => (o # <<>> /\ d[1].row = o[1].row /\ Conv(d[1].kids, <<>>, o[1].kids, rule.kids))
         [] rule.logic = "ignore_changes" /\ n # <<>> /\ o # <<>> /\ n[1].row # o[1].row -> d # <<>> /\ d[1].row = o[1].row
         [] OTHER -> \/ (d # <<>> /\ n # <<>> /\ d[1].row = n[1].row /\ Conv(d[1].kids, n[1].kids, IF o = <<>> THEN <<>> ELSE o[1].kids, rule.kids))
                     \/ (d = <<>> /\ n = <<>>)
VARIABLES old, new, ph
Init == old = <<>> /\ new = <<>> /\ ph = 0
Next == \/ ph = 0 /\ old' \in Configs /\ ph' = 1 /\ UNCHANGED new
        \/ ph = 1 /\ new' \in Configs /\ ph' = 2 /\ UNCHANGED old
Converges == ph = 2 => LET cmds == PatchCmds(old, new) dev == ExecAll(old, cmds) IN
                LET c2 == PatchCmds(dev, new) IN
                /\ Conv(dev, new, old, RB.rules)
                /\ Canon(ExecAll(dev, c2)) = Canon(dev)
                /\ Conv(dev, new, old, RB.rules) /\ (\A j \in 1..Len(c2) : LET p == c2[j] IN p[Len(p)] = <<RB.exit>> \/ \E k \in 1..Len(c2) : Len(c2[k]) = Len(p) + 1 /\ SubSeq(c2[k], 1, Len(p)) = p)
NConfigs == Cardinality(Configs)
====
