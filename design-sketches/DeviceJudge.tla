\* DESIGN SKETCH (not framework code): prototype validated with TLC during the design phase, see DESIGN.md section 10/11.
\* Device (P-layer) + RuleLang as a judge of real cmd_paths streams: 5000 records / 8 s.
---- MODULE DeviceJudge ----
EXTENDS Naturals, Sequences, FiniteSets, TLC, Json, IOUtils, SequencesExt
\* A row is a sequence of words. A tree is a sequence of [row, kids] records.
\* A rule is [pat |-> Seq(token), kids |-> Seq(rule), glob |-> BOOLEAN, rewrite |-> BOOLEAN]
\* token: [t |-> "lit", w |-> word] | [t |-> "star"] | [t |-> "tilde"]
Recs == ndJsonDeserialize("recs.ndjson")
RB == JsonDeserialize("rb.json")          \* [prefix, exit, rules]

IsTilde(p) == Len(p) > 0 /\ p[Len(p)].t = "tilde"
Core(p) == IF IsTilde(p) THEN SubSeq(p, 1, Len(p) - 1) ELSE p
Match(p, row) ==
  LET c == Core(p) IN
  /\ Len(row) >= Len(c) + (IF IsTilde(p) THEN 1 ELSE 0)
  /\ \A i \in 1..Len(c) : c[i].t = "lit" => c[i].w = row[i]
Key(p, row) ==
  LET c == Core(p)
      stars == SelectSeq([i \in 1..Len(c) |-> IF c[i].t = "star" THEN <<row[i]>> ELSE <<>>], LAMBDA x : x # <<>>)
  IN [i \in 1..Len(stars) |-> stars[i]] \o (IF IsTilde(p) THEN <<SubSeq(row, Len(c) + 1, Len(row))>> ELSE <<>>)
\* reverse instance as a row (sequence of words)
RECURSIVE Flat(_)
Flat(ss) == IF ss = <<>> THEN <<>> ELSE Head(ss) \o Flat(Tail(ss))
RevInst(p, row, prefix) ==
  LET c == Core(p)
      body == Flat([i \in 1..Len(c) |-> <<row[i]>>]) \o (IF IsTilde(p) THEN SubSeq(row, Len(c) + 1, Len(row)) ELSE <<>>)
      lits == [i \in 1..Len(c) |-> IF c[i].t = "lit" THEN c[i].w ELSE row[i]]
  IN IF Len(p) > 1 /\ p[1].t = "lit" /\ p[1].w = prefix THEN Tail(body) ELSE <<prefix>> \o body

\* rules visible at a level: locals then inherited globals
RECURSIVE FirstMatch(_, _)
FirstMatch(rules, row) == IF rules = <<>> THEN 0
                          ELSE IF Match(Head(rules).pat, row) THEN 1 ELSE
                               LET r == FirstMatch(Tail(rules), row) IN IF r = 0 THEN 0 ELSE r + 1
Globals(rules) == SelectSeq(rules, LAMBDA r : r.glob)
Locals(rules) == SelectSeq(rules, LAMBDA r : ~r.glob)
Visible(loc, glo) == Locals(loc) \o Globals(loc) \o glo
\* slot of a row: <<index in visible, key>> or <<0>>
Slot(vis, row) == LET i == FirstMatch(vis, row) IN IF i = 0 THEN <<0>> ELSE <<i, Key(vis[i].pat, row)>>

IdxOf(tree, row) == LET S == {i \in 1..Len(tree) : tree[i].row = row} IN IF S = {} THEN 0 ELSE CHOOSE i \in S : TRUE
DropIdx(s, I) == SelectSeq([i \in 1..Len(s) |-> IF i \in I THEN <<>> ELSE <<s[i]>>], LAMBDA x : x # <<>>)
Unwrap(s) == [i \in 1..Len(s) |-> s[i][1]]

RECURSIVE Exec(_, _, _, _)
\* tree, local rules of this level, inherited globals, path (seq of rows) -> tree
Exec(tree, loc, glo, path) ==
  LET vis == Visible(loc, glo)
      row == Head(path)
      mi  == FirstMatch(vis, row)
      kidrules == IF mi = 0 THEN <<>> ELSE vis[mi].kids
      kidglo   == Globals(loc) \o glo
  IN
  IF Len(path) > 1 THEN
     LET i == IdxOf(tree, row) IN
     IF i # 0 THEN [tree EXCEPT ![i].kids = Exec(tree[i].kids, kidrules, kidglo, Tail(path))]
     ELSE Append(tree, [row |-> row, kids |-> Exec(<<>>, kidrules, kidglo, Tail(path))])
  ELSE IF row = <<RB.exit>> THEN tree
  ELSE
     LET revhits == {i \in 1..Len(tree) :
                       LET j == FirstMatch(vis, tree[i].row) IN
                       j # 0 /\ RevInst(vis[j].pat, tree[i].row, RB.prefix) = row}
     IN IF revhits # {} THEN Unwrap(DropIdx(tree, revhits))
        ELSE IF mi = 0 THEN tree
        ELSE LET same == {i \in 1..Len(tree) : Slot(vis, tree[i].row) = Slot(vis, row)} IN
             IF same = {} THEN Append(tree, [row |-> row, kids |-> <<>>])
             ELSE LET i == CHOOSE i \in same : TRUE IN
                  IF tree[i].row = row
                  THEN [tree EXCEPT ![i].kids = SelectSeq(@, LAMBDA n :
                            LET kv == Visible(kidrules, kidglo) k == FirstMatch(kv, n.row) IN k = 0 \/ ~kv[k].rewrite)]
                  ELSE [tree EXCEPT ![i] = [row |-> row, kids |-> tree[i].kids]]

RECURSIVE ExecAll(_, _)
ExecAll(tree, cmds) == IF cmds = <<>> THEN tree ELSE ExecAll(Exec(tree, RB.rules, <<>>, Head(cmds)), Tail(cmds))

RECURSIVE Canon(_)
Canon(tree) == { <<tree[i].row, Canon(tree[i].kids)>> : i \in 1..Len(tree) }

VARIABLE i
Init == i = 1
Next == i <= Len(Recs) /\ i' = i + 1
Ok == i <= Len(Recs) =>
        LET r == Recs[i] fin == ExecAll(r.old, r.cmds) IN
          IF Canon(fin) = Canon(r.new) THEN TRUE ELSE PrintT(<<"FAIL", r.id, ToJson(fin)>>) /\ TRUE
====
