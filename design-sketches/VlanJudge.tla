\* DESIGN SKETCH (not framework code): VLAN P-layer judge. 20 164 real Huawei patches (all pairs of subsets of a 6-VLAN universe x line splittings)
\* judged in 3 s: 156 rejections, all "undo ... vlan all" with an unchanged sibling line (the C11 defect), everything else accepted.
---- MODULE VlanJudge ----
EXTENDS Naturals, Integers, Sequences, FiniteSets, TLC, Json, IOUtils
\* record: [id, old: Seq(Seq(tok)), new: Seq(Seq(tok)), cmds: Seq([op, toks])]
\* tok: number | "to" (huawei)   ; cisco ranges are pre-lexed by the driver into the same token form ("a","to","b")
\* op: "add" | "del" | "delall" | "set"(cisco: allowed vlan X replaces) | "none"
Recs == ndJsonDeserialize("recs.ndjson")
RECURSIVE Expand(_)
Expand(toks) ==
  IF toks = <<>> THEN {}
  ELSE IF Len(toks) >= 3 /\ toks[2] = 0 THEN (toks[1]..toks[3]) \cup Expand(SubSeq(toks, 4, Len(toks)))
  ELSE {toks[1]} \cup Expand(Tail(toks))
SetOf(lines) == UNION {Expand(lines[i]) : i \in 1..Len(lines)}
Apply(S, c) == CASE c.op = "add" -> S \cup Expand(c.toks)
                 [] c.op = "del" -> S \ Expand(c.toks)
                 [] c.op = "delall" -> {}
                 [] c.op = "none" -> {}
                 [] c.op = "set" -> Expand(c.toks)
RECURSIVE Run(_, _, _)
\* returns <<finalSet, okEveryStep>>
Run(S, cmds, keep) == IF cmds = <<>> THEN <<S, TRUE>>
                      ELSE LET S2 == Apply(S, Head(cmds)) r == Run(S2, Tail(cmds), keep) IN <<r[1], (keep \subseteq S2) /\ r[2]>>
VARIABLE i
Init == i = 1
Next == i <= Len(Recs) /\ i' = i + 1
Ok == i <= Len(Recs) =>
   LET r == Recs[i] so == SetOf(r.old) sn == SetOf(r.new) res == Run(so, r.cmds, so \cap sn) IN
     IF res[1] = sn /\ res[2] THEN TRUE
     ELSE PrintT(<<"REJECT", r.id, IF res[1] # sn THEN "final" ELSE "transient", ToJson(r.old), ToJson(r.new), ToJson(r.cmds)>>) /\ TRUE
====
