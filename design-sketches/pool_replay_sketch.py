"""DESIGN SKETCH (not framework code): replays TLC-simulated PoolG behaviours step by step into the real, unmodified
annet.parallel.Parallel.irun / pool_worker through the turn-based scheduler and compares the projected state after every step.
Result in the design phase: 200 behaviours / 6765 steps, 0 grant mismatches, 0 state mismatches; the result loss predicted by the
spec (Drain=FALSE) shows up in the real code in 131 of 200 complete behaviours.  usage: replay.py sim.out N W MaxTasks"""
import json, re, sys, threading, types, collections, queue, logging
logging.disable(logging.CRITICAL)
src=open('/verif/design-sketches/sched_sketch.py').read()
# reuse Sched/FQ/FP from the sketch (cut before run_once)
code=src.split("def run_once")[0].split('"""',2)[2]
ns={}
exec(code, ns)
P=ns["P"]; Sched=ns["Sched"]; FQ=ns["FQ"]; FP=ns["FP"]
def load(path):
    behs=[]; cur=None
    for line in open(path):
        m=re.match(r'<<"ST", "(.*)">>\s*$', line)
        if not m: continue
        st=json.loads(m.group(1).replace('\\"','"'))
        if st["lvl"]==1: cur=[]; behs.append(cur)
        cur.append(st)
    return behs
def replay(beh, N, W, max_tasks):
    S=Sched(); ns["S"]=S; qs=[]
    def mkq():
        q=FQ(); qs.append(q); return q
    P.mp=types.SimpleNamespace(Queue=mkq, Process=FP, cpu_count=lambda:4, current_process=lambda: types.SimpleNamespace(name=threading.current_thread().name))
    delivered=[]; exits={}
    def parent():
        p=P.Parallel(lambda i:i*10).tune(parallel=W, max_tasks=max_tasks)
        try:
            for r in p.irun(list(range(1,N+1))):
                S.point("parent",("yield",r.device_id)); delivered.append(r.device_id)
        finally: S.finish("parent")
    S.register("parent"); th=threading.Thread(target=parent,name="parent",daemon=True); th.start()
    def grant(name, pred):
        with S.cv:
            while not S.quiescent(): S.cv.wait()
            op=S.waiting.get(name)
            if op is None or not pred(op): return ("MISMATCH", name, op, dict(S.waiting))
            if op[0]=="exit": exits[name]=op[1]
            S.waiting.pop(name); S.granted=name; S.cv.notify_all()
        return None
    def settle():
        with S.cv:
            while not S.quiescent(): S.cv.wait()
    # prologue: parent puts + starts until it waits at dget
    while True:
        settle()
        op=S.waiting.get("parent")
        if op and op[0] in ("put","start"): grant("parent", lambda o: True)
        else: break
    ns["TQ"]=qs[0]
    def proj():
        settle()
        tq=[t.payload if t.payload is not None else 0 for t in qs[0].items]
        dq=[x[1].payload for x in qs[1].items]
        ws=[]
        for w in range(W):
            nm="Worker-%d"%w
            if nm in S.waiting:
                op=S.waiting[nm]; ws.append({"tget":"idle","put":"busy"}.get(op[0]) or ("leave%d"%op[1]))
            else: ws.append("exit%s"%exits.get(nm,"?"))
        return {"taskQ":tq,"doneQ":dq,"ws":ws,"delivered":list(delivered)}
    for k,st in enumerate(beh):
        a,arg=st["act"],st["arg"]
        err=None
        if a in ("tget","put"): err=grant("Worker-%d"%(arg-1), lambda o: o[0]==a)
        elif a=="exit": err=grant("Worker-%d"%(arg-1), lambda o: o[0]=="exit")
        elif a=="dget": err=grant("parent", lambda o: o[0]=="dget")
        elif a=="exitcode": err=grant("parent", lambda o: o==("exitcode","Worker-%d"%(arg-1)))
        elif a=="yield": err=grant("parent", lambda o: o==("yield",arg))
        elif a=="start": err=grant("parent", lambda o: o==("start","Worker-%d"%(arg-1)))
        elif a in ("nocheck","loop","break"): pass
        if err: return ("grant", k, st, err)
        pr=proj()
        spec={"taskQ":st["taskQ"],"doneQ":st["doneQ"],"ws":[("exit0" if x=="gone" else x) for x in st["ws"]],"delivered":st["delivered"]}
        if pr!=spec: return ("state", k, spec, pr)
    done = beh[-1]["ppc"]=="done"
    if done:
        settle()
        if "parent" in S.alive: return ("notdone", len(beh), dict(S.waiting))
    return ("ok", len(beh), done, sorted(delivered))
behs=load(sys.argv[1]); N,W,M=int(sys.argv[2]),int(sys.argv[3]),int(sys.argv[4])
res=collections.Counter(); shown=0; lost=0
for b in behs:
    r=replay(b,N,W,M); res[r[0]]+=1
    if r[0]!="ok" and shown<3: shown+=1; print(r)
    if r[0]=="ok" and r[2] and r[3]!=list(range(1,N+1)): lost+=1
print(dict(res),"complete behaviours with loss reproduced in real code:",lost, "of", sum(1 for b in behs if b[-1]["ppc"]=="done"))
