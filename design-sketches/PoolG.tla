\* DESIGN SKETCH (not framework code): primitive-grain pool spec (one action per scheduler primitive) that emits simulated
\* behaviours as JSON (ACTION_CONSTRAINT Emit).  tlc -simulate num=200 -depth 80 -workers 1 : 6765 steps in 2 s.
---- MODULE PoolG ----
EXTENDS Naturals, Sequences, FiniteSets, TLC, Json
CONSTANTS N, W, MaxTasks, Drain
Ids == 1..N
Workers == 1..W
STOP == 0
VARIABLES taskQ, doneQ, ws, cnt, cur, pool, delivered, ppc, got, retired, toCheck, last
vars == <<taskQ, doneQ, ws, cnt, cur, pool, delivered, ppc, got, retired, toCheck>>
\* ws: "idle" (about to task_queue.get) | "busy" (about to put) | "leave0" | "leave9" (about to exit) | "exit0" | "exit9" | "gone"
Init == /\ taskQ = [i \in 1..(N+W) |-> IF i <= N THEN i ELSE STOP]
        /\ doneQ = <<>> /\ ws = [w \in Workers |-> "idle"] /\ cnt = [w \in Workers |-> 0] /\ cur = [w \in Workers |-> 0]
        /\ pool = Workers /\ delivered = <<>> /\ ppc = "get" /\ got = 0 /\ retired = {} /\ toCheck = <<>> /\ last = <<"init", 0>>
WGet(w) == /\ ws[w] = "idle" /\ taskQ # <<>>
           /\ LET t == Head(taskQ) IN
              /\ taskQ' = Tail(taskQ)
              /\ IF t = STOP THEN ws' = [ws EXCEPT ![w] = "leave0"] /\ cur' = cur
                 ELSE ws' = [ws EXCEPT ![w] = "busy"] /\ cur' = [cur EXCEPT ![w] = t]
           /\ last' = <<"tget", w>>
           /\ UNCHANGED <<doneQ, cnt, pool, delivered, ppc, got, retired, toCheck>>
WPut(w) == /\ ws[w] = "busy"
           /\ doneQ' = Append(doneQ, cur[w]) /\ cnt' = [cnt EXCEPT ![w] = @ + 1]
           /\ ws' = [ws EXCEPT ![w] = IF cnt[w] + 1 >= MaxTasks THEN "leave9" ELSE "idle"]
           /\ last' = <<"put", w>>
           /\ UNCHANGED <<taskQ, cur, pool, delivered, ppc, got, retired, toCheck>>
WExit(w) == /\ ws[w] \in {"leave0", "leave9"}
            /\ ws' = [ws EXCEPT ![w] = IF ws[w] = "leave0" THEN "exit0" ELSE "exit9"]
            /\ last' = <<"exit", w>>
            /\ UNCHANGED <<taskQ, doneQ, cnt, cur, pool, delivered, ppc, got, retired, toCheck>>
\* parent; _check_children iterates names in dict order = worker index order
RECURSIVE SetToSortedSeq(_)
SetToSortedSeq(S) == IF S = {} THEN <<>> ELSE LET m == CHOOSE x \in S : \A y \in S : x <= y IN <<m>> \o SetToSortedSeq(S \ {m})
PGet == /\ ppc = "get"
        /\ IF doneQ # <<>> THEN got' = Head(doneQ) /\ doneQ' = Tail(doneQ) ELSE got' = 0 /\ doneQ' = doneQ
        /\ ppc' = "check" /\ toCheck' = SetToSortedSeq(pool) /\ retired' = {}
        /\ last' = <<"dget", 0>>
        /\ UNCHANGED <<taskQ, ws, cnt, cur, pool, delivered>>
PCheck == /\ ppc = "check" /\ toCheck # <<>>
          /\ LET w == Head(toCheck) IN
             /\ toCheck' = Tail(toCheck)
             /\ last' = <<"exitcode", w>>
             /\ CASE ws[w] = "exit9" -> retired' = retired \cup {w} /\ pool' = pool /\ ws' = ws
                  [] ws[w] = "exit0" -> pool' = pool \ {w} /\ retired' = retired /\ ws' = [ws EXCEPT ![w] = "gone"]
                  [] OTHER -> UNCHANGED <<pool, retired, ws>>
             /\ ppc' = IF Tail(toCheck) = <<>> THEN (IF got # 0 THEN "yield" ELSE "decide") ELSE "check"
          /\ UNCHANGED <<taskQ, doneQ, cnt, cur, delivered, got>>
PCheckNone == /\ ppc = "check" /\ toCheck = <<>>     \* empty pool: nothing to read
              /\ ppc' = IF got # 0 THEN "yield" ELSE "decide" /\ last' = <<"nocheck", 0>>
              /\ UNCHANGED <<taskQ, doneQ, ws, cnt, cur, pool, delivered, got, retired, toCheck>>
PYield == /\ ppc = "yield" /\ delivered' = Append(delivered, got) /\ ppc' = "decide" /\ last' = <<"yield", got>>
          /\ UNCHANGED <<taskQ, doneQ, ws, cnt, cur, pool, got, retired, toCheck>>
\* decide: break, or restart retired workers one by one (name order), then loop
PDecide == /\ ppc = "decide"
           /\ IF pool = {} /\ (~Drain \/ doneQ = <<>>) THEN ppc' = "done" /\ UNCHANGED <<ws, cnt, retired>> /\ last' = <<"break", 0>>
              ELSE IF retired = {} THEN ppc' = "get" /\ UNCHANGED <<ws, cnt, retired>> /\ last' = <<"loop", 0>>
              ELSE LET w == CHOOSE x \in retired : \A y \in retired : x <= y IN
                   /\ ws' = [ws EXCEPT ![w] = "idle"] /\ cnt' = [cnt EXCEPT ![w] = 0] /\ retired' = retired \ {w}
                   /\ ppc' = ppc /\ last' = <<"start", w>>
           /\ UNCHANGED <<taskQ, doneQ, cur, pool, delivered, got, toCheck>>
Next == \/ \E w \in Workers : WGet(w) \/ WPut(w) \/ WExit(w)
        \/ PGet \/ PCheck \/ PCheckNone \/ PYield \/ PDecide
Spec == Init /\ [][Next]_<<vars, last>>
ToSet(s) == {s[i] : i \in DOMAIN s}
AllDelivered == ppc = "done" => ToSet(delivered) = Ids
Emit == PrintT(<<"ST", ToJson([lvl |-> TLCGet("level"), act |-> last'[1], arg |-> last'[2], taskQ |-> taskQ', doneQ |-> doneQ',
                               ws |-> ws', delivered |-> delivered', pool |-> SetToSortedSeq(pool'), ppc |-> ppc'])>>)
====
