"""DESIGN SKETCH (not framework code): turn-based scheduler that drives the unmodified annet.parallel
Parallel.irun / pool_worker one primitive at a time (300 executions in 1.3 s; reproduces the result loss).
To be rewritten into vf/ in the build phase."""
import threading, queue, types, sys, random, collections
import annet.parallel as P

class Sched:
    """turn-based scheduler: every primitive op of every participant waits for a grant"""
    def __init__(self):
        self.cv=threading.Condition(); self.waiting={}   # name -> op description
        self.granted=None; self.alive=set(); self.log=[]
    def register(self,name):
        with self.cv: self.alive.add(name); self.cv.notify_all()
    def finish(self,name):
        with self.cv: self.alive.discard(name); self.waiting.pop(name,None); self.cv.notify_all()
    def point(self,name,op):
        with self.cv:
            self.waiting[name]=op; self.cv.notify_all()
            while self.granted!=name: self.cv.wait()
            self.granted=None
    def quiescent(self):
        return all(n in self.waiting for n in self.alive)
    def step(self, choose):
        with self.cv:
            while not self.quiescent(): self.cv.wait()
            if not self.alive: return None
            enabled={n:op for n,op in self.waiting.items() if self.enabled(n,op)}
            if not enabled: raise RuntimeError("deadlock %r"%self.waiting)
            n=choose(sorted(enabled.items()))
            self.log.append((n,self.waiting.pop(n)))
            self.granted=n; self.cv.notify_all()
            return n
    def enabled(self,n,op):
        kind=op[0]
        if kind=="tget": return len(TQ.items)>0
        return True
S=None; TQ=None; DQ=None
def me(): return threading.current_thread().name
class FQ:
    def __init__(self): self.items=collections.deque()
    def put(self,x):
        if me()!="driver-setup" and me() in S.alive: S.point(me(),("put",))
        self.items.append(x)
    def get(self, block=True, timeout=None):
        if timeout is None:   # worker's task_queue.get()
            S.point(me(),("tget",)); return self.items.popleft()
        S.point(me(),("dget",))
        if self.items: return self.items.popleft()
        raise queue.Empty
    def qsize(self): return len(self.items)
    def close(self): pass
class FP:
    def __init__(self, name, target, args): self.name=name; self.target=target; self.args=args; self._code=None; self.pid=0
    @property
    def exitcode(self):
        S.point(me(),("exitcode",self.name)); return self._code
    def start(self):
        S.point(me(),("start",self.name))
        def run():
            code=0
            try: self.target(*self.args)
            except SystemExit as e: code=e.code
            S.point(self.name,("exit",code)); self._code=code; S.finish(self.name)
        S.register(self.name)
        self.t=threading.Thread(target=run, name=self.name, daemon=True); self.t.start()
    def join(self): pass
def run_once(n, par, max_tasks, seed, verbose=False):
    global S,TQ,DQ
    S=Sched(); qs=[]
    def mkq():
        q=FQ(); qs.append(q); return q
    fake=types.SimpleNamespace(Queue=mkq, Process=FP, cpu_count=lambda:4, current_process=lambda: types.SimpleNamespace(name=me()))
    P.mp=fake
    rnd=random.Random(seed); got=[]
    def parent():
        p=P.Parallel(lambda i:i*10).tune(parallel=par, max_tasks=max_tasks)
        try:
            for r in p.irun(list(range(n))):
                S.point("parent",("yield",r.device_id)); got.append((r.device_id,r.result))
        finally:
            S.finish("parent")
    # queues are created inside irun: first is task_queue, second done_queue
    S.register("parent")
    th=threading.Thread(target=parent,name="parent",daemon=True)
    orig_put=FQ.put
    th.start()
    steps=0
    while True:
        if len(qs)>=1: TQ=qs[0]
        r=S.step(lambda en: rnd.choice(en)[0])
        if r is None: break
        steps+=1
        if steps>5000:
            print(S.log[:40]); print(S.log[-12:]); print(S.waiting, S.alive); raise RuntimeError("too long")
    return sorted(got), steps, S.log
import logging; logging.disable(logging.CRITICAL)
lost=0; N=300
for seed in range(N):
    got,steps,log=run_once(4,2,2,seed)
    if [g[0] for g in got]!=[0,1,2,3]:
        lost+=1
        if lost==1: print("LOSS seed",seed,got,"steps",steps); print(log[-25:])
print("runs",N,"with loss",lost)
