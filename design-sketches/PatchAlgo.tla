\* DESIGN SKETCH (not framework code): prototype validated with TLC during the design phase, see DESIGN.md section 10/11.
\* A-layer transcription of make_diff -> make_pre -> logic -> make_patch -> cmd_paths: 0 drift on 3000 random pairs.
---- MODULE PatchAlgo ----
EXTENDS Naturals, Integers, Sequences, FiniteSets, TLC, Json, IOUtils, SequencesExt
Recs == ndJsonDeserialize("recs.ndjson")
RB == JsonDeserialize("rb.json")          \* [prefix, exit, rules]; rule = [pat, kids, glob, rk, logic, parent]

\* ---------------- RuleLang (P) ----------------
IsTilde(p) == Len(p) > 0 /\ p[Len(p)].t = "tilde"
Core(p) == IF IsTilde(p) THEN SubSeq(p, 1, Len(p) - 1) ELSE p
Match(p, row) == LET c == Core(p) IN
  /\ Len(row) >= Len(c) + (IF IsTilde(p) THEN 1 ELSE 0)
  /\ \A i \in 1..Len(c) : c[i].t = "lit" => c[i].w = row[i]
RECURSIVE Flat(_)
Flat(ss) == IF ss = <<>> THEN <<>> ELSE Head(ss) \o Flat(Tail(ss))
Key(p, row) == LET c == Core(p) IN
  Flat([i \in 1..Len(c) |-> IF c[i].t = "star" THEN <<<<row[i]>>>> ELSE <<>>])
    \o (IF IsTilde(p) THEN <<SubSeq(row, Len(c) + 1, Len(row))>> ELSE <<>>)
\* reverse command for (pattern,key): prefix + words with placeholders filled; own prefix stripped
RevCmd(p, key, prefix) ==
  LET c == Core(p)
      RECURSIVE Fill(_, _)
      Fill(i, k) == IF i > Len(c) THEN (IF IsTilde(p) THEN key[k] ELSE <<>>)
                    ELSE IF c[i].t = "lit" THEN <<c[i].w>> \o Fill(i + 1, k) ELSE key[k] \o Fill(i + 1, k + 1)
      body == Fill(1, 1)
  IN IF Len(p) > 1 /\ p[1].t = "lit" /\ p[1].w = prefix THEN Tail(body) ELSE <<prefix>> \o body
RECURSIVE FirstMatch(_, _)
FirstMatch(rules, row) == IF rules = <<>> THEN 0 ELSE IF Match(Head(rules).pat, row) THEN 1
                          ELSE LET r == FirstMatch(Tail(rules), row) IN IF r = 0 THEN 0 ELSE r + 1
Globals(rules) == SelectSeq(rules, LAMBDA r : r.glob)
Visible(loc, glo) == SelectSeq(loc, LAMBDA r : ~r.glob) \o Globals(loc) \o glo

\* ---------------- trees ----------------
Rows(t) == [i \in 1..Len(t) |-> t[i].row]
Has(t, row) == \E i \in 1..Len(t) : t[i].row = row
IdxOf(t, row) == CHOOSE i \in 1..Len(t) : t[i].row = row
KidsOf(t, row) == IF Has(t, row) THEN t[IdxOf(t, row)].kids ELSE <<>>

\* ---------------- Differ (A): apply_diff_rb + default_diff (base_diff, moved_to_affected) + mark_unchanged ----
OpRank(op) == CASE op = "added" -> 0 [] op = "affected" -> 1 [] op = "moved" -> 2 [] op = "removed" -> 3 [] OTHER -> 4
Known(t, vis) == SelectSeq(t, LAMBDA n : FirstMatch(vis, n.row) # 0)
RECURSIVE Diff(_, _, _, _, _)
\* returns Seq([op,row,kids,ri (index in vis),key])
Diff(old0, new0, loc, glo, parentOp) ==
  LET vis == Visible(loc, glo)
      old == Known(old0, vis)  new == Known(new0, vis)
      kglo == Globals(loc) \o glo
      Item(op, row, kids) == LET ri == FirstMatch(vis, row) IN
            [op |-> op, row |-> row, kids |-> kids, ri |-> ri, key |-> Key(vis[ri].pat, row), rule |-> vis[ri]]
      Rem == [i \in 1..Len(old) |->
               IF ~Has(new, old[i].row)
               THEN <<[idx |-> i - 1, it |-> Item("removed", old[i].row,
                           Diff(old[i].kids, <<>>, vis[FirstMatch(vis, old[i].row)].kids, kglo, "removed"))]>>
               ELSE <<>>]
      \* disorder flag is sticky: compute op for position i from prefix
      RECURSIVE Ops(_, _)
      Ops(i, dis) == IF i > Len(new) THEN <<>> ELSE
          LET row == new[i].row
              isnew == ~Has(old, row)
              moved == ~isnew /\ (dis \/ IdxOf(old, row) # i)
              op == IF isnew THEN "added" ELSE parentOp      \* moved_to_affected: moved -> parent op
          IN <<op>> \o Ops(i + 1, dis \/ isnew \/ moved)
      ops == Ops(1, FALSE)
      Add == [i \in 1..Len(new) |->
               <<[idx |-> i - 1, it |-> Item(ops[i], new[i].row,
                     Diff(KidsOf(old, new[i].row), new[i].kids, vis[FirstMatch(vis, new[i].row)].kids, kglo, ops[i]))]>>]
      all == Flat(Rem) \o Flat(Add)
      Less(a, b) == \/ a.idx < b.idx
                    \/ a.idx = b.idx /\ OpRank(a.it.op) < OpRank(b.it.op)
      sorted == SortSeq(all, Less)
  IN [i \in 1..Len(sorted) |-> sorted[i].it]
RECURSIVE Mark(_)
Mark(d) == [i \in 1..Len(d) |->
             IF d[i].op = "affected"
             THEN LET k == Mark(d[i].kids) IN
                  [d[i] EXCEPT !.kids = k, !.op = IF \A j \in 1..Len(k) : k[j].op = "unchanged" THEN "unchanged" ELSE "affected"]
             ELSE d[i]]
MakeDiff(old, new) == Mark(Diff(old, new, RB.rules, <<>>, "affected"))

\* ---------------- make_pre + logic + make_patch (A) ----------------
\* groups: first-seen order of (rule index, key)
RECURSIVE Groups(_, _)
Groups(d, acc) == IF d = <<>> THEN acc ELSE
   LET g == <<Head(d).ri, Head(d).key>> IN Groups(Tail(d), IF \E i \in 1..Len(acc) : acc[i] = g THEN acc ELSE Append(acc, g))
Bucket(d, g, op) == SelectSeq(d, LAMBDA x : <<x.ri, x.key>> = g /\ x.op = op)
RECURSIVE PatchItems(_)
\* default logic on buckets; returns Seq([direct,row,kids (Seq or "NONE"),rk])
Default(rule, key, aff, add, mov, rem) ==
   IF aff # <<>> THEN <<[direct |-> TRUE, row |-> aff[1].row, sub |-> aff[1].kids]>>
   ELSE IF add # <<>> THEN <<[direct |-> TRUE, row |-> add[1].row, sub |-> add[1].kids]>>
   ELSE IF mov # <<>> THEN <<[direct |-> TRUE, row |-> mov[1].row, sub |-> mov[1].kids]>>
   ELSE IF rem # <<>> THEN <<[direct |-> FALSE, row |-> RevCmd(rule.pat, key, RB.prefix), sub |-> <<>>]>>
   ELSE <<>>
Logic(rule, key, aff, add, mov, rem) ==
   CASE rule.logic = "undo_redo" /\ add # <<>> /\ rem # <<>> /\ aff = <<>> ->
            Default(rule, key, <<>>, <<>>, <<>>, rem) \o Default(rule, key, <<>>, add, <<>>, <<>>)
     [] rule.logic = "ignore_changes" /\ add # <<>> /\ rem # <<>> -> <<>>
     [] rule.logic = "permanent" /\ rem # <<>> ->
            IF rem[1].kids = <<>> THEN <<>> ELSE Default(rule, key, aff \o rem, add, mov, <<>>)
     [] OTHER -> Default(rule, key, aff, add, mov, rem)
PatchItems(d) ==
   LET gs == Groups(d, <<>>)
       raw == Flat([gi \in 1..Len(gs) |->
                LET g == gs[gi]
                    any == CHOOSE x \in {d[i] : i \in 1..Len(d)} : <<x.ri, x.key>> = g
                    rule == any.rule
                    ys == Logic(rule, g[2], Bucket(d, g, "affected"), Bucket(d, g, "added"), Bucket(d, g, "moved"), Bucket(d, g, "removed"))
                IN [j \in 1..Len(ys) |->
                      LET y == ys[j]
                          kids == IF y.sub = <<>> THEN <<>> ELSE PatchItems(y.sub)
                          leaf == (kids = <<>> /\ ~rule.parent) \/ ~y.direct
                      IN [direct |-> y.direct, row |-> y.row, block |-> ~leaf, kids |-> IF leaf THEN <<>> ELSE kids, rk |-> rule.rk]]])
       Less(a, b) == \/ a.rk < b.rk \/ (a.rk = b.rk /\ ~a.direct /\ b.direct)
   IN SortSeq(raw, Less)
RECURSIVE CmdPaths(_, _)
CmdPaths(items, pfx) == Flat([i \in 1..Len(items) |->
     <<Append(pfx, items[i].row)>> \o
     (IF items[i].block THEN CmdPaths(items[i].kids, Append(pfx, items[i].row)) \o <<pfx \o <<items[i].row, <<RB.exit>>>>>> ELSE <<>>)])
PatchCmds(old, new) == CmdPaths(PatchItems(MakeDiff(old, new)), <<>>)

VARIABLE i
Init == i = 1
Next == i <= Len(Recs) /\ i' = i + 1
Ok == i <= Len(Recs) =>
        LET r == Recs[i] c == PatchCmds(r.old, r.new) IN
          IF c = r.cmds THEN TRUE ELSE PrintT(<<"DRIFT", r.id, ToJson(c), ToJson(r.cmds)>>) /\ TRUE
====
