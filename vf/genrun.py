"""Real PartialGenerator objects that interpret a GenRun program with the real block()/block_if()/multiblock() context managers,
and a stub context for annet.gen._old_new_per_device."""
import types

from . import annetenv as E


STORAGE = types.SimpleNamespace(flush_perf=lambda: 0)


class Dev:
    """device stub: hashable, non-pc"""
    def __init__(self, hw, name="vf-dev"):
        self.hw, self.hostname, self.fqdn, self.id, self.storage, self.breed = hw, name, name + ".example", 1, STORAGE, "x"

    def is_pc(self):
        return False


def make_generator(name, prog, acl_text, vendor, declines=None, acl_safe_text=None):
    """declines: None, "supports" (supports_device() answers no) or "raise" (run raises NotSupportedDevice after its first yield)"""
    from annet.generators import PartialGenerator

    def run(self, device):
        if declines == "raise":
            from annet.generators.exceptions import NotSupportedDevice
            yield "zz-before-declining 1"
            raise NotSupportedDevice("not for this box")
        frames = []
        k = 0
        for o in prog:
            op = o["op"]
            if op == "y" and o.get("plist"):
                from annet.generators import ParamsList
                yield tuple(o["plist"][0]) + (ParamsList(o["plist"][1]),)
            elif op == "y":
                k += 1
                yield tuple(o["row"]) if (k % 2 and len(o["row"]) > 1) else " ".join(o["row"])
            elif op == "ym":
                k += 1          # every other multi-line text has an empty line between its rows (as triple-quoted blocks in generators do)
                yield ("\n\n" if k % 2 else "\n").join(" ".join(r) for r in o["rows"])
            elif op == "enter":
                cm = self.block(*o["row"])
                cm.__enter__()
                frames.append(cm)
            elif op == "enterif":
                cm = self.block_if(*o["row"], condition=o["cond"])
                cm.__enter__()
                frames.append(cm)
            elif op == "enterdef":          # block_if without an explicit condition; tokens of every kind a generator passes
                toks = [{"w": w, "int": int(w) if kd == "int" else w, "none": None, "empty": ""}[kd] for w, kd in zip(o["row"], o["kinds"])]
                cm = self.block_if(*toks)
                cm.__enter__()
                frames.append(cm)
            elif op == "menter":
                cm = self.multiblock(*[tuple(r) for r in o["rows"]])
                cm.__enter__()
                frames.append(cm)
            elif op == "menterif":
                blocks = [tuple(r) for r in o["rows"]] + ([None] if o["none"] else [])
                cm = self.multiblock_if(*blocks) if o["cond"] == "default" else self.multiblock_if(*blocks, condition=(o["cond"] == "true"))
                cm.__enter__()
                frames.append(cm)
            elif op == "leave":
                if frames:
                    frames.pop().__exit__(None, None, None)
        while frames:
            frames.pop().__exit__(None, None, None)

    def acl(self, device):
        return acl_text
    attrs = {"run_" + vendor: run, "acl_" + vendor: acl, "TAGS": []}
    if acl_safe_text is not None:
        attrs["acl_safe_" + vendor] = lambda self, device: acl_safe_text
    if declines == "supports":
        attrs["supports_device"] = lambda self, device: False
    cls = type(name, (PartialGenerator,), attrs)
    return cls(storage=STORAGE)


def tree_prog(t):
    """a generator program that yields exactly the paths of an annet tree"""
    prog = []
    for row, kids in t.items():
        if kids:
            prog.append({"op": "enter", "row": row.split()})
            prog += tree_prog(kids)
            prog.append({"op": "leave"})
        else:
            prog.append({"op": "y", "row": row.split()})
    return prog


def old_new(device, gens, no_acl=False, running_text=None, add_implicit=False, no_new=False, annotate=False, acl_safe=False):
    """annet.gen._old_new_per_device with a stub context: empty (or the given) running config, the given partial generators"""
    from annet import gen
    args = types.SimpleNamespace(no_acl=no_acl, acl_safe=acl_safe, fail_on_empty_config=False, profile=False, no_acl_exclusive=False,
                                 generators_context=None, required_packages_check=False, filter_acl="", filter_ifaces=[], filter_peers=[],
                                 filter_policies=[])
    dg = gen.DeviceGenerators()
    dg.partial[device] = list(gens)
    dg.ref[device] = []
    ctx = gen.OldNewDeviceContext(config="empty" if running_text is None else "running", args=args, downloaded_files={}, failed_files={},
                                  running={} if running_text is None else {device: running_text}, failed_running={}, no_new=no_new,
                                  stdin=None, add_annotations=annotate, add_implicit=add_implicit, do_files_download=False, gens=dg, fetched_packages={},
                                  failed_packages={}, device_count=1, do_print_perf=False)
    filterer = types.SimpleNamespace(for_ifaces=lambda d, i: "", for_peers=lambda d, p: "", for_policies=lambda d, p: "")
    return gen._old_new_per_device(ctx, device, filterer)
