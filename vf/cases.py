"""Shared S2C plumbing for the rulebook-driven properties: the TLA+ catalogue (spec/RuleCatalog.tla) is enumerated by TLC
(spec/mc/MC_Cases.tla), rendered to annet rule text and compiled with the real compilers; configurations come from TLC too."""
import json
import os
from collections import OrderedDict as od

from . import core
from . import annetenv as E

# vendor profiles: (registered vendor, hardware model for hw objects, negation word, block-exit word emitted by the formatter)
PROFILES = {
    "huawei": ("huawei", "Huawei CE6870", "undo", "quit"),
    "cisco": ("cisco", "Cisco Catalyst C3750", "no", "exit"),
    "pc": ("pc", "PC", "-", ""),
    "arista": ("arista", "Arista DCS-7368", "no", "exit"),
    "h3c": ("h3c", "H3C S6800", "undo", "quit"),
    "nexus": ("nexus", "Cisco Nexus 9336", "no", "exit"),
    # a flattening vendor: one `set ...` / `delete ...` line per command (judged by Device.ExecAllFlat)
    "juniper": ("juniper", "Juniper MX960", "delete", ""),
    # same formatter family, own vendor class: which diff functions a rule gets by default (plain / %ordered) is the vendor's answer
    "ribbon": ("ribbon", "Ribbon OPT9608", "delete", ""),
}
FLAT = {"juniper", "ribbon"}

LOGIC_PARAM = {"undo_redo": "common.undo_redo", "permanent": "common.permanent", "ignore_changes": "common.ignore_changes"}


def check_profile(name):
    vend, model, prefix, exitw = PROFILES[name]
    v = E.vendor(vend)
    fmt = v.make_formatter()
    real_exit = getattr(fmt, "_block_exit", "")
    if v.reverse != prefix or real_exit != exitw:
        raise core.Machinery("vendor profile %s does not match the registry: reverse=%r exit=%r" % (name, v.reverse, real_exit))
    hw = E.hwview(model)
    if hw.vendor != vend:
        raise core.Machinery("hardware %s resolves to vendor %s, expected %s" % (model, hw.vendor, vend))
    return vend, hw, prefix, exitw


def tok_text(t):
    if t["t"] == "lit":
        return t["w"]
    if t["t"] == "star":
        return "*"
    if t["t"] == "tilde":
        return "~"
    if t["t"] == "set":
        return "*/(%s)/" % "|".join(t["S"])
    raise ValueError(t)


def rule_text(rules, depth=0):
    """trusted printer: catalogue rule structures -> annet .rul text"""
    out = []
    for r in rules:
        line = " ".join(tok_text(t) for t in r["pat"])
        if r.get("ign"):
            line = "!" + line
        params = []
        if r.get("glob"):
            params.append("%global")
        if r.get("dl") == "ordered":
            params.append("%ordered")
        elif r.get("dl") == "rewrite":
            params.append("%rewrite")
        elif r.get("logic") in LOGIC_PARAM:
            params.append("%logic=" + LOGIC_PARAM[r["logic"]])
        if r.get("icase"):
            params.append("%ignore_case")
        out.append("    " * depth + line + ("  " + " ".join(params) if params else ""))
        if r.get("kids"):
            out += rule_text(r["kids"], depth + 1)
    return out


def raw_rule(r):
    """the rule's line as annet keys it (raw_rule): pattern and parameters, no indentation"""
    return rule_text([dict(r, kids=[])])[0]


def all_raw(rules):
    out = []
    for r in rules:
        out.append(raw_rule(r))
        out += all_raw(r["kids"])
    return out


def strip_inst(rules, ranks=None):
    """rulebook JSON for the judges: without the enumeration helpers; rk = rank of the raw rule text (last component of annet's
    patch sort key), used by the A-layer only"""
    if ranks is None:
        ranks = {t: k for k, t in enumerate(sorted(set(all_raw(rules))))}
    return [{"pat": r["pat"], "kids": strip_inst(r["kids"], ranks), "glob": r["glob"], "ign": r["ign"], "logic": r["logic"], "dl": r["dl"],
             "rk": ranks[raw_rule(r)]} for r in rules]


class Catalog:
    def __init__(self, ctx, profile, names=None):
        self.ctx = ctx
        self.profile = profile
        self.vendor, self.hw, self.prefix, self.exit = check_profile(profile)
        cfgp = os.path.join(ctx.scratch, "cases_%s.cfg" % profile)
        self.prefixx = px = {"undo": "undox", "no": "notify", "-": "-x", "delete": "deleted", "remove": "removex"}[self.prefix]
        src = open(os.path.join(core.SPEC, "mc", "MC_Cases.cfg")).read().replace('Prefix = "undo"', 'Prefix = "%s"' % self.prefix).replace(
            '"undox"', '"%s"' % px)
        open(cfgp, "w").write(src)
        r = ctx.mc("mc/MC_Cases.tla", cfgp, name="MC_Cases[%s]" % profile, workers=1, timeout=900)
        if r.violated:
            raise core.Machinery("catalogue not well-formed: %s\n%s" % (r.violated, r.out[-2000:]))
        cat = core.parse_tagged(r.out, "CATALOG")
        if len(cat) != 1:
            raise core.Machinery("catalogue not emitted")
        self.entries = json.loads(cat[0][0])
        self.configs = {}
        for el in core.parse_tagged(r.out, "CFG"):
            self.configs.setdefault(el[0], []).append(json.loads(el[1])["t"])
        if sum(len(v) for v in self.configs.values()) + 1 != r.distinct:
            raise core.Machinery("configuration emission incomplete")
        self.names = [e["name"] for e in self.entries]
        self.rbs = []       # judge-side rulebooks (1-based index = position + 1)
        self.compiled = []
        from annet.rulebook.patching import compile_patching_text
        from annet.annlib.rbparser.ordering import compile_ordering_text
        from annet.rulebook.deploying import compile_deploying_text
        for e in self.entries:
            self.rbs.append({"prefix": self.prefix, "exit": self.exit, "name": e["name"], "rules": strip_inst(e["rules"]),
                             "flat": profile in FLAT})
            text = "\n".join(rule_text(e["rules"])) + "\n"
            self.compiled.append({"patching": compile_patching_text(text, self.vendor),
                                  "ordering": compile_ordering_text("", self.vendor),
                                  "deploying": compile_deploying_text("", self.vendor), "text": text})
        self.device = E.device(self.hw)
        self.formatter = E.vendor(self.vendor).make_formatter()

    def aux_file(self):
        p = os.path.join(self.ctx.scratch, "aux_%s.json" % self.profile)
        with open(p, "w") as f:
            json.dump({"rbs": self.rbs}, f)
        return p

    def pairs(self, k, limit, rnd):
        """(old,new) pairs of Configs(Catalog[k]) (k 1-based): all of them if that is at most `limit`, else a seeded sample"""
        cs = self.configs[k]
        n = len(cs)
        if n * n <= limit:
            return [(a, b) for a in cs for b in cs], True
        out = set()
        while len(out) < limit:
            out.add((rnd.randrange(n), rnd.randrange(n)))
        return [(cs[a], cs[b]) for a, b in sorted(out)], False


def tree(j):
    """judge-side tree JSON -> annet odict tree (trusted printer: words joined by single blanks)"""
    t = od()
    for n in j:
        t[" ".join(n["row"])] = tree(n["kids"])
    return t


def jtree(t):
    return [{"row": k.split(), "kids": jtree(v) if v else []} for k, v in t.items()]


def jdiff(d):
    return [{"op": op, "row": row.split(), "kids": jdiff(ch)} for (op, row, ch, _m) in d]


def jpaths(cmd_paths):
    return [[c.split() for c in path] for path in cmd_paths]
