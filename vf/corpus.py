"""The repository's own (before, after) sample corpus (tests/annet/test_patch/*.yaml), loaded with the repository's loader."""
from . import annetenv as E


def samples():
    """yields (name, vendor key, hw, old tree, new tree)"""
    E.init()
    from tests.annet import patch_data
    from tests import make_hw_stub
    out = []
    for name, sample in patch_data.get_samples(dirname="annet/test_patch"):
        vendor = sample.get("vendor", "huawei").lower()
        hw = make_hw_stub(vendor)
        try:
            old, new, _ = patch_data.get_configs(hw, sample)
        except Exception:
            continue
        out.append((name, vendor, hw, old, new))
    return out
