"""Core plumbing: TLC runner, PrintT/JSON codec, trace judging, evidence, verdict protocol (DESIGN.md 1.2, 1.3).

Exit protocol: 0 = property held on everything explored; 1 = at least one VIOLATION line; 2 = machinery failure.
"""
import json
import os
import re
import shutil
import subprocess
import sys
import tempfile
import time
import random
import concurrent.futures as cf

VERIF = os.path.dirname(os.path.dirname(os.path.abspath(__file__)))
# evidence and replay files go to /verif unless redirected (runs against seeded changes must not overwrite the committed evidence)
OUT = os.environ.get("VERIF_OUT", VERIF)
SPEC = os.path.join(VERIF, "spec")
TLA_CP = "/opt/veriftools/tla/tla2tools.jar:/opt/veriftools/tla/CommunityModules-deps.jar"
NCPU = os.cpu_count() or 4


class Machinery(Exception):
    """Something in the verification machinery itself failed: never a verdict (exit 2)."""


# ---------------------------------------------------------------------------------------------
# TLC output parsing
def _unescape_tla(s):
    out = []
    i = 0
    while i < len(s):
        c = s[i]
        if c == "\\" and i + 1 < len(s):
            n = s[i + 1]
            out.append({"n": "\n", "t": "\t", "r": "\r", "f": "\f"}.get(n, n))
            i += 2
        else:
            out.append(c)
            i += 1
    return "".join(out)


def _tuples(stdout):
    """top-level <<...>> values printed by PrintT, possibly wrapped over several lines by TLC's pretty printer"""
    out = []
    buf = None
    depth = 0
    instr = False
    for line in stdout.splitlines():
        if buf is None:
            if not line.startswith("<<"):
                continue
            buf = []
            depth = 0
            instr = False
        else:
            line = " " + line.strip()
        i = 0
        while i < len(line):
            c = line[i]
            if instr:
                if c == "\\":
                    i += 1
                elif c == '"':
                    instr = False
            elif c == '"':
                instr = True
            elif line.startswith("<<", i):
                depth += 1
                i += 1
            elif line.startswith(">>", i):
                depth -= 1
                i += 1
            i += 1
        buf.append(line)
        if depth <= 0 and not instr:
            out.append("".join(buf))
            buf = None
    return out


def parse_tagged(stdout, tag):
    """Yield the payload(s) of PrintT(<<"TAG", x, y, ...>>) lines as python values.

    Elements may be TLA+ string literals (possibly JSON produced by ToJson), integers or booleans."""
    res = []
    head = '<<"%s"' % tag
    head2 = '<< "%s"' % tag
    for t in _tuples(stdout):
        t = t.strip()
        if t.startswith(head2):
            t = head + t[len(head2):]
        if not t.startswith(head) or not t.endswith(">>"):
            continue
        body = t[len(head):-2].lstrip(" ,")
        res.append(_parse_elems(body))
    return res


def _parse_elems(s):
    elems = []
    i = 0
    n = len(s)
    while i < n:
        c = s[i]
        if c in " ,":
            i += 1
        elif c == '"':
            j = i + 1
            buf = []
            while j < n and s[j] != '"':
                if s[j] == "\\":
                    buf.append(s[j:j + 2])
                    j += 2
                else:
                    buf.append(s[j])
                    j += 1
            elems.append(_unescape_tla("".join(buf)))
            i = j + 1
        else:
            j = i
            depth = 0
            while j < n and (depth > 0 or s[j] != ","):
                if s[j] in "<{[(":
                    depth += 1
                elif s[j] in ">}])":
                    depth -= 1
                j += 1
            tok = s[i:j].strip()
            if re.fullmatch(r"-?\d+", tok):
                elems.append(int(tok))
            elif tok in ("TRUE", "FALSE"):
                elems.append(tok == "TRUE")
            else:
                elems.append(tok)
            i = j
    return elems


class TLCResult:
    def __init__(self, rc, out, wall):
        self.rc = rc
        self.out = out
        self.wall = wall
        self.generated = self.distinct = self.depth = 0
        m = re.search(r"(\d+) states generated, (\d+) distinct states found", out)
        if m:
            self.generated, self.distinct = int(m.group(1)), int(m.group(2))
        m = re.search(r"The depth of the complete state graph search is (\d+)", out)
        if m:
            self.depth = int(m.group(1))
        self.violated = re.findall(r"Error: Invariant (\S+) is violated", out)
        self.violated += re.findall(r"Error: Action property (\S+) is violated", out)
        if re.search(r"Error: Temporal properties were violated", out):
            self.violated.append("temporal")
        if "Error: Deadlock reached" in out:
            self.violated.append("deadlock")
        self.finished = "Model checking completed" in out or "Finished in" in out
        self.errors = [l for l in out.splitlines() if l.startswith("Error:")]
        self.coverage = {}

    @property
    def ok(self):
        return self.rc == 0 and not self.errors


def run_tlc(module, cfg, *, workdir, workers=NCPU, timeout=1800, env=None, simulate=None, depth=None, seed=None,
            coverage=False, deadlock=False, extra=(), jvm=(), heap="6g"):
    """Run TLC on spec module `module` (path to .tla) with config `cfg` (path). Returns TLCResult."""
    meta = tempfile.mkdtemp(prefix="meta", dir=workdir)
    cmd = ["java", "-Djava.io.tmpdir=" + workdir, "-XX:+UseParallelGC", "-Xss64m", "-Xmx" + heap, "-DTLA-Library=" + SPEC + os.pathsep + os.path.join(SPEC, "mc")
           + os.pathsep + os.path.join(SPEC, "trace"), *jvm,
           "-cp", TLA_CP, "tlc2.TLC", "-metadir", meta, "-noGenerateSpecTE", "-config", cfg, "-workers", str(workers)]
    if not deadlock:
        cmd.append("-deadlock")  # -deadlock DISABLES deadlock checking in TLC
    if simulate:
        cmd += ["-simulate", simulate]
    if depth:
        cmd += ["-depth", str(depth)]
    if seed is not None:
        cmd += ["-seed", str(seed)]
    if coverage:
        cmd += ["-coverage", "1"]
    cmd += list(extra)
    cmd.append(module)
    e = dict(os.environ)
    if env:
        e.update({k: str(v) for k, v in env.items()})
    t0 = time.time()
    try:
        p = subprocess.run(cmd, cwd=workdir, env=e, stdout=subprocess.PIPE, stderr=subprocess.STDOUT, timeout=timeout)
    except subprocess.TimeoutExpired:
        raise Machinery("TLC timeout after %ss: %s" % (timeout, " ".join(cmd)))
    finally:
        shutil.rmtree(meta, ignore_errors=True)
    out = p.stdout.decode("utf-8", "replace")
    res = TLCResult(p.returncode, out, time.time() - t0)
    res.cmd = " ".join(cmd)
    if coverage:
        for m in re.finditer(r"<(\w+) line \d+, col \d+ to line \d+, col \d+ of module (\w+)>: (\d+):(\d+)", out):
            res.coverage[m.group(2) + "." + m.group(1)] = (int(m.group(3)), int(m.group(4)))
    return res


# ---------------------------------------------------------------------------------------------
def _judge_shard(args):
    module, cfg, path, workdir, env, timeout = args
    e = {"TRACE_FILE": path}
    e.update(env or {})
    r = run_tlc(module, cfg, workdir=workdir, workers=1, timeout=timeout, env=e)
    return r


class Ctx:
    def __init__(self, prop, tier, seed, replay=None):
        self.prop = prop
        self.tier = tier
        self.seed = seed
        self.rng = random.Random(seed)
        self.replay = replay
        self.t0 = time.time()
        self.scratch = tempfile.mkdtemp(prefix="vf.%s." % prop)
        self.cov = {"states": 0, "transitions": 0, "traces_validated_against_impl": 0, "evaluations": 0,
                    "distinct_nontrivial": 0, "samples": [], "rule": "", "model_drift": 0, "mc_runs": [],
                    "judge_runs": [], "skipped": {}, "exhaustive": False}
        self.assumptions = []
        self.violations = []   # (case_id, clause, replay_path)
        self.known_hits = {}   # signature -> count
        self._nontrivial = set()
        self.level = "model_checking"
        self.findings = load_findings(prop)
        if not replay:
            shutil.rmtree(os.path.join(OUT, "replays", prop), ignore_errors=True)
        self.notes = []

    # -- logging
    def log(self, *a):
        print("[%s %6.1fs]" % (self.prop, time.time() - self.t0), *a, flush=True)

    # -- TLC model checking run; registers counts in evidence
    def mc(self, module, cfg, *, expect_ok=True, name=None, **kw):
        module = module if os.path.isabs(module) else os.path.join(SPEC, module)
        cfg = cfg if os.path.isabs(cfg) else os.path.join(SPEC, cfg)
        r = run_tlc(module, cfg, workdir=self.scratch, **kw)
        nm = name or os.path.basename(cfg)
        self.cov["states"] += r.distinct
        self.cov["transitions"] += r.generated
        self.cov["mc_runs"].append({"cfg": nm, "distinct_states": r.distinct, "states_generated": r.generated,
                                    "depth": r.depth, "wall_s": round(r.wall, 1), "violated": r.violated,
                                    "simulate": kw.get("simulate")})
        self.log("MC %s: %d generated, %d distinct, depth %d, %.1fs rc=%d %s" % (
            nm, r.generated, r.distinct, r.depth, r.wall, r.rc, r.violated or ""))
        if expect_ok and not r.ok:
            if r.violated:
                return r
            raise Machinery("TLC failed on %s (rc=%d):\n%s" % (nm, r.rc, r.out[-3000:]))
        return r

    # -- C2S: judge recorded executions with a trace spec. records: list of dicts with unique 'id'.
    def judge(self, module, cfg, records, *, shards=None, env=None, timeout=1800, tag="V", name=None):
        """Returns {id: [verdict elems...]} ; every record must get exactly one verdict line."""
        if not records:
            return {}
        if self.tier != "quick":
            timeout = max(timeout, 3 * 3600)       # the thorough tier judges ten times as many records, possibly on a busy machine
        module = module if os.path.isabs(module) else os.path.join(SPEC, module)
        cfg = cfg if os.path.isabs(cfg) else os.path.join(SPEC, cfg)
        n = len(records)
        shards = shards or max(1, min(NCPU, n // 200 + 1))
        per = (n + shards - 1) // shards
        jobs = []
        d = tempfile.mkdtemp(prefix="judge", dir=self.scratch)
        for s in range(shards):
            chunk = records[s * per:(s + 1) * per]
            if not chunk:
                continue
            path = os.path.join(d, "recs%d.ndjson" % s)
            with open(path, "w") as f:
                for r in chunk:
                    f.write(json.dumps(r, separators=(",", ":")) + "\n")
            jobs.append((module, cfg, path, self.scratch, env, timeout))
        t0 = time.time()
        verdicts = {}
        gen = dist = 0
        with cf.ThreadPoolExecutor(max_workers=NCPU) as ex:
            for r in ex.map(_judge_shard, jobs):
                if not r.ok:
                    raise Machinery("trace judge %s failed (rc=%d):\n%s" % (os.path.basename(module), r.rc, r.out[-4000:]))
                gen += r.generated
                dist += r.distinct
                for el in parse_tagged(r.out, tag):
                    if el[0] in verdicts:
                        raise Machinery("duplicate verdict for %r" % (el[0],))
                    verdicts[el[0]] = el[1:]
        ids = [r["id"] for r in records]
        missing = [i for i in ids if i not in verdicts]
        if missing or len(verdicts) != len(ids):
            raise Machinery("trace judge %s: %d records without verdict (e.g. %r)" % (
                os.path.basename(module), len(missing), missing[:3]))
        shutil.rmtree(d, ignore_errors=True)
        self.cov["traces_validated_against_impl"] += n
        self.cov["judge_runs"].append({"spec": name or os.path.basename(module), "records": n, "shards": len(jobs),
                                       "tlc_states": dist, "wall_s": round(time.time() - t0, 1)})
        self.cov["states"] += dist
        self.cov["transitions"] += gen
        self.log("JUDGE %s: %d records, %d shards, %.1fs" % (name or os.path.basename(module), n, len(jobs), time.time() - t0))
        return verdicts

    # -- bookkeeping
    def count(self, n=1):
        self.cov["evaluations"] += n

    def nontrivial(self, key):
        self._nontrivial.add(key if isinstance(key, (str, int, tuple)) else json.dumps(key, sort_keys=True))

    def sample(self, s, limit=4):
        if len(self.cov["samples"]) < limit:
            self.cov["samples"].append(s)

    def drift(self, n=1, example=None):
        self.cov["model_drift"] += n
        if example is not None and len(self.cov.setdefault("drift_examples", [])) < 3:
            self.cov["drift_examples"].append(example)

    def skip(self, reason, n=1):
        self.cov["skipped"][reason] = self.cov["skipped"].get(reason, 0) + n

    def reject(self, case_id, clause, record, signature=None):
        """A real execution was rejected by the P-layer. Known finding (by signature) or VIOLATION."""
        if signature is not None:
            for f in self.findings:
                if f.get("status") == "known" and f.get("signature") == signature:
                    self.known_hits.setdefault(signature, [0, f, record])
                    self.known_hits[signature][0] += 1
                    return "known"
        os.makedirs(os.path.join(OUT, "replays", self.prop), exist_ok=True)
        safe = re.sub(r"[^A-Za-z0-9_.-]", "_", str(case_id))[:80]
        path = os.path.join(OUT, "replays", self.prop, "%s.json" % safe)
        if len(self.violations) < 25:
            with open(path, "w") as f:
                json.dump({"property": self.prop, "case": case_id, "clause": clause, "signature": signature,
                           "record": record}, f, indent=1, default=str)
            print("VIOLATION property=%s replay=%s" % (self.prop, path), flush=True)
            print("  clause=%s case=%s" % (clause, case_id), flush=True)
        self.violations.append((case_id, clause, path))
        return "violation"

    def finish(self):
        for sig, (n, f, rec) in self.known_hits.items():
            print("KNOWN-FINDING: property=%s %s [signature=%s, %d case(s) in this run]" % (
                self.prop, f.get("what", ""), sig, n), flush=True)
        cov = self.cov
        cov["distinct_nontrivial"] = len(self._nontrivial)
        cov["known_finding_hits"] = {s: v[0] for s, v in self.known_hits.items()}
        if not cov["samples"]:
            cov["samples"] = ["(no sample recorded)"]
        ev = {"property_id": self.prop, "tier": self.tier, "seed": self.seed, "level": self.level,
              "coverage": cov, "assumptions": self.assumptions, "wall_s": round(time.time() - self.t0, 2),
              "violations": len(self.violations), "notes": self.notes}
        os.makedirs(os.path.join(OUT, "evidence"), exist_ok=True)
        with open(os.path.join(OUT, "evidence", "%s.json" % self.prop), "w") as f:
            json.dump(ev, f, indent=1, default=str)
        shutil.rmtree(self.scratch, ignore_errors=True)
        self.log("done: evaluations=%d nontrivial=%d states=%d traces=%d drift=%d violations=%d known=%d wall=%.1fs" % (
            cov["evaluations"], cov["distinct_nontrivial"], cov["states"], cov["traces_validated_against_impl"],
            cov["model_drift"], len(self.violations), sum(v[0] for v in self.known_hits.values()), time.time() - self.t0))
        return 1 if self.violations else 0


def load_findings(prop):
    path = os.path.join(VERIF, "known_findings.json")
    if not os.path.exists(path):
        return []
    with open(path) as f:
        data = json.load(f)
    return [x for x in data.get("findings", []) if x.get("property") == prop]


# ---------------------------------------------------------------------------------------------
# small shared helpers for drivers
def tree_to_json(t):
    """annet odict tree -> [{"row":[words], "kids":[...]}] (lexing only: split on blanks)."""
    return [{"row": k.split(), "kids": tree_to_json(v) if v else []} for k, v in t.items()]


def json_to_tree(j):
    from collections import OrderedDict as od
    t = od()
    for n in j:
        t[" ".join(n["row"])] = json_to_tree(n["kids"])
    return t


def chunks(seq, n):
    for i in range(0, len(seq), n):
        yield seq[i:i + n]
