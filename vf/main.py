"""bin/check entry: dispatches to vf.drivers.cXX.run(ctx).  See DESIGN.md 1.3 for the exit protocol."""
import argparse
import importlib
import logging
import os
import sys
import traceback

from . import core


def main(argv=None):
    ap = argparse.ArgumentParser()
    ap.add_argument("prop")
    ap.add_argument("--tier", default=os.environ.get("VERIF_TIER") or "quick", choices=["quick", "thorough"])
    ap.add_argument("--replay", default=None)
    ap.add_argument("--seed", type=int, default=None)
    a = ap.parse_args(argv)
    seed = a.seed if a.seed is not None else int(os.environ.get("VERIF_SEED") or 0)
    logging.disable(logging.CRITICAL)
    prop = a.prop.upper()
    try:
        mod = importlib.import_module("vf.drivers.%s" % prop.lower())
    except ImportError:
        traceback.print_exc()
        print("no driver for %s" % prop)
        return 2
    ctx = core.Ctx(prop, a.tier, seed, replay=a.replay)
    try:
        if a.replay:
            if not hasattr(mod, "replay"):
                print("driver %s has no replay()" % prop)
                return 2
            mod.replay(ctx, a.replay)
        else:
            mod.run(ctx)
        return ctx.finish()
    except core.Machinery as e:
        print("MACHINERY-FAILURE property=%s: %s" % (prop, e), flush=True)
        return 2
    except Exception:
        traceback.print_exc()
        print("MACHINERY-FAILURE property=%s: unexpected exception in driver" % prop, flush=True)
        return 2
    finally:
        import shutil
        shutil.rmtree(ctx.scratch, ignore_errors=True)


if __name__ == "__main__":
    sys.exit(main())
