"""Turn-based scheduler that drives the UNMODIFIED annet.parallel.Parallel.irun / pool_worker one primitive at a time.

`annet.parallel.mp` is replaced by a stand-in whose Process is a thread and whose Queue / exitcode / start operations each
wait for a grant from the scheduler, so that a schedule is a sequence of grants and every interleaving of the primitives
(task_queue.get, done_queue.put, process exit, done_queue.get, .exitcode, Process.start, hand-over to the consumer) can be produced
deterministically.  Primitive names = action names of spec/Pool.tla (see spec/mc/MC_Pool.tla `Act`).
"""
import collections
import queue
import threading
import types


class _Killed(BaseException):
    pass


class Sched:
    def __init__(self):
        self.cv = threading.Condition()
        self.waiting = {}      # participant -> op tuple
        self.granted = None
        self.alive = set()
        self.killed = set()
        self.log = []          # granted (participant, op)

    def register(self, name):
        with self.cv:
            self.alive.add(name)
            self.cv.notify_all()

    def finish(self, name):
        with self.cv:
            self.alive.discard(name)
            self.waiting.pop(name, None)
            self.cv.notify_all()

    def point(self, name, op):
        with self.cv:
            if name in self.killed:
                raise _Killed()
            if name not in self.alive:
                raise _Killed()
            self.waiting[name] = op
            self.cv.notify_all()
            while self.granted != name and name not in self.killed:
                self.cv.wait()
            if name in self.killed:
                raise _Killed()
            self.granted = None

    def kill(self, name):
        with self.cv:
            self.killed.add(name)          # dead at once: no longer schedulable; its thread unwinds on its own
            self.waiting.pop(name, None)
            self.alive.discard(name)
            if self.granted == name:
                self.granted = None
            self.cv.notify_all()

    def quiescent(self):
        return self.granted is None and all(n in self.waiting for n in self.alive)

    def settle(self, timeout=20.0):
        with self.cv:
            ok = self.cv.wait_for(self.quiescent, timeout)
            if not ok:
                raise RuntimeError("scheduler: participants did not settle: alive=%r waiting=%r" % (self.alive, self.waiting))

    def grant(self, name):
        with self.cv:
            op = self.waiting.pop(name)
            self.log.append((name, op))
            self.granted = name
            self.cv.notify_all()
        return op


class PoolRun:
    """One execution of Parallel.irun(ids) under the scheduler."""

    def __init__(self, n, parallel, max_tasks, raises=(), tolerate=True, func=None):
        import annet.parallel as P
        self.P = P
        self.n, self.W, self.max_tasks, self.raises, self.tolerate = n, parallel, max_tasks, set(raises), tolerate
        self.S = S = Sched()
        self.queues = []
        self.exits = {}          # worker name -> exit code (latest incarnation)
        self.delivered = []      # (id, result, failed) as seen by the consumer
        self.end = None          # "done" | "raised"
        self.exc = None
        self.events = []         # [act, arg] in Pool.tla vocabulary
        run = self

        def me():
            return threading.current_thread().name

        class FQ:
            def __init__(self):
                self.items = collections.deque()
                run.queues.append(self)

            def put(self, x):
                if me() in S.alive and me() != "parent":
                    S.point(me(), ("put",))
                self.items.append(x)

            def get(self, block=True, timeout=None):
                if timeout is None:                       # worker: task_queue.get()
                    S.point(me(), ("tget",))
                    return self.items.popleft()
                S.point(me(), ("dget",))                  # parent: done_queue.get(True, 1)
                if self.items:
                    return self.items.popleft()
                raise queue.Empty

            def empty(self):
                return not self.items

            def qsize(self):
                return len(self.items)

            def close(self):
                pass

        class FP:
            def __init__(self, name=None, target=None, args=()):
                self.name, self.target, self.args = name, target, args
                self._code = None
                self.pid = 0

            @property
            def exitcode(self):
                S.point(me(), ("exitcode", self.name))
                return self._code

            def start(self):
                S.point(me(), ("start", self.name))
                proc = self

                def body():
                    code = 0
                    try:
                        proc.target(*proc.args)
                    except SystemExit as e:
                        code = e.code if isinstance(e.code, int) else 1
                    except _Killed:
                        return
                    except BaseException:      # a crashing worker: non-zero exit code, as a real process would have
                        code = 1
                    try:
                        S.point(proc.name, ("exit", code))
                    except _Killed:
                        return
                    proc._code = code
                    run.exits[proc.name] = code
                    S.finish(proc.name)
                S.register(self.name)
                run.exits.pop(self.name, None)
                self.t = threading.Thread(target=body, name=self.name, daemon=True)
                self.t.start()

            def terminate(self):
                run.events.append(["kill", int(self.name.split("-")[1]) + 1])
                self._code = -15
                run.exits[self.name] = -15
                S.kill(self.name)

            def join(self, timeout=None):
                pass

        self.fake = types.SimpleNamespace(Queue=FQ, Process=FP, cpu_count=lambda: 4,
                                          current_process=lambda: types.SimpleNamespace(name=me()))
        if func is None:
            attempts = {}

            def func(i):
                # a raising id fails for good: with an ordinary error, or with a network error on every attempt (odd ids);
                # some other ids fail transiently (1-3 network errors, within net_retry = 3) and must still come back as successes
                k = attempts[i] = attempts.get(i, 0) + 1
                if i in run.raises:
                    if i % 2:
                        raise BrokenPipeError("task %d: network failure on every attempt" % i)
                    raise ValueError("task %d failed" % i)
                if i % 5 == 3 and k <= i % 3 + 1:
                    raise ConnectionResetError("task %d: transient network failure, attempt %d" % (i, k))
                return i * 10
        self.func = func

    # -- life cycle
    def start(self):
        P, S = self.P, self.S
        self._orig_mp = P.mp
        P.mp = self.fake
        run = self

        def parent():
            try:
                p = P.Parallel(run.func).tune(parallel=run.W, max_tasks=run.max_tasks)
                for r in p.irun(list(range(1, run.n + 1)), run.tolerate):
                    S.point("parent", ("yield", r.device_id))
                    run.delivered.append((r.device_id, r.result, r.exc is not None))
                run.end = "done"
            except _Killed:
                run.end = "killed"
            except BaseException as e:   # noqa
                run.end = "raised"
                run.exc = e
            finally:
                S.finish("parent")
        S.register("parent")
        self.th = threading.Thread(target=parent, name="parent", daemon=True)
        self.th.start()
        # prologue: the parent fills the task queue and starts the workers; these steps are not interleaved with anything
        while True:
            S.settle()
            op = S.waiting.get("parent")
            if op and op[0] == "start":
                S.grant("parent")
            else:
                break

    def close(self):
        # unblock everything that is still waiting, restore the module
        S = self.S
        for n in list(S.alive):
            S.kill(n)
        self.P.mp = self._orig_mp

    # -- observation
    def enabled(self):
        """participants whose pending primitive can be granted now: {name: op}"""
        S = self.S
        S.settle()
        out = {}
        for n, op in S.waiting.items():
            if op[0] == "tget" and not self.queues[0].items:
                continue            # blocking get on an empty task queue
            out[n] = op
        return out

    def widx(self, name):
        return int(name.split("-")[1]) + 1

    def event_of(self, name, op):
        k = op[0]
        if k in ("tget", "put"):
            return [k, self.widx(name)]
        if k == "exit":
            return ["exit%d" % op[1], self.widx(name)]
        if k == "dget":
            return ["dget", 0]
        if k == "exitcode":
            return ["exitcode", self.widx(op[1])]
        if k == "start":
            return ["start", self.widx(op[1])]
        if k == "yield":
            return ["yield", op[1]]
        raise ValueError(op)

    def step(self, name):
        op = self.S.grant(name)
        self.events.append(self.event_of(name, op))
        self.S.settle()
        return op

    def proj(self):
        """abstract state in the vocabulary of Pool.tla"""
        S = self.S
        S.settle()
        tq = [t.payload if t.payload is not None else 0 for t in self.queues[0].items] if self.queues else []
        dq = [x[1].payload for x in self.queues[1].items] if len(self.queues) > 1 else []
        ws = []
        for w in range(self.W):
            nm = "Worker-%d" % w
            if nm in S.waiting:
                op = S.waiting[nm]
                ws.append({"tget": "idle", "put": "busy"}.get(op[0]) or ("leave%d" % op[1]))
            elif nm in self.exits:
                c = self.exits[nm]
                ws.append("killed" if c == -15 else "exit%s" % c)
            else:
                ws.append("?")
        return {"taskQ": tq, "doneQ": dq, "ws": ws, "delivered": [d[0] for d in self.delivered]}

    def finished(self):
        return "parent" not in self.S.alive

    def record(self, rid):
        return {"id": rid, "ev": [{"a": a, "w": w} for a, w in self.events], "end": self.end or "running",
                "out": [{"id": d[0], "val": d[1] if isinstance(d[1], int) else -1, "failed": bool(d[2])} for d in self.delivered],
                "exc": type(self.exc).__name__ if self.exc is not None else "", "viaRun": False, "strict": False}


def explore(n, W, max_tasks, raises, tolerate, rnd, max_steps=4000, bias=None):
    """one seeded random schedule of the real code; returns the PoolRun (events, delivered, end)"""
    run = PoolRun(n, W, max_tasks, raises, tolerate)
    run.start()
    steps = 0
    try:
        while not run.finished():
            en = run.enabled()
            if not en:
                if run.finished():
                    break
                run.end = "deadlock"
                break
            names = sorted(en)
            if bias == "slow-consumer" and "parent" in en and en["parent"][0] == "yield" and len(names) > 1 and rnd.random() < 0.9:
                names.remove("parent")
            elif bias == "eager-parent" and "parent" in en and rnd.random() < 0.7:
                names = ["parent"]
            elif bias == "workers-first" and len(names) > 1 and "parent" in en and rnd.random() < 0.8:
                names.remove("parent")
            run.step(rnd.choice(names))
            steps += 1
            if steps > max_steps:
                run.end = "livelock"
                break
        run.S.settle()
    finally:
        run.close()
    return run
