"""ACL structures (rules [pat tokens, kids, glob, cd, gen]) -> ACL text for annet, and seeded generators of ACLs."""
from . import cases


def default_cd(pat):
    """the built-in default: rules whose text starts with `interface` are not deletable"""
    return cases.tok_text(pat[0]).startswith("interface")


def acl_text(rules, depth=0, explicit_cd=True):
    out = []
    for r in rules:
        line = " ".join(cases.tok_text(t) for t in r["pat"])
        params = []
        if r["glob"]:
            params.append("%global")
        if r.get("cd_explicit") is not None:
            params.append("%%cant_delete=%d" % (1 if r["cd_explicit"] else 0))
        out.append("    " * depth + line + ("  " + " ".join(params) if params else ""))
        out += acl_text(r["kids"], depth + 1)
    return out


def lit(w):
    return {"t": "lit", "w": w, "wl": w.lower()}


def mk(pat, kids=(), glob=False, cd=None, gen="g"):
    """cd None = leave the default"""
    r = {"pat": pat, "kids": list(kids), "glob": glob, "gen": gen, "cd_explicit": cd}
    r["cd"] = default_cd(pat) if cd is None else cd
    return r


def judge_view(rules):
    return [{"pat": r["pat"], "kids": judge_view(r["kids"]), "glob": r["glob"], "cd": r["cd"], "gen": r["gen"]} for r in rules]


def with_gen(rules, gen):
    return [dict(r, gen=gen, kids=with_gen(r["kids"], gen)) for r in rules]


def random_acl(rnd, words, prefix, depth=3, gen="g"):
    """random ACL over a small word alphabet: literals, *, ~, %global, %cant_delete, negated rule texts"""
    out = []
    for _ in range(rnd.randint(1, 3)):
        n = rnd.randint(1, 3)
        pat = [rnd.choice([lit(w) for w in words] + [{"t": "star"}]) for _ in range(n)]
        if rnd.random() < 0.25:
            pat.append({"t": "tilde"})
        if rnd.random() < 0.08:
            pat = [lit(prefix)] + pat
        if rnd.random() < 0.06:
            pat = [lit("interface")] + pat
        glob = rnd.random() < 0.15
        cd = rnd.choice([None, None, None, True, False])
        kids = random_acl(rnd, words, prefix, depth - 1, gen) if depth > 1 and not glob and rnd.random() < 0.6 else []
        out.append(mk(pat, kids, glob, cd, gen))
    return out


def acl_from_rulebook(rnd, rules, keys=("1", "2"), gen="g", p=0.7):
    """slot-closed ACL for a catalogue rulebook: a subset of its rule patterns, stars optionally bound to a concrete key word"""
    out = []
    for r in rules:
        if r.get("ign") or rnd.random() > p:
            continue
        pat = []
        for t in r["pat"]:
            if t["t"] == "star" and rnd.random() < 0.3:
                pat.append(lit(rnd.choice(keys)))
            else:
                pat.append(t)
        kids = [] if r["glob"] else acl_from_rulebook(rnd, r["kids"], keys, gen, p)
        out.append(mk(pat, kids, r["glob"], rnd.choice([None, None, True, False]), gen))
    return out
