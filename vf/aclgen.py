"""ACL structures (rules [pat tokens, kids, glob, cd, gen]) -> ACL text for annet, and seeded generators of ACLs."""
from . import cases


def default_cd(pat):
    """the built-in default: rules whose text starts with `interface` are not deletable"""
    return cases.tok_text(pat[0]).startswith("interface")


def acl_text(rules, depth=0, explicit_cd=True):
    out = []
    for r in rules:
        line = " ".join(cases.tok_text(t) for t in r["pat"])
        params = []
        if r["glob"]:
            params.append("%global")
        if r.get("cd_explicit") is not None:
            params.append("%%cant_delete=%d" % (1 if r["cd_explicit"] else 0))
        out.append("    " * depth + line + ("  " + " ".join(params) if params else ""))
        out += acl_text(r["kids"], depth + 1)
    return out


def lit(w):
    return {"t": "lit", "w": w, "wl": w.lower()}


def mk(pat, kids=(), glob=False, cd=None, gen="g"):
    """cd None = leave the default"""
    r = {"pat": pat, "kids": list(kids), "glob": glob, "gen": gen, "cd_explicit": cd}
    r["cd"] = default_cd(pat) if cd is None else cd
    return r


def judge_view(rules):
    return [{"pat": r["pat"], "kids": judge_view(r["kids"]), "glob": r["glob"], "cd": r["cd"], "gen": r["gen"]} for r in rules]


def with_gen(rules, gen):
    return [dict(r, gen=gen, kids=with_gen(r["kids"], gen)) for r in rules]


def random_acl(rnd, words, prefix, depth=3, gen="g"):
    """random ACL over a small word alphabet: literals, *, ~, %global, %cant_delete, negated rule texts"""
    out = []
    for _ in range(rnd.randint(1, 3)):
        n = rnd.randint(1, 3)
        pat = [rnd.choice([lit(w) for w in words] + [{"t": "star"}]) for _ in range(n)]
        if rnd.random() < 0.25:
            pat.append({"t": "tilde"})
        if rnd.random() < 0.08:
            pat = [lit(prefix)] + pat
        if rnd.random() < 0.06:
            pat = [lit(rnd.choice(["interface", "interfaces", "interface-range"]))] + pat
        glob = rnd.random() < 0.15
        cd = rnd.choice([None, None, None, True, False])
        kids = random_acl(rnd, words, prefix, depth - 1, gen) if depth > 1 and not glob and rnd.random() < 0.6 else []
        out.append(mk(pat, kids, glob, cd, gen))
    return out


def acl_from_rulebook(rnd, rules, keys=("1", "2"), gen="g", p=0.7):
    """slot-closed ACL for a catalogue rulebook: a subset of its rule patterns, stars optionally bound to a concrete key word"""
    out = []
    for r in rules:
        if r.get("ign") or rnd.random() > p:
            continue
        pat = []
        for t in r["pat"]:
            if t["t"] == "star" and rnd.random() < 0.3:
                pat.append(lit(rnd.choice(keys)))
            else:
                pat.append(t)
        kids = [] if r["glob"] else acl_from_rulebook(rnd, r["kids"], keys, gen, p)
        out.append(mk(pat, kids, r["glob"], rnd.choice([None, None, True, False]), gen))
    return out


def instance(rnd, pat, words):
    """a row instantiating a pattern (set tokens are not used by the ACL generators)"""
    row = []
    for t in pat:
        if t["t"] == "lit":
            row.append(t["w"])
        elif t["t"] == "star":
            row.append(rnd.choice(words))
        elif t["t"] == "tilde":
            row += [rnd.choice(words) for _ in range(rnd.randint(1, 2))]
    return row


def overlap_acl(rnd, words, prefix, gen="g"):
    """ACL level on which ONE row is matched by several rules of different generality (literal / `*` / `~`), one of them possibly
    %global, or by a rule and by the written-out negation of another; returns (rules, a row they all match)"""
    row = [rnd.choice(words) for _ in range(rnd.randint(2, 3))]
    shapes = [[lit(w) for w in row],
              [lit(row[0])] + [{"t": "star"}] * (len(row) - 1),
              [{"t": "star"}] + [lit(w) for w in row[1:]],
              [lit(row[0]), {"t": "tilde"}],
              [{"t": "star"}] * len(row)]
    rnd.shuffle(shapes)
    n = rnd.randint(2, 4)
    rules = []
    gl = rnd.randrange(n) if rnd.random() < 0.6 else -1
    for k, pat in enumerate(shapes[:n]):
        if k == gl:
            rules.append(mk(pat, [], True, rnd.choice([None, True, False]), gen))
        else:
            rules.append(mk(pat, random_acl(rnd, words, prefix, 2, gen) if rnd.random() < 0.8 else [], False, rnd.choice([None, None, True, False]), gen))
    if rnd.random() < 0.4:
        # a protected rule and, further down, the explicit negated line of the same words (two generators' ACLs put together)
        base = [lit(w) for w in row]
        rules.insert(rnd.randrange(len(rules) + 1), mk(base, [], False, True, gen))
        if rnd.random() < 0.6:
            rules.append(mk([lit(prefix)] + base, [], False, rnd.choice([None, False]), gen))
        else:
            # no written-out negation, but a catch-all of another generator: the negated line is still the protected rule's business
            rules = [r for r in rules if any(t["t"] == "lit" for t in r["pat"])]
            rules.append(mk([{"t": "tilde"}], [], rnd.random() < 0.5, None, gen))
        if rnd.random() < 0.7:
            row = [prefix] + row
    rnd.shuffle(rules) if rnd.random() < 0.5 else None
    return rules, row


def tree_for(rnd, rules, words, prefix, depth=3, must=None):
    """a tree whose rows mostly instantiate the rules of their level (plus strangers), `must` is placed at the top level"""
    t, seen = [], set()
    rows = [must] if must else []
    for r in rules:
        if rnd.random() < 0.7:
            rows.append(instance(rnd, r["pat"], words))
        if rnd.random() < 0.1:
            rows.append([prefix] + instance(rnd, r["pat"], words))
    if rnd.random() < 0.3:
        rows.append([rnd.choice(words) for _ in range(rnd.randint(1, 3))])
    rnd.shuffle(rows)
    for row in rows:
        if not row or tuple(row) in seen:
            continue
        seen.add(tuple(row))
        kids = []
        if depth > 1:
            below = [k for r in rules for k in r["kids"]] + [r for r in rules if r["glob"]]
            kids = tree_for(rnd, below, words, prefix, depth - 1) if below or rnd.random() < 0.3 else []
        t.append({"row": row, "kids": kids})
    return t
