"""C16 — file mode and device mode compute the same diff and the same patch.

The law is an equality between two outputs of the implementation (DESIGN.md C16): TLA+ contributes the judge (spec/FrontEnds.tla,
Trace_FrontEnds) and the enumerated/sampled domain; the shipped rulebooks are used as they are.
Inputs: the repository's (before,after) corpus, its per-vendor cross products, random trees assembled from the corpus blocks, and the
file workers (file_patch_worker / file_diff_worker) on files written to a scratch directory.
"""
import json
import os
import types
from collections import OrderedDict as od

from .. import core
from .. import cases
from .. import corpus
from .. import annetenv as E


_W = [0]


def both(hw, fmt, old, new, files=None):
    """the two front ends are called separately (an error of one must be an error of the other); with `files` = (old path, new path) the
    file worker is driven on disk as well: the SAME two paths are rewritten in place for every case of the run"""
    from annet import api
    dev = E.device(hw)
    from annet import patching
    from annet.annlib.diff import gen_pre_as_diff
    out = {"fcmds": [], "dcmds": [], "fdiff": [], "ddiff": [], "ferr": False, "derr": False, "wlines": [], "dlines": [], "fview": [], "dview": [], "wview": [], "dview2": [], "plines": []}
    dpatch = None
    try:
        ddiff, dpatch = api._diff_and_patch(dev, E.cp(old), E.cp(new), None, None, False)
        out["dcmds"], out["ddiff"] = cases.jpaths(fmt.cmd_paths(dpatch)), cases.jdiff(ddiff)
        out["dview"] = [ln.split() for ln in gen_pre_as_diff(patching.make_pre(ddiff), False, "  ", True)]
    except Exception as e:
        out["derr"], out["dexc"] = True, repr(e)
    try:
        _rb, fdiff, _pre, fpatch = api._read_old_new_diff_patch(E.cp(old), E.cp(new), hw, False)
        out["fcmds"], out["fdiff"] = cases.jpaths(fmt.cmd_paths(fpatch)), cases.jdiff(fdiff)
        # what `annet file-diff` prints comes from the grouped diff this front end hands back
        out["fview"] = [ln.split() for ln in gen_pre_as_diff(_pre, False, "  ", True)]
    except Exception as e:
        out["ferr"], out["fexc"] = True, repr(e)
    if files is not None and dpatch is not None and not out["ferr"]:
        vfmt = E.registry().match(hw).make_formatter()
        # a dump may carry a common leading offset on every line (a fragment pasted from a larger file): the reader subtracts it
        _W[0] += 1
        margin = "  " if _W[0] % 3 == 0 else ""
        for path, t in zip(files, (old, new)):
            with open(path, "w") as f:
                f.write("\n".join(margin + ln for ln in vfmt.join(t).split("\n")))
        args = types.SimpleNamespace(hw=hw, add_comments=False, indent="  ")
        from annet.annlib import tabparser
        try:
            # device mode on what the two files hold NOW (read back independently of the worker)
            held = [tabparser.parse_to_tree(open(path).read(), vfmt.split) for path in files]
            _d2, dpatch2 = api._diff_and_patch(dev, held[0], held[1], None, None, False)
        except Exception:
            return out                 # the text does not parse back / device mode refuses it: nothing to compare the worker with
        try:
            res = list(api.file_patch_worker(files, args))
            text = res[0][1] if res else ""
            out["wlines"] = [ln.split() for ln in text.split("\n") if ln.strip()]
            out["dlines"] = [ln.split() for ln in api._format_patch_blocks(dpatch2, hw, "  ").split("\n") if ln.strip()]
            # `annet patch` itself: the production worker (res_diff_patch -> _diff_and_patch -> _format_patch_blocks) on the same pair
            from annet.types import OldNewResult
            from annet import gen as anngen
            from .. import genrun
            pdev = genrun.Dev(hw)
            saved_on = anngen.old_new
            anngen.old_new = lambda *a, **k: iter([OldNewResult(device=pdev, old=E.cp(held[0]), new=E.cp(held[1]))])
            try:
                pargs = types.SimpleNamespace(config="running", clear=False, acl_safe=False, add_comments=False, indent="  ")
                pres = list(api._patch_worker(1, pargs, None, None, None))
            finally:
                anngen.old_new = saved_on
            ptext = pres[0][1] if pres else ""
            out["plines"] = [ln.split() for ln in ptext.split("\n") if ln.strip()]
            # ... and `annet file-diff` (file_diff_worker) prints the device-mode diff of what the files hold
            dargs = types.SimpleNamespace(hw=hw, show_rules=False, indent="  ", no_color=True)
            dres = list(api.file_diff_worker(files, dargs))
            dtext = dres[0][1] if dres else ""
            out["wview"] = [ln.split() for ln in dtext.split("\n") if ln.strip()]
            out["dview2"] = [ln.split() for ln in "".join(gen_pre_as_diff(patching.make_pre(_d2), False, "  ", True)).split("\n") if ln.strip()]
        except Exception as e:
            out["ferr"], out["fexc"] = True, "file_patch_worker: " + repr(e)
    return out


def mix(rnd, pool):
    """random tree assembled from blocks of the corpus (rows and sub-blocks of the shipped rule words)"""
    t = od()
    for _ in range(rnd.randint(1, 6)):
        row, kids = rnd.choice(pool)
        t[row] = thin(rnd, kids)
    return t


def thin(rnd, kids):
    out = od()
    for k, v in kids.items():
        if rnd.random() < 0.7:
            out[k] = thin(rnd, v)
    return out


def signature(rec, verdict):
    return None


def run(ctx):
    E.init()
    from annet.vendors import registry_connector
    quick = ctx.tier == "quick"
    rnd = ctx.rng
    ctx.cov["rule"] = ("(hardware, old, new) over the shipped rulebooks: corpus samples, per-vendor cross products before x after, random trees "
                       "assembled from corpus blocks; non-trivial = distinct cases whose device-mode patch has at least one command")
    ctx.assumptions += ["no ACL, implicit defaults off, add_comments off", "equality of two implementation outputs: the TLA+ part is the judge and the domain, not a model"]
    # design-level model of the two compositions with a patch logic that looks at the whole group of its key
    r = ctx.mc("mc/MC_FrontEnds.tla", "mc/MC_FrontEnds.cfg", workers=2)
    if r.violated:
        ctx.reject("mc", "FrontEnds model: %s" % r.violated, {"tlc": r.out[-2000:]}, None)
    r = ctx.mc("mc/MC_FrontEnds.tla", "mc/MC_FrontEnds_regress.cfg", workers=2, expect_ok=False)
    if "Agree" not in r.violated:
        raise core.Machinery("anti-vacuity: stripping before grouping (the pre-repair file mode) no longer breaks Agree in the model")
    ctx.cov["mc_runs"][-1]["expected"] = "Agree violated (regression instance: strip_unchanged before make_pre)"
    samples = corpus.samples()
    byv = {}
    for s in samples:
        byv.setdefault(s[1], []).append(s)
    recs = []

    files = (os.path.join(ctx.scratch, "old.cfg"), os.path.join(ctx.scratch, "new.cfg"))

    def add(tag, vendor, hw, old, new, disk=None):
        fmt = registry_connector.get().match(hw).make_formatter(indent="")
        rec = {"id": "%s-%d" % (tag, len(recs)), "vendor": vendor, "old": cases.jtree(old), "new": cases.jtree(new)}
        try:
            rec.update(both(hw, fmt, old, new, files if (disk or (disk is None and len(recs) % 3 == 0)) else None))
        except Exception as e:
            rec.update({"fcmds": [], "dcmds": [], "fdiff": [], "ddiff": [], "ferr": True, "derr": True, "wlines": [], "dlines": [], "fview": [], "dview": [], "wview": [], "dview2": [], "plines": [],
                        "exc": repr(e)})
        recs.append(rec)
        ctx.count()
        if rec["dcmds"]:
            ctx.nontrivial(json.dumps([vendor, rec["old"], rec["new"]]))

    for (name, vendor, hw, old, new) in samples:
        add("corpus", vendor, hw, old, new)
        add("corpus-rev", vendor, hw, new, old)
    cross_cap = 1500 if quick else 40000
    for vendor, ss in byv.items():
        pairs = [(a, b) for a in ss for b in ss if a is not b]
        if len(pairs) > cross_cap // max(1, len(byv)) * 3:
            pairs = rnd.sample(pairs, cross_cap // max(1, len(byv)) * 3)
        for a, b in pairs:
            add("cross", vendor, a[2], a[3], b[4])
        pool = []
        for s in ss:
            for t in (s[3], s[4]):
                pool += list(t.items())
        for _ in range(150 if quick else 3000):
            add("mix", vendor, ss[0][2], mix(rnd, pool), mix(rnd, pool))
    # rules whose logic reads the lines of its key that do NOT change (VLAN lists spread over several lines, list lines next to blocks):
    # the configurations of C11's rule families
    from . import c11
    U = [2, 3, 4, 6, 7, 10, 11, 20]
    for fam in c11.FAMILIES:
        hw = E.hwview(fam.model, "")
        for _ in range(60 if quick else 1500):
            so, sn = set(rnd.sample(U, rnd.randint(1, 6))), set(rnd.sample(U, rnd.randint(0, 6)))
            lo = [[str(x)] for x in sorted(so)]
            keep = [ln for ln in lo if rnd.random() < 0.5]          # lines carried over verbatim
            ln = keep + [[str(x)] for x in sorted(sn) if [str(x)] not in keep]
            kw = {}
            if getattr(fam, "blocks", False):
                kw = {"blocks": sorted(rnd.sample(sorted(so), min(len(so), rnd.randint(0, 2))))}
            old = fam.build([fam.sep.join(x) for x in lo], **kw) if kw else fam.build([fam.sep.join(x) for x in lo])
            new = fam.build([fam.sep.join(x) for x in ln], **({"blocks": []} if kw else {}))
            add("vlanfam", hw.vendor, hw, old, new)
    ctx.sample({"vendor": recs[0]["vendor"], "old": recs[0]["old"], "new": recs[0]["new"], "device_mode_cmds": recs[0]["dcmds"]})
    # a line ends at "\n" and nowhere else: descriptions holding a form feed, U+2028 or a lone carriage return stay one row in both front ends
    hwh = E.hwview("Huawei CE6870", "")
    for ch in ("\u2028", "\x0c", "\x85", "\r"):
        add("oddchar", "huawei", hwh, od([("interface 10GE1/0/1", od([("description uplink%s(see ticket)" % ch, od()), ("mtu 9000", od())]))]),
            od([("interface 10GE1/0/1", od([("description uplink%s(see ticket)" % ch, od()), ("mtu 1500", od())]))]), disk=True)
    # inputs on which a rule logic raises (a legal line the cisco VLAN logic refuses): both front ends must fail alike
    for model in ("Cisco Catalyst C3750", "Cisco Nexus 9336"):
        hw = E.hwview(model, "")
        iface = "interface GigabitEthernet1/0/1" if "Catalyst" in model else "interface Ethernet1/1"
        for lo, ln in ((["switchport trunk allowed vlan 2-4"], ["switchport trunk allowed vlan all"]),
                       (["switchport trunk allowed vlan all"], ["switchport trunk allowed vlan 2-4"]),
                       (["switchport trunk allowed vlan 2-4", "description x"], ["switchport trunk allowed vlan all", "description y"])):
            add("raises", hw.vendor, hw, od([("hostname a", od()), (iface, od((r, od()) for r in lo))]),
                od([("hostname b", od()), (iface, od((r, od()) for r in ln))]))
    slim = [{k: r[k] for k in ("id", "fcmds", "dcmds", "fdiff", "ddiff", "ferr", "derr", "wlines", "dlines", "fview", "dview", "wview", "dview2", "plines")} for r in recs]
    verd = ctx.judge("trace/Trace_FrontEnds.tla", "trace/Trace.cfg", slim, shards=16)
    for r in recs:
        v = verd[r["id"]]
        if r.get("ferr") and r.get("derr"):
            ctx.skip("annet raised in both front ends: %s" % (r.get("dexc") or r.get("exc") or "")[:60])
        if v[0] != "ok":
            ctx.reject(r["id"], "%s at position %s" % (v[0], v[1]), r, signature_of(r, v))


def signature_of(r, v):
    k = v[1] - 1
    a = r["fcmds"][k] if 0 <= k < len(r["fcmds"]) else None
    b = r["dcmds"][k] if 0 <= k < len(r["dcmds"]) else None
    for p in (a, b):
        if p and "99999999" in p[-1]:
            return "huawei prefix-list stub (index 99999999) emitted in one front end only"
    return None
