"""C07 — rule patterns mean what the rule language says, in every rulebook kind.

MC  : spec/mc/MC_RuleLang — laws of the rule language on every (pattern,row) in bounds (reverse form recognised with the same key,
      double negation, key arity, prefix monotonicity, word boundaries).
S2C : the patterns and rows TLC enumerated are rendered to rule text and rows; the full product is run through
      syntax.compile_row_regexp / patching._make_reverse / acl._make_reverse and through the four rulebook compilers.
C2S : spec/trace/Trace_RuleLang judges every real (matched, key, reverse text, reverse-form recognition) against RuleLang.
plus: every rule line of every shipped rulebook (rendered per hardware) and of implicit rules, lexed into tokens, rows synthesised
      and mutated; seeded random patterns over a larger alphabet with (?i), `...`, <name>.
"""
import itertools
import json
import re

from .. import core
from .. import annetenv as E

PLAIN = re.compile(r"[A-Za-z0-9_\-:/,=@]+\Z")


# ---------------------------------------------------------------- rendering of spec tokens to rule text (trusted printer)
def render_pat(toks):
    out = []
    for t in toks:
        if t["t"] == "lit":
            out.append(t["w"])
        elif t["t"] == "star":
            out.append("*")
        elif t["t"] == "set":
            out.append(t.get("src") or "*/(%s)/" % "|".join(t["S"]))
        elif t["t"] == "tilde":
            out.append("~")
        elif t["t"] == "more":
            out.append("...")
    return " ".join(out)


def respace(text, rnd):
    words = text.split(" ")
    out = words[0]
    for w in words[1:]:
        out += rnd.choice(["  ", "\t", " \t ", "   ", " "]) + w
    return out


# ---------------------------------------------------------------- lexer of shipped rule rows into tokens
class Outside(Exception):
    pass


def regex_ok_single_word(src):
    """a sub-regex is usable as a one-word predicate only if it cannot match across blanks"""
    if re.search(r"\[\^|\\s|\\W|\\D| ", src):
        return False
    outside_classes = re.sub(r"\[[^\]]*\]", "", src)      # a dot inside [...] is a literal dot
    if re.search(r"(?<!\\)\.", outside_classes):
        return False
    return True


def lex_rule_row(row, alphabet_extra=(), flags=0):
    """row text (params already cut) -> (tokens, icase, alphabet). Raises Outside(reason) for constructs beyond the token language."""
    icase = bool(flags & re.IGNORECASE)
    if "(?i)" in row:
        row = row.replace("(?i)", "")
        icase = True
    words = row.split()
    if not words:
        raise Outside("empty")
    if "~/" in row:
        raise Outside("~/re/")
    if "$" in row or "^" in row.replace("[^", ""):
        raise Outside("anchor inside the row")
    for w in words:
        depth = 0
        for ch in w:
            if ch in "([":
                depth += 1
            elif ch in ")]":
                depth -= 1
            elif ch == "|" and depth == 0:
                raise Outside("alternation spanning words")
    has_star = "*" in row
    toks = []
    lits = []
    frag = []
    for w in words:
        frag += re.findall(r"[A-Za-z0-9_\-:/]+", w)
    alphabet = []

    def add(x):
        if x and x not in alphabet and " " not in x:
            alphabet.append(x)
    for w in words:
        if PLAIN.match(w) and not w.endswith("..."):
            add(w)
            add(w[:-1])
            add(w + "x")
            add(w.swapcase())
    for f in frag:
        add(f)
    for x in ("x1", "10", "GigabitEthernet0/0/1", "Vlanif10", "foo-bar", "A_b", "100GE1/0/1", "Eth-Trunk1", "ipv4", "on") + tuple(alphabet_extra):
        add(x)
    rf = re.IGNORECASE if icase else 0
    for k, w in enumerate(words):
        last = k == len(words) - 1
        if w == "*":
            toks.append({"t": "star"})
        elif w == "~":
            if not last:
                raise Outside("mid-row ~")
            toks.append({"t": "tilde"})
        elif w == "...":
            if not last:
                raise Outside("mid-row ...")
            toks.append({"t": "more"})
        elif w.startswith("*/") and w.endswith("/") and len(w) > 3:
            src = w[2:-1]
            if not regex_ok_single_word(src):
                raise Outside("regex may span blanks")
            try:
                rx = re.compile("(?:%s)" % re.sub(r"\(([^\?])", r"(?:\1", src), rf)
            except re.error:
                raise Outside("bad regex")
            if rx.groups:
                raise Outside("nested capture")
            toks.append({"t": "set", "S": [a for a in alphabet if rx.fullmatch(a)], "cap": True, "src": w})
        elif re.fullmatch(r"<\w+>", w):
            toks.append({"t": "set", "S": [a for a in alphabet if re.fullmatch(r"\w+", a)], "cap": True, "src": w})
        elif last and w.endswith("...") and PLAIN.match(w[:-3]):
            pre = w[:-3]
            toks.append({"t": "set", "S": [a for a in alphabet if (a.lower().startswith(pre.lower()) if icase else a.startswith(pre))],
                         "cap": False, "src": w})
        elif PLAIN.match(w):
            toks.append({"t": "lit", "w": w, "wl": w.lower()})
        else:
            # regex-literal word
            if w.startswith("*"):
                raise Outside("star glued to text")
            if "(" in w and not has_star:
                raise Outside("capturing group without *")
            if not regex_ok_single_word(w):
                raise Outside("regex may span blanks")
            src = re.sub(r"\(([^\?])", r"(?:\1", w) if has_star else w
            try:
                rx = re.compile(src, rf)
            except re.error:
                raise Outside("bad regex")
            if rx.groups:
                raise Outside("capturing group without *")
            toks.append({"t": "set", "S": [a for a in alphabet if rx.fullmatch(a)], "cap": False, "src": w})
    return toks, icase, alphabet


def cut_params(raw):
    """independent lexer for `row %param=..`: the row is everything before the first word starting with %"""
    out = []
    for w in raw.split():
        if w.startswith("%"):
            break
        out.append(w)
    row = " ".join(out)
    ign = False
    if row.startswith("!"):
        ign = True
        row = row[1:].strip()
    return row, ign


def synth_rows(toks, alphabet, rnd, n=6):
    """rows derived from a pattern: instances and near misses"""
    rows = []
    for _ in range(n):
        r = []
        ok = True
        for t in toks:
            if t["t"] == "lit":
                r.append(t["w"])
            elif t["t"] == "star":
                r.append(rnd.choice(alphabet))
            elif t["t"] == "set":
                if not t["S"]:
                    ok = False
                    break
                r.append(rnd.choice(t["S"]))
            elif t["t"] in ("tilde", "more"):
                r += [rnd.choice(alphabet) for _ in range(rnd.randint(1, 3))]
        if not ok or not r:
            continue
        rows.append(list(r))
        m = rnd.random()
        r2 = list(r)
        if m < 0.2 and len(r2) > 1:
            r2.pop()
        elif m < 0.4:
            r2.append(rnd.choice(alphabet))
        elif m < 0.6:
            k = rnd.randrange(len(r2))
            r2[k] = r2[k] + "x"
        elif m < 0.75:
            k = rnd.randrange(len(r2))
            r2[k] = r2[k].swapcase()
        elif m < 0.9:
            k = rnd.randrange(len(r2))
            r2[k] = rnd.choice(alphabet)
        else:
            k = rnd.randrange(len(r2))
            if len(r2[k]) > 1:
                r2[k] = r2[k][:-1]
        rows.append(r2)
    return rows


def word_in_alphabet(toks, row, alphabet):
    """set tokens are tables over the alphabet: rows must stay inside it at set positions"""
    # (the negated pattern shifts positions by one, so every word has to be inside the table's alphabet)
    if any(t["t"] == "set" for t in toks):
        return all(w in alphabet for w in row)
    return True


# ---------------------------------------------------------------- observation of the real code
def observe(kind, text, toks, icase, prefix, row, flags=0, vendor=None, compiled=None):
    try:
        return _observe(kind, text, toks, icase, prefix, row, flags, vendor, compiled)
    except Exception as e:   # annet raised on an in-domain (pattern,row): recorded, judged as a rejection by the driver
        return {"m": False, "key": [], "hasrev": False, "rev": [], "hasrm": False, "rm": False, "exc": repr(e)}


def _observe(kind, text, toks, icase, prefix, row, flags=0, vendor=None, compiled=None):
    """returns the record fields m, key, hasrev, rev, hasrm, rm for one (pattern text, row)"""
    from annet.annlib.rbparser import syntax, acl as aclmod
    from annet.rulebook import patching as rbp
    rowtext = " ".join(row)
    rec = {"hasrev": False, "rev": [], "hasrm": False, "rm": False}
    if kind == "syntax":
        rx = syntax.compile_row_regexp(text, flags)
        m = rx.match(rowtext)
        rec["m"] = bool(m)
        rec["key"] = [g.split() for g in m.groups()] if m else []
        # (?i), <name> and `...` have no defined place in a removal command: the reverse clause is not judged for them
        if m and all(g is not None for g in m.groups()) and "(?i)" not in text and "<" not in text and "..." not in text:
            rev = rbp._make_reverse(text, prefix, flags=rx.flags)
            try:
                rec["rev"] = rev.format(*m.groups()).split()
                rec["hasrev"] = True
            except (IndexError, KeyError, ValueError):
                rec["rev"] = ["<format-error>"]
                rec["hasrev"] = True
        rrx = syntax.compile_row_regexp(aclmod._make_reverse(text, prefix), flags)
        # a rule written `(?i)undo ...` is not seen as "already negated" (the flag text hides the negation word): not judged
        rec["hasrm"] = not ("(?i)" in text and text.replace("(?i)", "").startswith(prefix + " "))
        rec["rm"] = bool(rrx.match(rowtext))
    else:
        rule = compiled
        if kind == "patching":
            m = rule["attrs"]["regexp"].match(rowtext)
            rec["m"] = bool(m)
            rec["key"] = [g.split() for g in m.groups()] if m else []
            if m and "reverse" in rule["attrs"]:
                try:
                    rec["rev"] = rule["attrs"]["reverse"].format(*m.groups()).split()
                except (IndexError, KeyError, ValueError):
                    rec["rev"] = ["<format-error>"]
                rec["hasrev"] = True
        elif kind in ("acl", "ordering"):
            m = rule["attrs"]["direct_regexp"].match(rowtext)
            rec["m"] = bool(m)
            rec["key"] = [g.split() for g in m.groups()] if m else []
            rec["hasrm"] = True
            rec["rm"] = bool(rule["attrs"]["reverse_regexp"].match(rowtext))
        elif kind == "deploying":
            m = rule["attrs"]["regexp"].match(rowtext)
            rec["m"] = bool(m)
            rec["key"] = [g.split() for g in m.groups()] if m else []
    return rec


def run(ctx):
    E.init()
    from annet.annlib.rbparser import syntax
    from annet.annlib.rbparser.acl import compile_acl_text
    from annet.annlib.rbparser.ordering import compile_ordering_text
    from annet.rulebook.patching import compile_patching_text
    from annet.rulebook.deploying import compile_deploying_text
    quick = ctx.tier == "quick"
    rnd = ctx.rng
    ctx.cov["rule"] = ("(pattern,row) pairs: the full product of TLC-enumerated patterns x rows, plus rows synthesised/mutated from every "
                       "shipped rule line, plus seeded random patterns; non-trivial = distinct (pattern,row) whose P-layer verdict is a match "
                       "with a non-empty key or a near miss (row differs from an instance in one word)")
    ctx.assumptions += ["words are separated by single blanks", "single-word sub-regex tables (re.fullmatch over the candidate alphabet) are trusted",
                        "literal words are [A-Za-z0-9_-:/,=@]+ (other words are treated as one-word regex tables or skipped)"]
    recs = []

    def emit(kind, pat, icase, prefix, row, obs, tag):
        rid = "%s-%d" % (tag, len(recs))
        rec = {"id": rid, "kind": kind, "pat": [{k: v for k, v in t.items() if k != "src"} for t in pat], "icase": icase, "prefix": prefix,
               "row": row, "rowl": [w.lower() for w in row], "text": render_pat(pat)}
        rec.update(obs)
        recs.append(rec)
        ctx.count()
        if obs["m"] and obs["key"]:
            ctx.nontrivial((rec["text"], " ".join(row)))
        return rec

    # ---------------- MC + S2C
    for prefix, vend in (("undo", "huawei"), ("no", "cisco")):
        cfgname = "MC_RuleLang_%s.cfg" % ("quick" if quick else "thorough")
        px = {"undo": "undox", "no": "notify"}[prefix]
        cfg = open(core.SPEC + "/mc/" + cfgname).read().replace('Prefix = "undo"', 'Prefix = "%s"' % prefix).replace('"undox"', '"%s"' % px)
        if not quick and prefix == "no":
            cfg = open(core.SPEC + "/mc/MC_RuleLang_quick.cfg").read().replace('Prefix = "undo"', 'Prefix = "no"').replace('"undox"', '"notify"')
        cfgp = ctx.scratch + "/rl_%s.cfg" % prefix
        open(cfgp, "w").write(cfg)
        r = ctx.mc("mc/MC_RuleLang.tla", cfgp, name="%s[%s]" % (cfgname, prefix), workers=4 if quick else 16, heap="8g")
        if r.violated:
            ctx.reject("mc-%s" % prefix, "rule-language law violated in the model: %s" % r.violated, {"tlc": r.out[-3000:]}, None)
            continue
        pats = [json.loads(c[0])["p"] for c in core.parse_tagged(r.out, "PAT")]
        rows = [json.loads(c[0])["row"] for c in core.parse_tagged(r.out, "ROW")]
        if not pats or not rows or (len(pats) * len(rows) + len(pats) + 1) != r.distinct:
            raise core.Machinery("S2C emission incomplete: %d patterns %d rows, %d states" % (len(pats), len(rows), r.distinct))
        ctx.sample({"kind": "s2c", "pattern": render_pat(pats[len(pats) // 2]), "row": rows[len(rows) // 2], "prefix": prefix})
        # full product through the bare compiler; a sampled product through the four rulebook compilers
        # (TLC has checked the laws on the whole product; the real code sees the whole product where it fits the cap, a seeded sample otherwise)
        cap = 90000 if quick else 500000
        total = len(pats) * len(rows)
        idx = range(total) if total <= cap else sorted(rnd.sample(range(total), cap))
        if total > cap:
            ctx.cov["exhaustive"] = False
        for x in idx:
            pi, ri = divmod(x, len(rows))
            p = pats[pi]
            text = render_pat(p)
            emit("syntax", p, False, prefix, rows[ri], observe("syntax", text, p, False, prefix, rows[ri]), "s2c")
        for pi, p in enumerate(pats):
            text = render_pat(p)
            # a rule line is a sequence of words: how its author separated them (several blanks, tabs, hand-aligned columns) carries no
            # meaning; every other pattern reaches the compilers in such a spelling
            if pi % 2 and len(p) > 1:
                text = respace(text, rnd)
            comp = {}
            try:
                comp["patching"] = list(compile_patching_text(text + "\n", vend)["local"].values())[0]
                comp["acl"] = list(compile_acl_text(text + "\n", vend)["local"].values())[0]
                comp["ordering"] = list(compile_ordering_text(text + "\n", vend).values())[0]
                comp["deploying"] = list(compile_deploying_text(text + "\n", vend).values())[0]
            except Exception as e:  # a pattern the compilers refuse is a finding of its own
                ctx.reject("compile-%s" % text, "compiler refused a pattern of the rule language: %r" % e, {"text": text}, None)
                continue
            # an exception line of a filter ACL (`!row`, compiled with allow_ignore as --filter-acl does) is the same pattern: it
            # recognises its line and the negated form of its line like any other rule
            ign = None
            if pi % 3 == 0:
                try:
                    ign = list(compile_acl_text("!" + text + "\n", vend, allow_ignore=True)["local"].values())[0]
                except Exception as e:
                    ctx.reject("compile-ign-%s" % text, "compiler refused an exception line of a filter ACL: %r" % e, {"text": text}, None)
            for row in rnd.sample(rows, 12 if quick else 60):
                for kind, c in comp.items():
                    emit(kind, p, False, prefix, row, observe(kind, text, p, False, prefix, row, compiled=c), "rb")
                if ign is not None:
                    emit("acl", p, False, prefix, row, observe("acl", text, p, False, prefix, row, compiled=ign), "rbign")
            # the same rule declared case-insensitive (%ignore_case): matching folds case, the key and the removal command keep the
            # words of the line; rules with several placeholders included
            ncap = sum(1 for t in p if t["t"] in ("star", "tilde") or (t["t"] == "set" and t.get("cap")))
            if ncap >= 3 or pi % 5 == 0:
                try:
                    cic = list(compile_patching_text(text + "  %ignore_case\n", vend)["local"].values())[0]
                except Exception as e:
                    ctx.reject("compile-ic-%s" % text, "compiler refused %%ignore_case on a pattern of the rule language: %r" % e, {"text": text}, None)
                    continue
                for row in rnd.sample(rows, 8 if quick else 40):
                    row2 = [w.upper() if rnd.random() < 0.3 else w for w in row]
                    emit("patching", p, True, prefix, row2, observe("patching", text, p, True, prefix, row2, compiled=cic), "rbic")

    # ---------------- several rules in one text: each keeps its own flags ((?i) on the first line says nothing about the lines below it)
    if True:
        prefix, vend = "undo", "huawei"
        lits = [p for p in pats if p and p[0]["t"] == "lit" and p[0]["w"] != prefix]
        for k in range(150 if quick else 3000):
            trio, firsts = [], set()
            for p in rnd.sample(lits, min(len(lits), 12)):
                if p[0]["w"] not in firsts and len(trio) < 3:
                    firsts.add(p[0]["w"])
                    trio.append(p)
            if len(trio) < 2:
                continue
            texts = [render_pat(p) for p in trio]
            flagged = rnd.randrange(len(trio))
            body = "\n".join(("(?i)" if i == flagged else "") + t for i, t in enumerate(texts)) + "\n"
            try:
                comp = list(compile_patching_text(body, vend)["local"].values())
            except Exception as e:
                ctx.reject("multi-%d" % k, "compiler refused a text of several rules: %r" % e, {"text": body}, None)
                continue
            if len(comp) != len(trio):
                continue
            for i, p in enumerate(trio):
                for row in rnd.sample(rows, 6):
                    for r2 in (row, [w.upper() for w in row]):
                        obs = observe("patching", texts[i], p, i == flagged, prefix, r2, compiled=comp[i])
                        if i == flagged:
                            obs["hasrev"] = False
                        emit("patching", p, i == flagged, prefix, r2, obs, "multi")
    # ---------------- flags: one row text compiled with and without case folding in the same process, in both orders
    # (the compilers are cached per process; (?i) / %ignore_case must be honoured whatever was compiled before)
    nfl = 60 if quick else 400
    for k in range(nfl):
        w1, w2 = "Fl%dA" % k, rnd.choice(["b", "Bx", "c-D"])
        text = "%s %s *" % (w1, w2)
        toks = [{"t": "lit", "w": w1, "wl": w1.lower()}, {"t": "lit", "w": w2, "wl": w2.lower()}, {"t": "star"}]
        rows_fl = [[w1, w2, "x"], [w1.swapcase(), w2, "x"], [w1, w2.swapcase(), "y", "z"], [w1.lower(), w2.lower(), "Q"]]
        seq = [False, True] if k % 2 else [True, False]
        if k % 3 == 0:
            for ic in seq:
                for row in rows_fl:
                    emit("syntax", toks, ic, "undo", row, observe("syntax", text, toks, ic, "undo", row, flags=(re.IGNORECASE if ic else 0)), "flags")
        else:
            for ic in seq:
                if ic:
                    comp = list(compile_patching_text(text + " %ignore_case\n", "huawei")["local"].values())[0]
                    kind = "patching"
                else:
                    comp = (list(compile_ordering_text(text + "\n", "huawei").values())[0] if k % 3 == 1
                            else list(compile_acl_text(text + "\n", "huawei")["local"].values())[0])
                    kind = "ordering" if k % 3 == 1 else "acl"
                for row in rows_fl:
                    emit(kind, toks, ic, "undo", row, observe(kind, text, toks, ic, "undo", row, compiled=comp), "flags")

    # ---------------- shipped rule lines
    from annet.rulebook import get_rulebook
    from annet import implicit
    lines = {}   # (kind, vendor, row text, icase flags) -> compiled rule

    def walk_patching(rules, vend):
        for sect in ("local", "global"):
            for raw, rule in rules[sect].items():
                lines.setdefault(("patching", vend, raw), rule)
                if rule.get("children"):
                    walk_patching(rule["children"], vend)

    def walk_simple(kind, rules, vend):
        for raw, rule in rules.items():
            lines.setdefault((kind, vend, raw), rule)
            if rule.get("children"):
                walk_simple(kind, rule["children"], vend)
    hw_variants = dict(E.HW)
    hw_variants.update({"huawei-ne": "Huawei NE40E", "huawei-s": "Huawei S5700", "cisco-cat": "Cisco Catalyst C2960",
                        "arista2": "Arista DCS-7050", "nexus2": "Cisco Nexus 3172"})
    for vname, model in hw_variants.items():
        hw = E.hwview(model, "")
        try:
            rb = get_rulebook(hw)
        except Exception as e:
            ctx.skip("rulebook does not load for %s: %r" % (model, e))
            continue
        walk_patching(rb["patching"], hw.vendor)
        walk_simple("ordering", rb["ordering"], hw.vendor)
        walk_simple("deploying", rb["deploying"], hw.vendor)
    n_lines = n_skipped = 0
    per_line = 4 if quick else 16
    for (kind, vend, raw), rule in sorted(lines.items(), key=lambda kv: kv[0]):
        row, ign = cut_params(raw)
        if kind == "ordering":
            row, ign = cut_params(rule["attrs"]["raw_rule"])
        prefix = E.vendor(vend).reverse
        rx = rule["attrs"].get("regexp") or rule["attrs"].get("direct_regexp")
        flags = rx.flags & re.IGNORECASE
        try:
            toks, icase, alphabet = lex_rule_row(row, flags=flags)
        except Outside as o:
            ctx.skip("shipped rule line outside the token language: %s" % o)
            n_skipped += 1
            continue
        n_lines += 1
        for r in synth_rows(toks, alphabet, rnd, per_line):
            if not word_in_alphabet(toks, r, alphabet):
                continue
            obs = observe(kind, row, toks, icase, prefix, r, compiled=rule)   # `!` rules carry no reverse template
            if "..." in row or "<" in row or "(?i)" in row:
                obs["hasrev"] = False
            emit(kind, toks, icase, prefix, r, obs, "ship-%s" % vend)
    ctx.cov["shipped_rule_lines_judged"] = n_lines
    ctx.cov["shipped_rule_lines_skipped"] = n_skipped
    # implicit rules share the compiler
    # ---------------- seeded random patterns with (?i), `...`, <name>, regex words, over a larger alphabet
    alpha = ["a", "b", "c", "ab", "A", "Ab", "x1", "10", "ge-0/0/1", "undo", "no", "foo", "Foo", "bar", "notify", "undox", "no-x", "delete", "deletex", "-", "-x"]
    nrand = 1500 if quick else 20000
    for _ in range(nrand):
        n = rnd.randint(1, 4)
        words = []
        for k in range(n):
            x = rnd.random()
            if x < 0.45:
                words.append(rnd.choice(alpha))
            elif x < 0.65:
                words.append("*")
            elif x < 0.8:
                words.append(rnd.choice(["*/(a|b)/", "*/\\d+/", "*/[a-c]+/", "*/(?:foo|bar)/", "*/ge-\\S+/"]))
            elif x < 0.88:
                words.append("<n%d>" % k)
            else:
                words.append(rnd.choice(["(a|b)", "fo+", "ab?"]))
        tail = rnd.random()
        if tail < 0.2:
            words.append("~")
        elif tail < 0.27:
            words.append("...")
        elif tail < 0.34 and PLAIN.match(words[-1]):
            words[-1] = words[-1] + "..."
        text = " ".join(words)
        if rnd.random() < 0.25:
            text = "(?i)" + text
        prefix = rnd.choice(["undo", "no", "delete", "-"])
        try:
            toks, icase, alphabet = lex_rule_row(text, alphabet_extra=alpha)
        except Outside as o:
            ctx.skip("random pattern outside the token language: %s" % o)
            continue
        for r in synth_rows(toks, alphabet, rnd, 3):
            if not word_in_alphabet(toks, r, alphabet):
                continue
            emit("syntax", toks, icase, prefix, r, observe("syntax", text, toks, icase, prefix, r), "rnd")
            recs[-1]["text"] = text
    # ---------------- a placeholder's regex may itself contain slashes (interface names): it ends at the LAST slash of its word, for the
    # matcher and for the removal template alike (the shipped rules of this shape carry anchors or logics that hide the template)
    slash_texts = ["interface */(GigabitEthernet0/0/1|100GE1/0/1)/", "interface */[A-Za-z0-9]+/[0-9/]+/ mode *", "port */ge-\\d/\\d/\\d+/",
                   "link */(ge-0/0/1|xe-1/2)/ ~", "lag * member */\\w+/\\d/\\d/", "*/[a-z]+-[0-9/]+/ up", "trunk */1/[0-9]+/ */2/[0-9]+/"]
    slash_alpha = ["ge-0/0/1", "ge-1/2/30", "xe-1/2", "1/7", "2/40", "GigabitEthernet0/0/1", "100GE1/0/1", "Eth1/2", "ae1", "x1", "10"]
    for text in slash_texts:
        for vend in ("huawei", "cisco", "juniper"):
            prefix = E.vendor(vend).reverse
            try:
                toks, icase, alphabet = lex_rule_row(text, alphabet_extra=slash_alpha)
            except Outside as o:
                raise core.Machinery("slash tier: pattern left the token language: %s (%s)" % (text, o))
            comp = {"patching": list(compile_patching_text(text + "\n", vend)["local"].values())[0],
                    "acl": list(compile_acl_text(text + "\n", vend)["local"].values())[0],
                    "ordering": list(compile_ordering_text(text + "\n", vend).values())[0]}
            for r in synth_rows(toks, alphabet, rnd, 6 if quick else 40):
                if not word_in_alphabet(toks, r, alphabet):
                    continue
                emit("syntax", toks, icase, prefix, r, observe("syntax", text, toks, icase, prefix, r), "slash")
                for kind, c in comp.items():
                    emit(kind, toks, icase, prefix, r, observe(kind, text, toks, icase, prefix, r, compiled=c), "slash")
    ctx.sample({"kind": "shipped/random", "pattern": recs[-1]["text"], "row": recs[-1]["row"], "matched": recs[-1]["m"], "key": recs[-1]["key"]})
    slim = [{k: v for k, v in r.items() if k not in ("text", "kind")} for r in recs]
    verd = ctx.judge("trace/Trace_RuleLang.tla", "trace/Trace.cfg", slim, shards=16)
    bykind = {}
    for r in recs:
        v = verd[r["id"]][0]
        if "exc" in r:
            v = "annet raised on a legal pattern: " + r["exc"]
        bykind[r["kind"]] = bykind.get(r["kind"], 0) + 1
        if v != "ok":
            ctx.reject(r["id"], v, r, None)
    ctx.cov["records_by_kind"] = bykind
