"""C06 — ACL filtering selects exactly the covered lines and nothing else.

P-layer : spec/Acl.tla (existential coverage; Lower/Upper bands so that annet's tie-break between competing rules is not judged).
S2C/C2S : seeded ACL structures (random over a word alphabet, and slot-closed ACLs derived from the TLA+ rulebook catalogue) are printed to
          ACL text and compiled with compile_acl_text; trees are TLC-enumerated Configs(R) (catalogue) and random trees; the real
          apply_acl (plain, repeated, fatal_acl=True), filter_acl.filter_config and the merged-ACL law are judged by spec/trace/Trace_Acl.
"""
import json
from collections import OrderedDict as od

from .. import core
from .. import cases
from .. import aclgen
from .. import annetenv as E


def run(ctx):
    E.init()
    from annet.annlib.rbparser.acl import compile_acl_text
    from annet.annlib.patching import apply_acl, AclError
    from annet.annlib import filter_acl
    quick = ctx.tier == "quick"
    rnd = ctx.rng
    ctx.cov["rule"] = ("(ACL, tree) and (ACL A, ACL B, tree): seeded random ACL structures over a word alphabet and slot-closed ACLs derived from the "
                       "catalogue rulebooks, trees random / TLC-enumerated Configs(R); non-trivial = distinct cases where the filter passes some but not all rows")
    ctx.assumptions += ["bands: Lower(t) <= apply_acl(t) <= Upper(t); equality is demanded only where no two different rules/forms compete",
                        "ACL text is printed from the structure by a trusted printer; the built-in cant_delete default is the documented `interface` prefix"]
    recs = []
    words = ["a", "b", "c"]

    # a word that merely BEGINS with the letters of the vendor's negation word is an ordinary word
    PX = {"undo": "undox", "no": "node"}

    def rnd_tree(d, prefix, words=words):
        t = []
        if d == 0:
            return t
        seen = set()
        for _ in range(rnd.randint(0, 3)):
            row = [rnd.choice(words) for _ in range(rnd.randint(1, 3))]
            if rnd.random() < 0.1:
                row = [prefix] + row
            if rnd.random() < 0.05:
                row = ["interface"] + row
            if tuple(row) in seen:
                continue
            seen.add(tuple(row))
            t.append({"row": row, "kids": rnd_tree(d - 1, prefix, words)})
        return t

    def observe_filter(tag, vendor, prefix, acl, tj):
        text = "\n".join(aclgen.acl_text(acl)) + "\n"
        rec = {"id": "%s-%d" % (tag, len(recs)), "kind": "filter", "prefix": prefix, "acl": aclgen.judge_view(acl), "t": tj, "acl_text": text}
        try:
            comp = compile_acl_text(text, vendor)
            t = cases.tree(tj)
            out = apply_acl(t, comp)
            out2 = apply_acl(out, comp)
            try:
                apply_acl(t, comp, fatal_acl=True)
                raised = False
            except AclError:
                raised = True
            rec.update({"out": cases.jtree(out), "out2": cases.jtree(out2), "raised": raised})
        except Exception as e:
            rec.update({"out": [], "out2": [], "raised": False, "exc": repr(e)})
        recs.append(rec)
        ctx.count()
        # library entry points: annet.annlib.filter_acl.make_acl / filter_config work on TEXT (parse, filter, print); the same judge
        # decides what they return (cases whose tree survives the text round trip of the vendor's formatter)
        if len(recs) % 3 == 0 and "exc" not in rec:
            from annet.annlib import filter_acl, tabparser
            fmt = E.registry()[vendor].make_formatter()
            try:
                cfg_text = fmt.join(cases.tree(tj))
                if cases.jtree(tabparser.parse_to_tree(cfg_text, fmt.split)) == tj:
                    lib_acl = filter_acl.make_acl(text, vendor)
                    o1 = filter_acl.filter_config(lib_acl, fmt, cfg_text)
                    o2 = filter_acl.filter_config(lib_acl, fmt, o1)
                    lrec = dict(rec, id=rec["id"] + "-lib", out=cases.jtree(tabparser.parse_to_tree(o1, fmt.split)),
                                out2=cases.jtree(tabparser.parse_to_tree(o2, fmt.split)))
                    recs.append(lrec)
                    ctx.count()
            except Exception as e:
                recs.append(dict(rec, id=rec["id"] + "-lib", out=[], out2=[], exc="filter_config: " + repr(e)))
        n_in = sum(1 for _ in _paths(tj))
        n_out = sum(1 for _ in _paths(rec["out"]))
        if 0 < n_out < n_in:
            ctx.nontrivial(json.dumps([rec["acl_text"], tj]))

    def observe_merge(tag, vendor, prefix, a, b, tj):
        ta, tb = "\n".join(aclgen.acl_text(a)) + "\n", "\n".join(aclgen.acl_text(b)) + "\n"
        rec = {"id": "%s-%d" % (tag, len(recs)), "kind": "merge", "prefix": prefix, "a": aclgen.judge_view(a), "b": aclgen.judge_view(b), "t": tj,
               "acl_text": ta + "--\n" + tb}
        try:
            t = cases.tree(tj)
            xa = apply_acl(t, compile_acl_text(ta, vendor))
            xb = apply_acl(t, compile_acl_text(tb, vendor))
            # the merged ACL: plain concatenation of the two texts, or -- every other case -- annet's own merger for the ACLs of several
            # generators (RunGeneratorResult.acl_text(): each text comes with the indentation of the source it was written in)
            if len(recs) % 2:
                from .c02 import combined_text
                merged_text = combined_text(rnd, [("A", a), ("B", b)])
            else:
                merged_text = ta + tb
            xab = apply_acl(t, compile_acl_text(merged_text, vendor))
            rec.update({"xa": cases.jtree(xa), "xb": cases.jtree(xb), "xab": cases.jtree(xab)})
        except Exception as e:
            rec.update({"xa": [], "xb": [], "xab": [], "exc": repr(e)})
        recs.append(rec)
        ctx.count()

    n1 = 2500 if quick else 40000
    for k in range(n1):
        vendor, prefix = rnd.choice([("huawei", "undo"), ("cisco", "no")])
        wd = words + [PX[prefix]] if k % 3 == 0 else words
        acl = aclgen.random_acl(rnd, wd, prefix)
        observe_filter("rnd", vendor, prefix, acl, rnd_tree(3, prefix, wd))
        if k % 2 == 0:
            observe_merge("mrg", vendor, prefix, aclgen.random_acl(rnd, wd, prefix, gen="A"), aclgen.random_acl(rnd, wd, prefix, gen="B"),
                          rnd_tree(3, prefix, wd))
    # targeted: a rule on such a word, and in the tree both the plain line and its negated form (`no node 2` is covered by `node *`)
    for k in range(40 if quick else 400):
        vendor, prefix = rnd.choice([("huawei", "undo"), ("cisco", "no")])
        px = PX[prefix]
        tail = rnd.choice([[{"t": "star"}], [{"t": "tilde"}], [aclgen.lit("a"), {"t": "star"}]])
        acl = [aclgen.mk([aclgen.lit(px)] + tail, [], False, rnd.choice([None, False]), "g")] + aclgen.random_acl(rnd, words, prefix, 2)
        rows = [[px] + [rnd.choice(words) for _ in range(len(tail))], [prefix, px] + [rnd.choice(words) for _ in range(len(tail))]]
        if tail[0].get("w") == "a":
            rows = [[px, "a", "b"], [prefix, px, "a", "c"]]
        t = rnd_tree(2, prefix) + [{"row": r, "kids": []} for r in rows]
        seen, t2 = set(), []
        for n in t:
            if tuple(n["row"]) not in seen:
                seen.add(tuple(n["row"]))
                t2.append(n)
        observe_filter("px", vendor, prefix, acl, t2)
    # one row, several rules: specific and general rules, a %global one among them, a rule and the written-out negation of another
    for k in range(1500 if quick else 25000):
        vendor, prefix = rnd.choice([("huawei", "undo"), ("cisco", "no")])
        # (words may hold a `%` glued to their text -- `50%`, `fe80::1%Vlanif10` -- which is part of the word, not a rule parameter)
        wds = words + ["50%", "fe80::1%Vlanif10"] if k % 4 == 0 else words
        rules, row = aclgen.overlap_acl(rnd, wds, prefix)
        extra = aclgen.random_acl(rnd, wds, prefix, 2) if rnd.random() < 0.3 else []
        acl = rules + extra
        observe_filter("ovl", vendor, prefix, acl, aclgen.tree_for(rnd, acl, wds, prefix, 3, must=row))
        if k % 3 == 0:
            cut = rnd.randrange(1, len(rules)) if len(rules) > 1 else 1
            observe_merge("ovlmrg", vendor, prefix, aclgen.with_gen(rules[:cut], "A"), aclgen.with_gen(rules[cut:] + extra, "B") or aclgen.random_acl(rnd, words, prefix, gen="B"),
                          aclgen.tree_for(rnd, acl, wds, prefix, 3, must=row))
    # catalogue-derived ACLs on TLC-enumerated configurations
    for prof in (["huawei"] if quick else ["huawei", "cisco", "arista"]):
        cat = cases.Catalog(ctx, prof)
        for k in range(1, len(cat.entries) + 1):
            cs = cat.configs[k]
            for _ in range(150 if quick else 2500):
                acl = aclgen.acl_from_rulebook(rnd, cat.entries[k - 1]["rules"])
                if not acl:
                    continue
                observe_filter("cat-%s" % prof, cat.vendor, cat.prefix, acl, rnd.choice(cs))
            for _ in range(60 if quick else 1200):
                a = aclgen.acl_from_rulebook(rnd, cat.entries[k - 1]["rules"], gen="A", p=0.5)
                b = aclgen.acl_from_rulebook(rnd, cat.entries[k - 1]["rules"], gen="B", p=0.5)
                if a and b:
                    observe_merge("catmrg-%s" % prof, cat.vendor, cat.prefix, a, b, rnd.choice(cs))
    ctx.sample({"acl": recs[0]["acl_text"], "tree": recs[0]["t"], "passed": recs[0].get("out")})
    slim = [{k: v for k, v in r.items() if k not in ("acl_text", "exc")} for r in recs]
    verd = ctx.judge("trace/Trace_Acl.tla", "trace/Trace.cfg", slim, shards=16)
    for rec in recs:
        v = verd[rec["id"]]
        if "exc" in rec:
            ctx.reject(rec["id"], "annet raised: " + rec["exc"], rec, None)
        elif v[0] != "ok":
            sig = None
            if v[0] == "merged-acl-drops-what-one-acl-passes" and v[1] == "competing-rules":
                sig = "merge law: at some level of the lost path two different rules/forms of A+B match the same row (competition)"
            ctx.reject(rec["id"], v[0], rec, sig)


def _paths(t):
    for n in t:
        yield 1
        yield from _paths(n["kids"])
