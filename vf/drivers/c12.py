"""C12 — the worker pool returns exactly one result per submitted id.

MC  : spec/Pool.tla via spec/mc/MC_Pool_*.cfg: all interleavings of parent x workers x two queues for small N/W/quota, raising sets,
      tolerate_fails; invariants NoDup/AllDelivered/RaiseJustified/NoSilentFailure, liveness Terminates under per-process weak fairness.
      The pre-repair loop (Drain = FALSE) is kept as a regression instance that MUST violate AllDelivered (anti-vacuity).
S2C : `tlc -simulate` behaviours of Pool (one TLC action = one scheduler grant) are replayed step by step into the real, unmodified
      Parallel.irun / pool_worker through the turn-based scheduler (vf/sched.py); the projected state is compared after every step.
C2S : seeded random schedules of the real code over a grid (n, pool, quota, raising ids, tolerate_fails, consumer/parent bias) are
      recorded as event traces and validated by spec/trace/Trace_Pool.tla (every event an enabled Pool action; P-layer at the end).
real: the same grid through real multiprocessing with wall-clock task durations / consumer delays, final outcome judged by the P-layer.
"""
import json
import os
import random
import subprocess
import sys
import time
import concurrent.futures as cf

from .. import core
from .. import sched

QUICK_MC = ["q_n3w2m2", "q_n3w2m1_raise", "q_n3w2_notol"]
THOROUGH_MC = ["t_n4w3m1", "t_n4w3", "t_n4w2m2_notol", "t_n5w2m2"]


def tla_set(s):
    return "{" + ", ".join(str(x) for x in sorted(s)) + "}"


def sim_cfg(n, w, m, raises, tol):
    return ("CONSTANTS\n  N = %d\n  W = %d\n  MaxTasks = %d\n  Raises = %s\n  Tolerate = %s\n  Drain = TRUE\n"
            "SPECIFICATION Spec\nACTION_CONSTRAINT Emit\n" % (n, w, m, tla_set(raises), "TRUE" if tol else "FALSE"))


def load_behaviours(out):
    behs = []
    cur = None
    for el in core.parse_tagged(out, "ST"):
        st = json.loads(el[0])
        if st["lvl"] == 1:
            cur = []
            behs.append(cur)
        if cur is not None:
            cur.append(st)
    return behs


def replay_behaviour(beh, n, w, m, raises, tol, rnd):
    """replay one TLC behaviour into the real irun; returns (status, detail, run)"""
    run = sched.PoolRun(n, w, m, raises, tol)
    run.start()
    S = run.S
    status, detail = "ok", None
    try:
        for k, st in enumerate(beh):
            a, arg = st["act"], st["arg"]
            S.settle()
            want = None
            if a in ("tget", "put"):
                want = ("Worker-%d" % (arg - 1), lambda o, a=a: o[0] == a)
            elif a == "exit":
                want = ("Worker-%d" % (arg - 1), lambda o: o[0] == "exit")
            elif a == "dget":
                want = ("parent", lambda o: o[0] == "dget")
            elif a == "exitcode":
                want = ("parent", lambda o, arg=arg: o == ("exitcode", "Worker-%d" % (arg - 1)))
            elif a == "yield":
                want = ("parent", lambda o, arg=arg: o == ("yield", arg))
            elif a == "start":
                want = ("parent", lambda o, arg=arg: o == ("start", "Worker-%d" % (arg - 1)))
            elif a == "raise":
                guard = 0
                while not run.finished() and guard < 100:
                    S.settle()
                    if "parent" not in S.waiting:
                        break
                    run.step("parent")
                    guard += 1
                S.settle()
            if want is not None:
                name, pred = want
                op = S.waiting.get(name)
                if op is None or not pred(op) or name not in run.enabled():
                    status, detail = "grant", {"step": k, "spec_action": [a, arg], "code_waiting": {x: list(map(str, y)) for x, y in S.waiting.items()}}
                    break
                run.step(name)
            pr = run.proj()
            spec = {"taskQ": st["taskQ"], "doneQ": st["doneQ"], "ws": [("exit0" if x == "gone" else x) for x in st["ws"]],
                    "delivered": st["delivered"]}
            if pr != spec:
                status, detail = "state", {"step": k, "spec": spec, "code": pr}
                break
        if status == "ok":
            last = beh[-1]["ppc"]
            S.settle()
            if last in ("done", "raised") and not run.finished():
                status, detail = "notdone", {"spec_ppc": last, "code_waiting": {x: list(map(str, y)) for x, y in S.waiting.items()}}
            if last not in ("done", "raised") and run.finished():
                status, detail = "endedearly", {"spec_ppc": last, "code_end": run.end}
        # drive the real run to completion (random fair schedule) so that the P-layer can judge it whatever happened above
        steps = 0
        while not run.finished():
            en = run.enabled()
            if not en:
                run.end = "deadlock"
                break
            run.step(rnd.choice(sorted(en)))
            steps += 1
            if steps > 200 * n + 3000:
                run.end = "livelock"
                break
        S.settle()
    finally:
        run.close()
    return status, detail, run


def judge_pool(ctx, groups):
    """groups: {(n,w,m,raises tuple,tol): [records]} -> {id: verdict list}; one TLC run per constant set (Pool's CONSTANTS)"""
    tpl = open(os.path.join(core.SPEC, "trace", "Trace_Pool.cfg.tpl")).read()
    jobs = []
    for key, recs in groups.items():
        n, w, m, raises, tol = key
        d = os.path.join(ctx.scratch, "pool_%d_%d_%d_%s_%d" % (n, w, m, "-".join(map(str, raises)) or "x", tol))
        os.makedirs(d, exist_ok=True)
        cfg = tpl.replace("@N@", str(n)).replace("@W@", str(w)).replace("@M@", str(m)).replace("@R@", tla_set(raises)).replace(
            "@T@", "TRUE" if tol else "FALSE")
        open(os.path.join(d, "t.cfg"), "w").write(cfg)
        json.dump({"traces": recs}, open(os.path.join(d, "traces.json"), "w"))
        jobs.append((key, d, recs))
    verdicts = {}
    t0 = time.time()
    tot_states = 0

    def one(job):
        key, d, recs = job
        r = core.run_tlc(os.path.join(core.SPEC, "trace", "Trace_Pool.tla"), os.path.join(d, "t.cfg"), workdir=ctx.scratch,
                         workers=1, timeout=1200, env={"TRACE_FILE": os.path.join(d, "traces.json")}, heap="2g")
        return job, r
    with cf.ThreadPoolExecutor(max_workers=core.NCPU) as ex:
        for (key, d, recs), r in ex.map(one, jobs):
            if not r.ok:
                raise core.Machinery("Trace_Pool failed for %r (rc=%d):\n%s" % (key, r.rc, r.out[-3000:]))
            tot_states += r.distinct
            ctx.cov["transitions"] += r.generated
            for el in core.parse_tagged(r.out, "V"):
                if el[0] in verdicts and verdicts[el[0]] != el[1:]:
                    raise core.Machinery("conflicting verdicts for %r: %r vs %r" % (el[0], verdicts[el[0]], el[1:]))
                verdicts[el[0]] = el[1:]
            for rec in recs:
                if rec["id"] not in verdicts:
                    raise core.Machinery("no verdict for trace %r in group %r\n%s" % (rec["id"], key, r.out[-1500:]))
    ntr = sum(len(j[2]) for j in jobs)
    ctx.cov["traces_validated_against_impl"] += ntr
    ctx.cov["states"] += tot_states
    ctx.cov["judge_runs"].append({"spec": "Trace_Pool.tla", "records": ntr, "constant_sets": len(jobs), "tlc_states": tot_states,
                                  "wall_s": round(time.time() - t0, 1)})
    ctx.log("JUDGE Trace_Pool: %d traces in %d constant sets, %d states, %.1fs" % (ntr, len(jobs), tot_states, time.time() - t0))
    return verdicts


# ---- real multiprocessing tier (runs in a subprocess so that a hang cannot take the check down)
REAL_CHILD = r"""
import sys, json, time, logging
logging.disable(logging.CRITICAL)
n, w, m, raises, tol, tdur, cdelay, unpick, userun = json.loads(sys.argv[1])
import annet.parallel as P
raises = set(raises) - set(unpick)
unpick = set(unpick)
attempts = {}
def f(i):
    time.sleep(tdur * ((i * 7) % 5) / 4.0)
    k = attempts[i] = attempts.get(i, 0) + 1
    if i in unpick:
        return {"id": i, "callback": (lambda: i)}      # a value that cannot be sent to the parent: the id must come back as a failure
    if i in raises:
        if i % 2:
            raise BrokenPipeError("task %d: network failure on every attempt" % i)
        raise ValueError("task %d failed" % i)
    if i % 5 == 3 and k <= i % 3 + 1:
        raise ConnectionResetError("task %d: transient network failure, attempt %d" % (i, k))
    return i * 10
out = []; end = "done"; exc = ""
try:
    p = P.Parallel(f).tune(parallel=w, max_tasks=m)
    if userun:
        # Parallel.run: the caller gets two dicts, successes and failures (and an error when it asked for a strict exit code)
        try:
            success, fail = p.run(list(range(1, n + 1)), tol, userun == 2)
            for k, v in success.items():
                out.append({"id": k, "val": v if isinstance(v, int) else -1, "failed": False})
            for k, v in fail.items():
                out.append({"id": k, "val": -1, "failed": True})
        except RuntimeError as e:
            if userun == 2 and str(e).startswith("failed for"):
                end = "strict"; exc = str(e)
            else:
                raise
    else:
        for r in p.irun(list(range(1, n + 1)), tol):
            out.append({"id": r.device_id, "val": r.result if isinstance(r.result, int) else -1, "failed": r.exc is not None})
            time.sleep(cdelay)
except BaseException as e:
    end = "raised"; exc = type(e).__name__
print("RESULT " + json.dumps({"end": end, "out": out, "exc": exc}))
"""


def real_run(args):
    p = subprocess.run([sys.executable, "-c", REAL_CHILD, json.dumps(args)], stdout=subprocess.PIPE, stderr=subprocess.DEVNULL,
                       timeout=600, cwd=os.environ.get("VERIF_REPO", "/repo"))
    for line in p.stdout.decode().splitlines():
        if line.startswith("RESULT "):
            return json.loads(line[7:])
    raise core.Machinery("real-process run produced no result: %r rc=%d" % (args, p.returncode))


def retry_cases(ctx):
    """inside one worker: the retry loop around the task.  MC_Retry enumerates (net_retry, what the task does on its k-th call); each
    case is run through the real invoke_retry in four exception flavours and judged by Trace_Retry (P-layer of spec/Retry.tla)"""
    import annet.parallel as P
    r = ctx.mc("mc/MC_Retry.tla", "mc/MC_Retry.cfg", workers=1)
    if r.violated:
        ctx.reject("mc-retry", "Retry model violates %s" % r.violated, {"tlc": r.out[-3000:]}, None)
        return
    cs = [json.loads(c[0]) for c in core.parse_tagged(r.out, "CASE")]
    if len(cs) < 900:
        raise core.Machinery("MC_Retry emitted %d cases" % len(cs))

    class Fatal(Exception):
        pass

    def boom(kind, flavour):
        if kind == "fatal":
            raise Fatal("not a network error")
        if flavour == 0:
            raise BrokenPipeError("pipe")
        if flavour == 1:
            raise ConnectionResetError("reset")
        try:
            raise BrokenPipeError("inner")
        except BrokenPipeError:
            raise RuntimeError("wrapped network error")      # the network error sits in the __context__ chain

    recs = []
    for ci, c in enumerate(cs):
        for flavour in range(4):
            calls = [0]

            def task(dev, _c=c, _f=flavour, _calls=calls):
                _calls[0] += 1
                kind = _c["pat"][_calls[0] - 1] if _calls[0] <= len(_c["pat"]) else "fatal"
                if _f == 3:                 # generator-style task: the body runs when the result is collected
                    def gen():
                        yield dev
                        if kind != "ok":
                            boom(kind, _calls[0] % 3)
                        yield dev * 10
                    return gen()
                if kind != "ok":
                    boom(kind, _f)
                return dev * 10
            try:
                res = P.invoke_retry(task, c["n"], 7)
                outcome, ok = "returned", (res == ([7, 70] if flavour == 3 else 70))
            except (Fatal, BrokenPipeError, ConnectionResetError, RuntimeError):
                outcome, ok = "raised", False
            recs.append({"id": "retry-%d-%d" % (ci, flavour), "n": c["n"], "pat": c["pat"], "outcome": outcome, "calls": calls[0], "value_ok": ok,
                         "flavour": flavour})
            ctx.count()
            if "net" in c["pat"][:c["n"] + 1]:
                ctx.nontrivial(("retry", c["n"], tuple(c["pat"]), flavour))
    verd = ctx.judge("trace/Trace_Retry.tla", "trace/Trace.cfg", recs, shards=4)
    for rec in recs:
        v = verd[rec["id"]][0]
        if v != "ok":
            ctx.reject(rec["id"], v, rec, None)


def run(ctx):
    quick = ctx.tier == "quick"
    rnd = ctx.rng
    ctx.cov["rule"] = ("schedules of the real pool: TLC-simulated behaviours replayed step by step, seeded random schedules over the "
                       "(n, pool, quota, raising ids, tolerate_fails, bias) grid, and wall-clock runs through real processes; non-trivial = distinct "
                       "event sequences in which some worker process exits (quota or STOP) while results are still in the done queue or "
                       "being handed over, or in which a task raises")
    ctx.assumptions += ["no worker is killed from outside", "task_timeout (1800 s) is never reached", "pool size >= 2 in the model "
                        "(pool size 1 is the sequential branch of irun: final outcome judged only)",
                        "the thread-based stand-in for multiprocessing (vf/sched.py) is trusted; real-process runs cross-check it"]
    # ---------------- A. MC
    for c in QUICK_MC + ([] if quick else THOROUGH_MC):
        r = ctx.mc("mc/MC_Pool.tla", "mc/MC_Pool_%s.cfg" % c, workers=core.NCPU, timeout=4 * 3600, coverage=not quick)
        if r.violated:
            ctx.reject("mc-%s" % c, "Pool model violates %s" % r.violated, {"tlc": r.out[-4000:]}, None)
        if r.coverage:
            never = [k for k, v in r.coverage.items() if k.startswith("Pool.") and v[0] == 0]
            ctx.cov.setdefault("actions_never_taken", {})[c] = never
    r = ctx.mc("mc/MC_Pool.tla", "mc/MC_Pool_regress_nodrain.cfg", workers=4, expect_ok=False)
    if "AllDelivered" not in r.violated:
        raise core.Machinery("anti-vacuity: the pre-repair loop (Drain=FALSE) no longer violates AllDelivered in the model")
    ctx.cov["mc_runs"][-1]["expected"] = "AllDelivered violated (regression instance of the pre-repair loop)"
    retry_cases(ctx)
    # ---------------- B. S2C
    sims = [(4, 2, 2, (), True), (3, 2, 1, (2,), True), (4, 3, 0, (), True), (3, 2, 0, (2,), False), (5, 2, 2, (1, 5), True)]
    if not quick:
        sims += [(6, 3, 2, (), True), (5, 3, 1, (3,), False), (8, 2, 3, (), True), (6, 4, 0, (2, 3), True), (7, 3, 2, (7,), False)]
    groups = {}
    nbeh = 60 if quick else 400
    drift = 0
    matched_steps = 0
    for si, (n, w, m, raises, tol) in enumerate(sims):
        cfgp = os.path.join(ctx.scratch, "sim%d.cfg" % si)
        open(cfgp, "w").write(sim_cfg(n, w, m, raises, tol))
        r = ctx.mc("mc/MC_Pool.tla", cfgp, name="simulate N=%d W=%d M=%d R=%s T=%s" % (n, w, m, list(raises), tol), workers=1,
                   simulate="num=%d" % nbeh, depth=40 * n + 60, seed=ctx.seed + si, expect_ok=False)
        behs = load_behaviours(r.out)
        if len(behs) < nbeh // 2:
            raise core.Machinery("simulation produced %d behaviours (wanted %d):\n%s" % (len(behs), nbeh, r.out[-1500:]))
        for bi, beh in enumerate(behs):
            status, detail, prun = replay_behaviour(beh, n, w, m, raises, tol, rnd)
            ctx.count()
            if status == "ok":
                matched_steps += len(beh)
            else:
                drift += 1
                ctx.drift(1, {"config": [n, w, m, list(raises), tol], "kind": status, "detail": detail})
            rec = prun.record("s2c-%d-%d" % (si, bi))
            rec["mode"] = "events"
            groups.setdefault((n, w, m, tuple(raises), tol), []).append(rec)
            note_nontrivial(ctx, rec)
        if si == 0:
            ctx.sample({"kind": "s2c behaviour", "config": {"N": n, "W": w, "MaxTasks": m}, "actions": [[s["act"], s["arg"]] for s in behs[0]][:40]})
    ctx.cov["s2c_steps_matched"] = matched_steps
    # ---------------- C. C2S: seeded random schedules over a grid of constant sets (one TLC judge run per set)
    ncfg = 28 if quick else 160
    per = 26 if quick else 80
    biases = [None, "slow-consumer", "eager-parent", "workers-first"]
    cfgs = []
    for k in range(ncfg):
        if k < 6:
            n = [0, 1, 2, 3, 5, 8][k]
        else:
            n = rnd.randint(2, 12 if quick else 40)
        w = rnd.randint(1, 8)
        m = rnd.choice([0, 1, 1, 2, 2, 3, 5, 25])
        tol = rnd.random() < 0.75
        raises = tuple(sorted(rnd.sample(range(1, n + 1), rnd.choice([0, 0, 1, 1, 2]) if n >= 2 else 0)))
        cfgs.append((n, w, m, raises, tol))
    k = 0
    for (n, w, m, raises, tol) in cfgs:
        weff = min(w, n)
        for _ in range(per if weff > 1 else 3):
            run = sched.explore(n, w, m, raises, tol, rnd, max_steps=300 * n + 3000, bias=rnd.choice(biases))
            ctx.count()
            rec = run.record("c2s-%d" % k)
            k += 1
            if weff <= 1:
                # sequential branch of irun: no pool, only the outcome is judged
                rec["mode"] = "final"
                rec["ev"] = []
            else:
                rec["mode"] = "events"
            groups.setdefault((n, max(weff, 2), m, raises, tol), []).append(rec)
            note_nontrivial(ctx, rec)
    ctx.sample({"kind": "c2s schedule (real code)", "events": [[e["a"], e["w"]] for e in rec["ev"]][:40], "end": rec["end"]})
    # ---------------- D. real processes (same constant sets, wall-clock durations and consumer delays)
    nreal = 16 if quick else 96
    grid = []
    for k in range(nreal):
        n, w, m, raises, tol = rnd.choice([c for c in cfgs if c[0] >= 2])
        # some failing ids fail by RETURNING a value that cannot be pickled (multi-process branch only: pool size >= 2)
        unpick = [i for i in raises if i % 2 == 0] if min(w, n) >= 2 and rnd.random() < 0.6 else []
        grid.append([n, w, m, list(raises), tol, rnd.choice([0.0, 0.004, 0.02]), rnd.choice([0.0, 0.01, 0.05, 0.12]), unpick, rnd.choice([0, 0, 1, 2])])
    grid += [[8, 3, 0, [4], True, 0.0, 0.0, [4], 0], [12, 3, 2, [4, 9], True, 0.004, 0.01, [4, 9], 1], [6, 2, 1, [2], True, 0.0, 0.05, [2], 2],
             [7, 4, 3, [2, 6], False, 0.004, 0.0, [2, 6], 0], [9, 3, 2, [], True, 0.0, 0.0, [], 2], [9, 3, 2, [3, 4], True, 0.0, 0.0, [], 2],
             [5, 1, 0, [2], True, 0.0, 0.0, [], 2], [5, 1, 0, [2], True, 0.0, 0.0, [], 1]]
    nreal = len(grid)
    with cf.ThreadPoolExecutor(max_workers=core.NCPU) as ex:
        for k, (args, res) in enumerate(zip(grid, ex.map(real_run, grid))):
            n, w, m, raises, tol = args[:5]
            ctx.count()
            rec = {"id": "real-%d" % k, "ev": [], "end": res["end"], "out": res["out"], "exc": res["exc"], "mode": "final", "args": args,
                   "viaRun": args[8] > 0, "strict": args[8] == 2}
            groups.setdefault((n, max(2, min(w, n)), m, tuple(raises), tol), []).append(rec)
            if len(res["out"]) > 1:
                ctx.nontrivial(("real", json.dumps(args)))
    ctx.cov["real_process_runs"] = nreal
    verd = judge_pool(ctx, groups)
    for key, recs in groups.items():
        for rec in recs:
            v = verd[rec["id"]]
            if v[0] != "ok":
                sig = signature(key, rec, v)
                ctx.reject(rec["id"], " ".join(map(str, v)), {"constants": {"N": key[0], "W": key[1], "MaxTasks": key[2], "Raises": list(key[3]),
                                                                           "Tolerate": key[4]}, "trace": rec}, sig)


def note_nontrivial(ctx, rec):
    """a worker exits while results are queued / a task fails: count distinct event sequences with such a race"""
    q = 0
    race = False
    for e in rec["ev"]:
        if e["a"] == "put":
            q += 1
        elif e["a"] == "dget" and q > 0:
            q -= 1
        elif e["a"] in ("exit0", "exit9") and q > 0:
            race = True
    if race or any(o["failed"] for o in rec["out"]):
        ctx.nontrivial(json.dumps([[e["a"], e["w"]] for e in rec["ev"]]) + json.dumps(rec["out"]))


def signature(key, rec, verdict):
    if verdict[0] == "returned-while-work-outstanding":
        return "irun returns while the done queue still holds results (all workers reaped, queue non-empty)"
    return None


def replay(ctx, path):   # bin/check C12 --replay <file>
    data = json.load(open(path))["record"]
    c = data["constants"]
    key = (c["N"], c["W"], c["MaxTasks"], tuple(c["Raises"]), c["Tolerate"])
    verd = judge_pool(ctx, {key: [data["trace"]]})
    ctx.count()
    v = verd[data["trace"]["id"]]
    if v[0] != "ok":
        ctx.reject(data["trace"]["id"], " ".join(map(str, v)), data, signature(key, data["trace"], v))
