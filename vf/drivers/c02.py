"""C02 — a patch never touches configuration outside the generators' ACL.

P-layer : spec/Acl.tla (existential coverage, cant_delete) + spec/Device.tla (the device the patch runs on).
S2C/C2S : catalogue rulebooks (TLC-enumerated Configs(R)) x slot-closed ACLs of one or two generators derived from the rulebook x
          (old_full, new); the combined ACL text is made by annet's own RunGeneratorResult.acl_text() from per-generator texts with
          differing source indentation; the production composition api._diff_and_patch(device, old, new, acl, None, False, rb);
          spec/trace/Trace_AclSafety judges (a)(b)(c).
"""
import json

from .. import core
from .. import cases
from .. import aclgen
from .. import annetenv as E


def run(ctx):
    E.init()
    from annet import api
    from annet.annlib.rbparser.acl import compile_acl_text
    quick = ctx.tier == "quick"
    rnd = ctx.rng
    ctx.cov["rule"] = ("(rulebook, ACL of 1-2 generators, old_full, new): Configs(R) enumerated by TLC, ACLs derived from the rulebook (slot-closed); "
                       "non-trivial = distinct cases with a non-empty patch in which old holds at least one row the ACL does not cover")
    ctx.assumptions += ["ACLs are slot-closed w.r.t. the rulebook (an ACL rule is a patching rule pattern, stars optionally bound to a key word)",
                        "device model assumptions of C01", "rulebook logics emit the row or its negation (catalogue logics)"]
    mc_pipeline(ctx, quick)
    profiles = ["huawei", "cisco"] if quick else ["huawei", "cisco", "arista", "h3c", "nexus"]
    per = 260 if quick else 6000
    # outside C02's stated domain ("rulebooks whose logic emits only the row or its negation"):
    #  - catch-all: rows of `undo ~` rules are both a line and a negation;
    #  - %rewrite rulebooks: removal is implicit (the block is re-sent), neither the row nor its negation is emitted for a removed line
    skip_names = {"catch-all", "rewrite", "rewrite-values", "ordered-rewrite", "rewrite-deep", "rewrite-sandwich"}
    for prof in profiles:
        cat = cases.Catalog(ctx, prof)
        aux = cat.aux_file()
        recs = []
        for k in range(1, len(cat.entries) + 1):
            if cat.names[k - 1] in skip_names:
                continue
            cs = cat.configs[k]
            for _ in range(per):
                a = aclgen.acl_from_rulebook(rnd, cat.entries[k - 1]["rules"], gen="genA", p=0.6)
                acl = list(a)
                parts = [("genA", a)]
                if rnd.random() < 0.4:
                    b = aclgen.acl_from_rulebook(rnd, cat.entries[k - 1]["rules"], gen="genB", p=0.4)
                    acl += b
                    parts.append(("genB", b))
                if not acl:
                    continue
                text = combined_text(rnd, parts)
                o, n = rnd.choice(cs), rnd.choice(cs)
                if rnd.random() < 0.15:
                    n = []           # generators return nothing / --clear
                rec = {"id": "%s-%s-%d" % (prof, cat.names[k - 1], len(recs)), "rb": k, "acl": aclgen.judge_view(acl), "old": o, "new": n,
                       "acl_text": text}
                try:
                    comp = compile_acl_text(text, cat.vendor)
                    before = acl_digest(comp)
                    # every third run is additionally given a filter ACL (`--filter-acl`), here one that lets everything through: a filter
                    # can only narrow the patch further, the generators' ACL keeps governing what may be touched and deleted
                    flt = compile_acl_text("~  %global\n", cat.vendor, allow_ignore=True) if len(recs) % 3 == 0 else None
                    d, p = api._diff_and_patch(cat.device, cases.tree(o), cases.tree(n), comp, flt, False, rb=cat.compiled[k - 1])
                    rec["cmds"] = cases.jpaths(cat.formatter.cmd_paths(p))
                    # the compiled ACL is a cached object shared by every later use of that text: a run reads it (and may leave its scratch
                    # `match` field behind), it does not change what the ACL says
                    if acl_digest(comp) != before:
                        rec["exc"] = "the compiled ACL was modified by the run (flags / names / patterns differ afterwards)"
                except Exception as e:
                    rec["cmds"] = []
                    rec["exc"] = repr(e)
                recs.append(rec)
                if rec["cmds"]:
                    ctx.nontrivial(json.dumps([prof, k, text, o, n]))
        # ---- the generator path: the same kind of case through annet.gen._old_new_per_device (real PartialGenerators that yield the
        # ACL-confined part of `new`, the device's running config as text), then _diff_and_patch with what that returned
        from .. import genrun
        for k in range(1, len(cat.entries) + 1):
            if cat.names[k - 1] in skip_names:
                continue
            cs = cat.configs[k]
            for _ in range(25 if quick else 600):
                o, n = rnd.choice(cs), rnd.choice(cs)
                parts = [("genA", aclgen.acl_from_rulebook(rnd, cat.entries[k - 1]["rules"], gen="genA", p=rnd.choice([0.0, 0.5, 0.7])))]
                if rnd.random() < 0.5:
                    parts.append(("genB", aclgen.acl_from_rulebook(rnd, cat.entries[k - 1]["rules"], gen="genB", p=0.4)))
                rec = gen_path_case(ctx, cat, k, parts, o, n, rnd, len(recs))
                if rec is not None:
                    recs.append(rec)
                    if rec["cmds"]:
                        ctx.nontrivial(json.dumps([prof, k, "genpath", rec["acl_text"], o, n]))
        ctx.count(len(recs))
        ctx.sample({"profile": prof, "acl": recs[0]["acl_text"], "old": recs[0]["old"], "new": recs[0]["new"], "cmds": recs[0]["cmds"]}, limit=2)
        slim = [{k: v for k, v in r.items() if k not in ("acl_text", "exc")} for r in recs]
        verd = ctx.judge("trace/Trace_AclSafety.tla", "trace/Trace.cfg", slim, env={"AUX_FILE": aux}, shards=16, name="Trace_AclSafety[%s]" % prof)
        for rec in recs:
            v = verd[rec["id"]][0]
            if "exc" in rec:
                ctx.reject(rec["id"], "annet raised: " + rec["exc"], rec, None)
            elif v != "ok":
                rec["rule_text"] = cat.compiled[rec["rb"] - 1]["text"]
                rec["rulebook"] = cat.names[rec["rb"] - 1]
                ctx.reject(rec["id"], v, rec, signature_of(rec, v, cat.prefix))


def mc_pipeline(ctx, quick):
    """the composed pipeline (spec/Annet.tla): A-layers of apply_acl / make_diff+apply_acl_diff / make_patch / cmd_paths on the P-layer
    device, judged by the P-layer clauses of this property, for every ACL of a rulebook's family x old x ACL-confined new"""
    import os
    base = open(os.path.join(core.SPEC, "mc", "MC_Pipeline.cfg")).read()
    runs = [(9, True, None), (5, True, None), (9, False, "Safe"), (6, True, "Safe")]
    if not quick:
        # (the `flat` entry is out of reach here: 768 configurations squared times 243 ACLs)
        runs += [(4, True, None), (2, True, None), (19, True, None), (20, True, None)]
    for (e, protect, must_fail) in runs:
        cfg = os.path.join(ctx.scratch, "pipe_%d_%d.cfg" % (e, protect))
        open(cfg, "w").write(base.replace("Entry = 4", "Entry = %d" % e).replace("Protect = TRUE", "Protect = %s" % str(protect).upper()))
        r = ctx.mc("mc/MC_Pipeline.tla", cfg, name="MC_Pipeline[entry=%d,protect=%s]" % (e, protect), expect_ok=False, timeout=4 * 3600)
        if must_fail:
            if must_fail not in r.violated:
                raise core.Machinery("anti-vacuity: MC_Pipeline entry %d protect=%s no longer violates %s" % (e, protect, must_fail))
            ctx.cov["mc_runs"][-1]["expected"] = ("Safe violated: " + ("apply_acl_diff without its cant_delete branch (regression instance)" if not protect else
                                                                      "design-level instance of the recorded %ordered-block finding"))
        elif r.violated:
            raise core.Machinery("MC_Pipeline entry %d: %s\n%s" % (e, r.violated, r.out[-1500:]))


def acl_digest(comp):
    from .c20 import canon, digest

    def strip(x):
        if isinstance(x, dict):
            return {k: strip(v) for k, v in x.items() if k != "match"}
        if isinstance(x, list):
            return [strip(v) for v in x]
        return x
    return digest(strip(canon(comp)))


def tree_prog(t):
    """a generator program (vf/genrun.py vocabulary) that yields exactly the paths of a tree"""
    prog = []
    for row, kids in t.items():
        if kids:
            prog.append({"op": "enter", "row": row.split()})
            prog += tree_prog(kids)
            prog.append({"op": "leave"})
        else:
            prog.append({"op": "y", "row": row.split()})
    return prog


def gen_path_case(ctx, cat, k, parts, o, n, rnd, seq):
    from annet import api
    from annet.annlib.rbparser.acl import compile_acl_text
    from annet.annlib.patching import apply_acl, AclNotExclusiveError
    from annet.generators.exceptions import GeneratorError
    from .. import genrun
    gens, acl = [], []
    # `--acl-safe`: every generator also has a narrower "safe" ACL (a sub-forest of its ACL); the run is restricted to it and the patch is
    # then judged against the combined SAFE ACL
    safe_mode = seq % 3 == 0

    def sub_forest(rules):
        out = []
        for r in rules:
            if rnd.random() < 0.6:
                out.append(dict(r, kids=sub_forest(r["kids"])))
        return out
    for name, rules in parts:
        text = "\n" + "".join("    " + ln + "\n" for ln in aclgen.acl_text(rules))
        # what this generator yields: the part of `new` its own ACL covers (annet's own filter used for input shaping only)
        mine = apply_acl(cases.tree(n), compile_acl_text("\n".join(aclgen.acl_text(rules)) + "\n", cat.vendor)) if rules else cases.tree([])
        safe_rules = sub_forest(rules) if safe_mode else rules
        safe_text = "\n" + "".join("  " + ln + "\n" for ln in aclgen.acl_text(safe_rules))
        gens.append(genrun.make_generator(name, tree_prog(mine), text, cat.vendor, acl_safe_text=safe_text if safe_mode else None))
        acl += safe_rules
    dev = genrun.Dev(cat.hw)
    rec = {"id": "%s-%s-gen%s%d" % (cat.profile, cat.names[k - 1], "safe" if safe_mode else "", seq), "rb": k, "acl": aclgen.judge_view(acl), "old": o, "new": n,
           "acl_text": "\n--\n".join("\n".join(aclgen.acl_text(r)) for _n, r in parts)}
    try:
        res = genrun.old_new(dev, gens, running_text=cat.formatter.join(cases.tree(o)), acl_safe=safe_mode)
        if res.err is not None:
            raise res.err
        d, p = api._diff_and_patch(cat.device, res.get_old(safe_mode), res.get_new(safe_mode), res.get_acl_rules(safe_mode), None, False,
                                   rb=cat.compiled[k - 1])
        rec["cmds"] = cases.jpaths(cat.formatter.cmd_paths(p))
    except (AclNotExclusiveError, GeneratorError) as e:
        ctx.skip("generator path: run refused (%s)" % type(e).__name__)
        return None
    except Exception as e:
        rec["cmds"] = []
        rec["exc"] = repr(e)
    return rec


def combined_text(rnd, parts):
    """the combined ACL of the selected generators, made by annet itself (RunGeneratorResult.acl_text) from each generator's own text,
    which comes with the indentation of the source file it was written in"""
    from annet.generators.result import RunGeneratorResult
    from annet.types import GeneratorPartialResult
    res = RunGeneratorResult()
    for name, rules in parts:
        margin = " " * rnd.choice([0, 0, 4, 8, 12])
        t = "\n" + "".join(margin + ln + "\n" for ln in aclgen.acl_text(rules)) + margin
        res.add_partial(GeneratorPartialResult(name=name, tags=[], acl=t, acl_rules=None, acl_safe=t, acl_safe_rules=None, output="", config={},
                                               safe_config={}, perf=None))
    return res.acl_text()


def signature_of(rec, clause, prefix):
    cmds = [tuple(tuple(w) for w in p) for p in rec["cmds"]]
    if clause == "uncovered-line-changed" and rec["rulebook"].startswith("ordered"):
        # a moved %ordered block is removed and re-created: some path holds both `<prefix> R` and `R` under the same parent
        for p in cmds:
            if p[-1][0] == prefix and (p[:-1] + (p[-1][1:],)) in cmds:
                return "%ordered block moved: removed and re-created although its ACL rule is cant_delete / its children are not covered"
    return None
