"""C03 — the diff is a faithful, lossless description of old versus new.

S2C : every (old,new) pair of TLC-enumerated Configs(R) for every catalogue rulebook and vendor profile (all pairs where the square is
      small, a seeded sample otherwise) goes through the real make_diff / strip_unchanged / formatter.diff / gen_pre_as_diff(make_pre()).
C2S : spec/trace/Trace_Diff judges each real diff with the P-layer of spec/Differ.tla (projections, exact ops, unchanged, MOVED clause,
      self-diff, both text views parsed back by the offside rule).
MC   : spec/mc/MC_Diff checks the A-layer transcription of the diff algorithm against the same P-layer on the full squares (drift
      between that transcription and the real code is reported as model_drift, never as a violation).
plus : seeded random trees beyond Configs(R): unknown rows, ignored rows, reordering of every level.
"""
import json

from .. import core
from .. import cases


def lex_signed(line, gen_pre=False):
    sign = line[0]
    rest = line[1:] if gen_pre else line[2:]
    lead = len(rest) - len(rest.lstrip(" "))
    if gen_pre:
        lead -= 1
    return {"sign": sign, "ind": lead, "row": rest.split()}


class _OneRulebook:
    """a rulebook provider that serves one compiled rulebook whatever the hardware (for driving production callers on catalogue rulebooks)"""
    def __init__(self, rb):
        self.rb = rb

    def get_rulebook(self, hw):
        return self.rb


def worker_diff(cat, rb, old, new):
    """what `annet diff` computes: annet.diff.worker on an OldNewResult holding (old, new) -- make_diff(old, order_config(new)) stripped of
    the unchanged lines.  The catalogue rulebooks carry no ordering rules, so the ordered configuration is the configuration itself."""
    import types
    from annet import diff as ann_diff
    from annet.types import OldNewResult
    from annet.rulebook import rulebook_provider_connector
    saved_on, saved_p = ann_diff.old_new, getattr(rulebook_provider_connector, "_cache", None)
    res = OldNewResult(device=cat.device, old=old, new=new, acl_rules=None)
    ann_diff.old_new = lambda *a, **k: iter([res])
    rulebook_provider_connector._cache = _OneRulebook(rb)
    try:
        return ann_diff.worker(1, types.SimpleNamespace(config="running", clear=False, acl_safe=False), None, None, None)
    finally:
        ann_diff.old_new = saved_on
        rulebook_provider_connector._cache = saved_p


_N = [0]


def observe(cat, k, old_j, new_j):
    from annet import patching
    from annet.annlib.diff import gen_pre_as_diff
    rb = cat.compiled[k - 1]
    old, new = cases.tree(old_j), cases.tree(new_j)
    _N[0] += 1
    if _N[0] % 3 == 0:
        # the shown diff as the production caller computes it: `annet diff` compares the device with the ORDERED desired configuration
        # (ordering is C08's subject: the pair judged here is (old, order_config(new)), the worker is given (old, new))
        new = patching.Orderer(rb["ordering"], cat.vendor).order_config(new)
        new_j = cases.jtree(new)
        d = patching.make_diff(old, new, rb, [])
        ds = worker_diff(cat, rb, cases.tree(old_j), cases.tree(new_j))
    else:
        d = patching.make_diff(old, new, rb, [])
        ds = patching.strip_unchanged(d)
    dself = patching.make_diff(old, old, rb, [])
    flines = [lex_signed(l) for l in cat.formatter.diff(ds)]
    # `annet diff --show-rules` prints a `# <rule>` remark above every group: remarks aside it is the same view (every other case)
    show_rules = _N[0] % 2 == 0
    glines = [lex_signed(l.rstrip("\n"), True) for l in gen_pre_as_diff(patching.make_pre(ds), show_rules, "  ", True) if not l.startswith("#")]
    return {"rb": k, "old": old_j, "new": new_j, "diff": cases.jdiff(d), "stripped": cases.jdiff(ds), "self": cases.jdiff(dself),
            "flines": flines, "glines": glines, "_ds": ds}


def multi_diff_cases(ctx, cat, batch, rnd, n):
    import types
    from annet import diff as ann_diff
    from .. import genrun
    cands = [r for r in batch if r.get("_ds")]
    if len(cands) < 3:
        return
    for k in range(n):
        picks = rnd.sample(cands, 3)
        if k % 3 == 0:
            picks[2] = picks[0]                      # two devices with the same diff
        devs = [genrun.Dev(cat.hw, "dev%d" % i) for i in range(3)]
        for i, d in enumerate(devs):
            d.id = i + 1
        diffs = {d: r["_ds"] for d, r in zip(devs, picks)}
        args = types.SimpleNamespace(no_collapse=(k % 2 == 0), show_rules=False, indent="  ", no_color=True)
        try:
            entries = list(ann_diff.gen_sort_diff(diffs, args))            # collected first ...
            texts = {label: "".join(body) if not isinstance(body, str) else body for (label, body, _f) in entries}      # ... rendered afterwards
        except Exception as e:
            batch.append(dict(picks[0], id="%s-multi%d" % (picks[0]["id"], k), exc="gen_sort_diff: " + repr(e)))
            continue
        for d, r in zip(devs, picks):
            mine = [t for label, t in texts.items() if ("%s.cfg" % d.hostname) in label.split(", ")]
            rec = {kk: vv for kk, vv in r.items() if kk != "_ds"}
            rec["id"] = "%s-multi%d-%s" % (r["id"], k, d.hostname)
            if len(mine) != 1:
                rec["exc"] = "annet diff shows %d entries for device %s" % (len(mine), d.hostname)
            else:
                rec["glines"] = [lex_signed(l, True) for l in mine[0].split("\n") if l.strip()]
            batch.append(rec)


def perturb(t, rnd, depth=0, ign=((), ())):
    """beyond Configs(R): shuffle siblings, add rows the rulebook does not know and rows it ignores (`!` rules: top-level ones at the top
    level, %global ones inside blocks too)"""
    items = [{"row": n["row"], "kids": perturb(n["kids"], rnd, depth + 1, ign)} for n in t]
    if rnd.random() < 0.5:
        rnd.shuffle(items)
    if rnd.random() < 0.3:
        items.insert(rnd.randint(0, len(items)), {"row": ["zzunknown", str(rnd.randint(1, 2))], "kids": []})
    pats = ign[0] if depth == 0 else ign[1]
    have = {tuple(i["row"]) for i in items}
    for pat in pats:
        if rnd.random() < 0.5:
            row = [tk["w"] if tk["t"] == "lit" else "s%d" % rnd.randint(1, 2) for tk in pat]
            if tuple(row) not in have:
                have.add(tuple(row))
                items.insert(rnd.randint(0, len(items)), {"row": row, "kids": []})
    return items


def ign_patterns(rules):
    top = [r["pat"] for r in rules if r.get("ign")]
    return (top, [r["pat"] for r in rules if r.get("ign") and r.get("glob")])


def run(ctx):
    quick = ctx.tier == "quick"
    rnd = ctx.rng
    ctx.cov["rule"] = ("(rulebook, vendor profile, old, new): all pairs of TLC-enumerated Configs(R) where |Configs|^2 <= limit, else a seeded "
                       "sample, plus perturbed trees (shuffled siblings, unknown rows); non-trivial = distinct cases whose stripped diff is non-empty")
    ctx.assumptions += ["standard diff logics only (default/ordered/rewrite) on the block-structured vendor profiles",
                        "rows are words separated by single blanks; lexers of the two text views are trusted (sign column, leading blanks)"]
    limit = 2500 if quick else 40000
    profiles = ["huawei", "cisco"] if quick else ["huawei", "cisco", "pc", "arista", "nexus", "h3c"]
    recs = []
    total_exh = True
    for prof in profiles:
        cat = cases.Catalog(ctx, prof)
        aux = cat.aux_file()
        batch = []
        for k in range(1, len(cat.entries) + 1):
            pairs, exh = cat.pairs(k, limit if prof == profiles[0] else limit // 4, rnd)
            total_exh = total_exh and exh
            for (o, n) in pairs:
                rec = observe(cat, k, o, n)
                rec["id"] = "%s-%s-%d" % (prof, cat.names[k - 1], len(batch))
                batch.append(rec)
            # perturbed trees
            cs = cat.configs[k]
            ign = ign_patterns(cat.entries[k - 1]["rules"])
            for _ in range(60 if quick else 600):
                o, n = perturb(rnd.choice(cs), rnd, 0, ign), perturb(rnd.choice(cs), rnd, 0, ign)
                rec = observe(cat, k, o, n)
                rec["id"] = "%s-%s-p%d" % (prof, cat.names[k - 1], len(batch))
                batch.append(rec)
        # size: %ordered / %rewrite groups of several hundred lines (real ACLs and prefix lists are that long); an untouched long block has
        # no change, one appended line is one ADDED entry
        for nm, mk in (("ordered", lambda rows: [{"row": ["acl", "1"], "kids": [{"row": ["rule", str(i)], "kids": []} for i in rows]}]),
                       ("rewrite", lambda rows: [{"row": ["rp", "1"], "kids": [{"row": ["s%d" % i], "kids": []} for i in rows]}])):
            if nm in cat.names:
                k = cat.names.index(nm) + 1
                for n in (256, 257, 300, 700 if not quick else 300):
                    base = list(range(1, n + 1))
                    for o, nw in ((base, base), (base, base + [9999]), (base, base[:-1])):
                        rec = observe(cat, k, mk(o), mk(nw))
                        rec["id"] = "%s-%s-big%d" % (prof, nm, len(batch))
                        batch.append(rec)
        # `annet diff` over several devices: the CLI collects the entries of gen_sort_diff first and renders them afterwards (devices with
        # the same diff share one entry); every device must be shown ITS diff
        multi_diff_cases(ctx, cat, batch, rnd, 12 if quick else 200)
        for rec in batch:
            rec.pop("_ds", None)
        ctx.count(len(batch))
        for rec in batch:
            if rec["stripped"]:
                ctx.nontrivial(json.dumps([prof, rec["rb"], rec["old"], rec["new"]]))
        ctx.sample({"profile": prof, "rulebook": cat.names[batch[len(batch) // 2]["rb"] - 1], "old": batch[len(batch) // 2]["old"],
                    "new": batch[len(batch) // 2]["new"], "diff": batch[len(batch) // 2]["stripped"]}, limit=3)
        verd = ctx.judge("trace/Trace_Diff.tla", "trace/Trace.cfg", batch, env={"AUX_FILE": aux}, shards=16, name="Trace_Diff[%s]" % prof)
        for rec in batch:
            v = verd[rec["id"]][0]
            if rec.get("exc"):
                ctx.reject(rec["id"], "annet-diff-view-of-several-devices-broken [%s]" % rec["exc"][:80], rec, None)
            elif v != "ok":
                rec["profile"] = prof
                rec["rule_text"] = cat.compiled[rec["rb"] - 1]["text"]
                ctx.reject(rec["id"], v, rec, None)
    ctx.cov["exhaustive"] = total_exh
