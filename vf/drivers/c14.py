"""C14 — shipped routing-policy generators emit ACL-covered, self-consistent config.

MC/S2C : spec/mc/MC_Rpl enumerates abstract route-map programs (one statement, <=2 conditions x <=2 actions over catalogues of the documented
         R.* conditions and rule.* actions) and checks the error-before-emit machine against its declarative reading; the driver builds real
         RouteMap objects from the emitted programs.
C2S    : each program runs through the shipped RoutingPolicyGenerator for huawei and arista (thin subclass that logs start/emit/error/end of
         every _<vendor>_match / _<vendor>_then call and every stored line with its block depth), through _run_partial_generator(use_acl=True),
         and through the shipped list generators (community, prefix, as-path, rd) fed the same inputs; spec/trace/Trace_Rpl judges the four
         clauses (ACL, nesting, refs subset of defs, error before any emitted line).
"""
import json
import types

from .. import core
from .. import genrun
from .. import annetenv as E

# ---- entities shared by all programs
def entities():
    from annet.rpl_generators import CommunityList, CommunityType, CommunityLogic, AsPathFilter, RDFilter, ip_prefix_list
    cl = [CommunityList("C1", ["65000:1"]), CommunityList("C2", ["65000:2", "65000:3"]), CommunityList("C3", ["65000:4", "65000:5"], logic=CommunityLogic.AND),
          CommunityList("CRX", ["65000:.*"], use_regex=True),
          CommunityList("RT1", ["100:2"], type=CommunityType.RT), CommunityList("RT2", ["100:5", "100:6"], type=CommunityType.RT, logic=CommunityLogic.AND),
          CommunityList("SOO1", ["100:3", "100:4"], type=CommunityType.SOO),
          CommunityList("LG1", ["65000:1:1"], type=CommunityType.LARGE), CommunityList("LG2", ["65000:2:2"], type=CommunityType.LARGE)]
    pl = [ip_prefix_list("PL4", ["10.0.0.0/8", "192.168.0.0/16"]), ip_prefix_list("PL4B", ["172.16.0.0/12"], (16, 24)),
          ip_prefix_list("PL6", ["2001:db8::/32"]), ip_prefix_list("PL6B", ["fc00::/7"], (48, 64))]
    asp = [AsPathFilter("ASP1", ["65001", "65002"]), AsPathFilter("ASP2", ["65010"])]
    rd = [RDFilter("RD1", 10, ["100:1", "100:2"]), RDFilter("RD2", 20, ["200:1"])]
    return cl, pl, asp, rd


# ---- catalogues (index -> builder); sizes must match NC / NA of spec/mc/MC_Rpl.cfg
def cond_catalogue():
    from annet.rpl import R
    return [
        lambda: R.community.has("C1"), lambda: R.community.has("C1", "C2"), lambda: R.community.has_any("C1", "C2"),
        lambda: R.large_community.has("LG1"), lambda: R.large_community.has_any("LG1", "LG2"),
        lambda: R.extcommunity_rt.has("RT1"), lambda: R.extcommunity_rt.has_any("RT1", "RT2"), lambda: R.extcommunity_soo.has("SOO1"),
        lambda: R.rd.has("RD1"), lambda: R.match_v4("PL4"), lambda: R.match_v4("PL4B", or_longer=(20, 28)), lambda: R.match_v6("PL6", "PL6B"),
        lambda: R.as_path_filter("ASP1"), lambda: R.as_path_length >= 3,
    ]


def extra_conds():
    from annet.rpl import R
    return [lambda: R.as_path_length.between_included(1, 5), lambda: R.metric == 10, lambda: R.protocol == "bgp", lambda: R.interface == "Loopback0",
            lambda: R.local_pref < 100, lambda: R.net_len == 24, lambda: R.family == 4, lambda: R.community.has("CRX"), lambda: R.rd.has("RD1", "RD2"),
            lambda: R.extcommunity_soo.has_any("SOO1"), lambda: R.match_v6("PL6B", or_longer=(None, 64)),
            # the same lists referred to in another order / with and without an or_longer override (names are derived from both)
            lambda: R.community.has_any("C2", "C1"), lambda: R.community.has_any("C1", "C2", "C1"), lambda: R.large_community.has_any("LG1", "LG2", "LG1"),
            lambda: R.extcommunity_rt.has_any("RT1", "RT2", "RT1"), lambda: R.match_v4("PL4B"),
            # several names in one match, some of them used by an earlier statement already
            lambda: R.match_v4("PL4", "PL4B"), lambda: R.match_v4("PL4B", "PL4", or_longer=(20, 28)), lambda: R.match_v6("PL6B", "PL6"), lambda: R.match_v4("PL4", or_longer=(24, 32)),
            lambda: R.match_v6("PL6B"), lambda: R.large_community.has_any("LG2", "LG1"), lambda: R.extcommunity_rt.has_any("RT2", "RT1")]


def act_catalogue():
    return [
        lambda r: r.community.set("C1"), lambda r: r.community.add("C1", "C2"), lambda r: r.community.remove("C2"), lambda r: r.community.set(),
        lambda r: r.large_community.add("LG1"), lambda r: r.large_community.set("LG1", "LG2"),
        lambda r: r.extcommunity.set("RT1"), lambda r: r.extcommunity.add("RT1", "SOO1"), lambda r: r.extcommunity_rt.add("RT1"),
        lambda r: r.extcommunity_soo.remove("SOO1"),
        lambda r: r.set_local_pref(200), lambda r: r.set_metric(10), lambda r: r.add_metric(5),
        lambda r: r.next_hop.self(), lambda r: r.as_path.prepend(65001, 65001), lambda r: r.as_path.set(65010),
    ]


def extra_acts():
    def as_mix(r):
        r.as_path.prepend(65001)
        r.as_path.expand(65002)

    def as_mix2(r):
        r.as_path.set(65001)
        r.as_path.delete(65003)

    def comm_mix(r):
        r.community.set("C1")
        r.community.add("C2")
    def lg_mix(r):
        r.large_community.add("LG1")
        r.large_community.remove("LG2")

    def rt_mix(r):
        r.extcommunity_rt.add("RT1")
        r.extcommunity_rt.remove("RT2")

    def soo_mix(r):
        r.extcommunity_soo.add("SOO1")
        r.extcommunity_soo.remove("SOO1")
    return [lg_mix, rt_mix, soo_mix, lambda r: r.set_metric_type("type-1"), lambda r: r.set_origin("igp"), lambda r: r.set_tag(7), lambda r: r.set_mpls_label(),
            lambda r: r.set_resolution("x"), lambda r: r.set_rpki_valid_state("valid"), lambda r: r.next_hop.peer(), lambda r: r.next_hop.discard(),
            lambda r: r.next_hop.ipv4_addr("10.0.0.1"), lambda r: r.next_hop.ipv6_addr("2001:db8::1"), lambda r: r.next_hop.mapped_ipv4("10.0.0.1"),
            lambda r: r.as_path.expand_last_as(2), lambda r: r.as_path.delete(65003), as_mix, as_mix2, comm_mix,
            lambda r: r.large_community.remove("LG1"), lambda r: r.extcommunity.remove("RT1"), lambda r: r.extcommunity_rt.set("RT1"),
            lambda r: r.extcommunity_soo.add("SOO1"), lambda r: r.extcommunity.set()]


def make_generators(vendor, routemaps, ents):
    """thin subclasses of the shipped generators: log events, no behaviour changed"""
    from annet.rpl_generators import (RoutingPolicyGenerator, CommunityListGenerator, PrefixListFilterGenerator, AsPathFilterGenerator,
                                      RDFilterFilterGenerator)
    cl, pl, asp, rd = ents
    log = {"events": [], "lines": []}

    def wrap(name):
        def method(self, *a, **k):
            log["events"].append("start")
            try:
                for x in getattr(RoutingPolicyGenerator, name)(self, *a, **k):
                    log["events"].append("emit")
                    yield x
            except Exception:
                log["events"].append("error")
                raise
            log["events"].append("end")
        return method

    def append_text(self, text):
        log["lines"].append({"ind": len(self._indents), "w": str(text).split()})
        return RoutingPolicyGenerator._append_text(self, text)
    common = {"get_policies": lambda s, d: routemaps.apply(d), "get_prefix_lists": lambda s, d: pl, "get_community_lists": lambda s, d: cl,
              "get_as_path_filters": lambda s, d: asp, "get_rd_filters": lambda s, d: rd}
    pol = type("VfPolicy", (RoutingPolicyGenerator,), dict(common, _append_text=append_text,
               **{"_%s_match" % vendor: wrap("_%s_match" % vendor), "_%s_then" % vendor: wrap("_%s_then" % vendor)}))
    lists = [type("VfComm", (CommunityListGenerator,), dict(common)), type("VfPfx", (PrefixListFilterGenerator,), dict(common)),
             type("VfAsp", (AsPathFilterGenerator,), dict(common)), type("VfRd", (RDFilterFilterGenerator,), dict(common))]
    return pol(genrun.STORAGE), [c(genrun.STORAGE) for c in lists], log


def make_cumulus(routemaps, ents):
    """thin subclass of the shipped CumulusPolicyGenerator (one FRR text stream): logs start/emit/error/end of every match / then call"""
    from annet.rpl_generators import CumulusPolicyGenerator
    cl, pl, asp, rd = ents
    log = {"events": []}

    def wrap(name):
        def method(self, *a, **k):
            log["events"].append("start")
            try:
                for x in getattr(CumulusPolicyGenerator, name)(self, *a, **k):
                    log["events"].append("emit")
                    yield x
            except Exception:
                log["events"].append("error")
                raise
            log["events"].append("end")
        return method
    cls = type("VfCumulus", (CumulusPolicyGenerator,), {
        "get_policies": lambda s, d: routemaps.apply(d), "get_prefix_lists": lambda s, d: pl, "get_community_lists": lambda s, d: cl,
        "get_as_path_filters": lambda s, d: asp, "_cumulus_policy_match": wrap("_cumulus_policy_match"), "_cumulus_policy_then": wrap("_cumulus_policy_then")})
    return cls(), log


def lex_out(text, unit=2):
    out = []
    for line in text.split("\n"):
        if line.strip():
            out.append({"ind": (len(line) - len(line.lstrip(" "))) // unit, "w": line.split()})
    return out


def run(ctx):
    E.init()
    from annet.rpl import RouteMap
    from annet.generators import _run_partial_generator, GeneratorPartialRunArgs
    from annet.generators.exceptions import GeneratorError
    quick = ctx.tier == "quick"
    rnd = ctx.rng
    ctx.cov["rule"] = ("(vendor, route-map program): programs enumerated by TLC (1 statement, <=2 conditions x <=2 actions over catalogues) plus seeded "
                       "programs over the extended catalogues with 1-2 statements; non-trivial = distinct programs with at least one list reference or an "
                       "action the back-end refuses")
    ctx.assumptions += ["vendors huawei and arista (PartialGenerators: all four clauses) and cumulus (generate_cumulus_rpl, one FRR stream: error-before-emit and references-defined clauses)",
                        "reference/definition syntax tables of spec/Rpl.tla", "one fixed set of named entities (communities, prefix lists, as-path, rd)"]
    r = ctx.mc("mc/MC_Rpl.tla", "mc/MC_Rpl.cfg", workers=2, timeout=1200)
    if r.violated:
        ctx.reject("mc", "Rpl model: %s" % r.violated, {"tlc": r.out[-2000:]}, None)
    progs = [json.loads(c[0]) for c in core.parse_tagged(r.out, "PROG")]
    conds, acts = cond_catalogue(), act_catalogue()
    xconds, xacts = conds + extra_conds(), acts + extra_acts()
    if len(conds) != 14 or len(acts) != 16:
        raise core.Machinery("catalogue sizes differ from MC_Rpl.cfg")
    ents = entities()
    recs = []
    devs = {"huawei": genrun.Dev(E.hwview("Huawei CE6870", "VRP V200R001C00SPC700")), "arista": genrun.Dev(E.hwview("Arista DCS-7368", "EOS 4.29.9.1M")),
            "cumulus": genrun.Dev(E.hwview("PC", ""))}

    def observe(tag, vendor, stmts, dupnum=False):
        """stmts: list of (cond builders, act builders, result); dupnum: every statement gets the number 10"""
        routemaps = RouteMap()

        def policy(device, route):
            for n, (cs, as_, res) in enumerate(stmts):
                with route(*[c() for c in cs], number=(10 if dupnum else (n + 1) * 10)) as rule:
                    for a in as_:
                        a(rule)
                    getattr(rule, res)()
        routemaps(policy, name="POL")
        if vendor == "cumulus":
            gen, log = make_cumulus(routemaps, ents)
            rec = {"id": "%s-%s-%d" % (tag, vendor, len(recs)), "vendor": vendor, "raised": False, "aclError": False, "listError": False,
                   "policyLines": [], "defLines": [], "recLines": [], "textLines": [], "headers": []}
            try:
                rows = [(r,) if isinstance(r, str) else tuple(r) for r in gen.generate_cumulus_rpl(devs["cumulus"])]
                for r in rows:
                    words = " ".join(r).split()
                    if words and words[0] == "route-map":
                        rec["headers"].append(words)
                    if r and r[0] == " ":
                        rec["policyLines"].append(words)
                    elif words and words[0] not in ("route-map", "!"):
                        rec["defLines"].append(words)
            except Exception as e:
                rec["raised"] = True
                rec["exc"] = "%s: %s" % (type(e).__name__, str(e)[:80])
            rec["events"] = list(log["events"])
            recs.append(rec)
            ctx.count()
            if rec["raised"] or any(w[0] == "match" for w in rec["policyLines"]):
                ctx.nontrivial("cumulus" + json.dumps([rec["events"], rec["policyLines"]]))
            return
        gen, listgens, log = make_generators(vendor, routemaps, ents)
        dev = devs[vendor]
        rec = {"id": "%s-%s-%d" % (tag, vendor, len(recs)), "vendor": vendor, "raised": False, "aclError": False, "listError": False,
               "policyLines": [], "defLines": [], "recLines": [], "textLines": [], "headers": []}
        try:
            text = gen(dev)
            rec["textLines"] = lex_out(text)
            rec["headers"] = [l["w"] for l in rec["textLines"] if l["ind"] == 0 and l["w"][0] in ("route-map", "route-policy")]
            rec["recLines"] = list(log["lines"])
            rec["policyLines"] = [l["w"] for l in rec["textLines"] if l["ind"] > 0]
        except Exception as e:
            rec["raised"] = True
            rec["exc"] = "%s: %s" % (type(e).__name__, str(e)[:80])
        rec["events"] = list(log["events"])
        if not rec["raised"]:
            try:
                gen2, _lg, _log = make_generators(vendor, routemaps, ents)
                _run_partial_generator(gen2, GeneratorPartialRunArgs(dev, use_acl=True))
            except GeneratorError as e:
                rec["aclError"] = True
                rec["exc"] = repr(e.__cause__)
            for lg in listgens:
                try:
                    res = _run_partial_generator(lg, GeneratorPartialRunArgs(dev, use_acl=True))
                    if res is None:
                        continue               # the list generator has no back-end for this vendor
                    rec["defLines"] += [l["w"] for l in lex_out(res.output)]
                except GeneratorError as e:
                    if isinstance(e.__cause__, NotImplementedError):
                        continue               # a list kind the vendor back-end refuses as a whole
                    rec["listError"] = True
                    rec["exc"] = "%s: %r" % (type(lg).__name__, e.__cause__)
                except Exception as e:
                    rec["listError"] = True
                    rec["exc"] = "%s: %r" % (type(lg).__name__, e)
        recs.append(rec)
        ctx.count()
        if rec["raised"] or any(w[0] in ("if-match", "match") for w in rec["policyLines"]):
            ctx.nontrivial(json.dumps([vendor, tag, len(recs)]) if False else rec["id"].split("-", 1)[0] + json.dumps([vendor, rec["events"], rec["policyLines"]]))

    sel = progs if not quick else rnd.sample(progs, 3000)
    for p in sel:
        cs = [conds[i - 1] for i in p["c"]]
        as_ = [acts[i - 1] for i in p["a"]]
        for vendor in ("huawei", "arista", "cumulus"):
            observe("s2c", vendor, [(cs, as_, "allow")])
    # every ordered pair of conditions in two successive statements (list names are derived per use: dedupe / naming across statements)
    for ci in range(len(xconds)):
        for cj in range(len(xconds)):
            # (the quick tier takes every other pair, and every pair that involves one of the multi-name / re-ordered conditions: the last 12)
            if ci == cj or (quick and (ci * 7 + cj) % 2 and max(ci, cj) < len(xconds) - 12):
                continue
            for vendor in ("huawei", "arista", "cumulus"):
                observe("pair", vendor, [([xconds[ci]], [], "allow"), ([xconds[cj]], [], "allow")])
    # two statements of one policy under one number (a route-map entry is keyed by its number)
    for k in range(120 if quick else 2000):
        stmts = [(rnd.sample(xconds, rnd.randint(0, 2)), rnd.sample(xacts, rnd.randint(0, 1)), rnd.choice(["allow", "deny"])) for _s in range(2)]
        observe("dup", ["huawei", "arista", "cumulus"][k % 3], stmts, dupnum=True)
    for _ in range(1500 if quick else 40000):
        stmts = []
        for _s in range(rnd.choice([1, 2, 2, 3])):
            stmts.append((rnd.sample(xconds, rnd.randint(0, 3)), rnd.sample(xacts, rnd.randint(0, 2)), rnd.choice(["allow", "deny", "next"])))
        observe("rnd", rnd.choice(["huawei", "arista", "cumulus"]), stmts)
    ctx.sample({"vendor": recs[0]["vendor"], "events": recs[0]["events"], "output": recs[0]["textLines"]})
    slim = [{k: v for k, v in r.items() if k != "exc"} for r in recs]
    verd = ctx.judge("trace/Trace_Rpl.tla", "trace/Trace.cfg", slim, shards=16)
    outc = {}
    for rec in recs:
        v = verd[rec["id"]][0]
        outc["raised" if rec["raised"] else "emitted"] = outc.get("raised" if rec["raised"] else "emitted", 0) + 1
        if v != "ok":
            ctx.reject(rec["id"], v + ((" [%s]" % rec["exc"]) if "exc" in rec else ""), rec, signature_of(rec, v))
    ctx.cov["outcomes"] = outc


def signature_of(rec, clause):
    return None
