"""C08 — ordering follows the ordering rulebook and only permutes lines.

MC/S2C : spec/mc/MC_Order emits the ordering catalogue (spec/OrderCatalog.tla, one ordering rulebook per patching catalogue entry, with
         nesting, %order_reverse and %global entries) and checks its domain assumption (pairwise disjoint sibling languages); the
         configurations are the TLC-enumerated Configs(R) of MC_Cases.
C2S    : spec/trace/Trace_Order judges, at every depth, the real sorted PatchTree (rank order between ranked siblings, removal before
         re-creation, permutation of the unsorted patch), the real order_config output (permutation, idempotence, unmentioned rows stable,
         rank order), and metamorphic independence pairs over the shipped *.order files (drop an unrelated top-level row).
"""
import json
from collections import OrderedDict as od

from .. import core
from .. import cases
from .. import corpus
from .. import annetenv as E
from .c09 import pt_json


def order_text(rules, depth=0):
    out = []
    for r in rules:
        line = " ".join(cases.tok_text(t) for t in r["pat"])
        if r["orev"]:
            line += "  %order_reverse"
        if r["glob"]:
            line += "  %global"
        if r.get("scope"):
            line += "  %scope=" + r["scope"]
        out.append("    " * depth + line)
        out += order_text(r["kids"], depth + 1)
    return out


def run(ctx):
    E.init()
    from annet import patching
    from annet.annlib import patching as lp
    from annet.annlib.rbparser.ordering import compile_ordering_text
    quick = ctx.tier == "quick"
    rnd = ctx.rng
    ctx.cov["rule"] = ("(ordering rulebook, patching rulebook, old, new) and (ordering rulebook, config tree): pairs/configs from TLC-enumerated "
                       "Configs(R); corpus pairs with one top-level row dropped; non-trivial = distinct cases with >=2 ranked sibling commands of different rank")
    ctx.assumptions += ["ordering rulebooks with pairwise disjoint sibling languages (checked by MC_Order on the instance universe)",
                        "claims only between ranked siblings of different rank; unranked commands take part in permutation/stability clauses only"]
    profiles = ["huawei", "cisco"] if quick else ["huawei", "cisco", "arista", "nexus", "h3c", "pc"]
    limit = 700 if quick else 20000
    for prof in profiles:
        cat = cases.Catalog(ctx, prof)
        cfgp = ctx.scratch + "/order_%s.cfg" % prof
        src = open(core.SPEC + "/mc/MC_Order.cfg").read().replace('Prefix = "undo"', 'Prefix = "%s"' % cat.prefix).replace('"undox"', '"%s"' % cat.prefixx)
        open(cfgp, "w").write(src)
        r = ctx.mc("mc/MC_Order.tla", cfgp, name="MC_Order[%s]" % prof, workers=1)
        if r.violated:
            raise core.Machinery("ordering catalogue violates its domain assumption: %s" % r.violated)
        alts = json.loads(core.parse_tagged(r.out, "ORDERS")[0][0])       # per patching entry: alternative ordering rulebooks
        orders, where = [], []
        for k, al in enumerate(alts, 1):
            for o in al:
                orders.append(o)
                where.append(k)
        aux = ctx.scratch + "/aux_order_%s.json" % prof
        json.dump({"rbs": cat.rbs, "ords": orders}, open(aux, "w"))
        recs = []
        for oi, k in enumerate(where, 1):
            otext = "\n".join(order_text(orders[oi - 1])) + "\n"
            rb = dict(cat.compiled[k - 1])
            rb["ordering"] = compile_ordering_text(otext, cat.vendor)
            pairs, _ = cat.pairs(k, limit, rnd)
            for (o, n) in pairs:
                old, new = cases.tree(o), cases.tree(n)
                try:
                    pre = patching.make_pre(patching.make_diff(old, new, rb, []))
                    pt = patching.make_patch(pre, rb, cat.hw, False)
                    orig = lp.PatchTree.sort
                    lp.PatchTree.sort = lambda self: None
                    try:
                        upt = patching.make_patch(pre, rb, cat.hw, False)
                    finally:
                        lp.PatchTree.sort = orig
                except Exception as e:
                    recs.append({"id": "%s-%s-%d" % (prof, cat.names[k - 1], len(recs)), "kind": "patch", "rb": k, "ord": oi, "pt": [], "upt": [], "exc": repr(e)})
                    continue
                rec = {"id": "%s-%s-%d" % (prof, cat.names[k - 1], len(recs)), "kind": "patch", "rb": k, "ord": oi, "pt": pt_json(pt), "upt": pt_json(upt),
                       "old": o, "new": n}
                recs.append(rec)
                if len(rec["pt"]) >= 2 or any(len(i["kids"]) >= 2 for i in rec["pt"]):
                    ctx.nontrivial(json.dumps([prof, k, o, n]))
            orderer = patching.Orderer(rb["ordering"], cat.vendor)
            cs = cat.configs[k]
            for c in (cs if len(cs) <= (150 if quick else 3000) else rnd.sample(cs, 150 if quick else 3000)):
                # shuffle every level: the input of order_config is arbitrary generator output
                # ... and may hold negated lines too: some rows get their negated twin (equal-rank removals must not be disturbed)
                def shuf(t):
                    items = [{"row": n["row"], "kids": shuf(n["kids"])} for n in t]
                    have = {tuple(n["row"]) for n in t}
                    for n in t:
                        neg = [cat.prefix] + n["row"]
                        if n["row"][0] != cat.prefix and tuple(neg) not in have and rnd.random() < 0.4:
                            items.append({"row": neg, "kids": []})
                    rnd.shuffle(items)
                    return items
                t = shuf(c)
                try:
                    if len(recs) % 5 == 0:
                        # what `annet gen` prints: the production worker orders the generated configuration and renders it; read back,
                        # that text is the ordered tree judged here
                        out = gen_worker_tree(cat, rb, cases.tree(t))
                    else:
                        out = orderer.order_config(cases.tree(t))
                    out2 = orderer.order_config(out)
                except Exception as e:
                    recs.append({"id": "%s-%s-c%d" % (prof, cat.names[k - 1], len(recs)), "kind": "config", "rb": k, "ord": oi, "t": t, "out": [], "out2": [], "exc": repr(e)})
                    continue
                recs.append({"id": "%s-%s-c%d" % (prof, cat.names[k - 1], len(recs)), "kind": "config", "rb": k, "ord": oi, "t": t, "out": cases.jtree(out),
                             "out2": cases.jtree(out2)})
        ctx.count(len(recs))
        ctx.sample({"profile": prof, "ordering": order_text(orders[0]), "patch": recs[len(recs) // 3].get("pt")}, limit=2)
        slim = [{k: v for k, v in r.items() if k not in ("old", "new", "exc")} for r in recs]
        verd = ctx.judge("trace/Trace_Order.tla", "trace/Trace.cfg", slim, env={"AUX_FILE": aux}, shards=16, name="Trace_Order[%s]" % prof)
        for rec in recs:
            v = verd[rec["id"]][0]
            if "exc" in rec:
                ctx.reject(rec["id"], "annet raised: " + rec["exc"], rec, None)
            elif v != "ok":
                rec["profile"] = prof
                rec["ordering_text"] = order_text(orders[rec["ord"] - 1])
                ctx.reject(rec["id"], v, rec, signature_of(rec, v))
    # ---- comments (rule parameter %comment, shown with add_comments) are decoration: the commented patch has the order of the plain one.
    # Synthetic rulebooks in the style of the shipped ones: end-anchored ordering rules, several rules matching one row (weights)
    rul = ("sysname *\nntp-service *  %comment=ntp\nstp mode *  %comment=!!question!![Y/N]!!answer!!Y!!\nstp enable  %comment=careful\n"
           "blk *\n    x *  %comment=c1\n    y *\n    z\n")
    order = "sysname\nntp-service\nstp mode rstp$\nstp enable$\nstp\nblk *\n    z$\n    y\n    x */\\d+/$\n"
    rows = ["sysname a", "ntp-service s1", "stp mode rstp", "stp mode mstp", "stp enable", "blk 1"]
    kidrows = ["x 1", "x 22", "y 1", "z"]
    comments = {"ntp-service": "ntp", "stp mode": "!!question!![Y/N]!!answer!!Y!!", "stp enable": "careful", "x": "c1"}
    from annet.rulebook.patching import compile_patching_text
    from annet.rulebook.deploying import compile_deploying_text
    recs = []
    for vendor, model in (("huawei", "Huawei CE6870"), ("cisco", "Cisco Catalyst C3750")):
        hw = E.hwview(model, "")
        rb = {"patching": compile_patching_text(rul, vendor), "ordering": compile_ordering_text(order, vendor), "deploying": compile_deploying_text("", vendor)}

        def rcfg():
            t = []
            for r in rnd.sample(rows, rnd.randint(0, len(rows))):
                kids = [{"row": k.split(), "kids": []} for k in rnd.sample(kidrows, rnd.randint(0, 4))] if r.startswith("blk") else []
                t.append({"row": r.split(), "kids": kids})
            return t

        def strip(items):
            out = []
            for it in items:
                row = " ".join(it["row"])
                for head, c in comments.items():          # (removal commands carry their rule's comment too)
                    if head in row and row.endswith(" " + c):
                        row = row[:-len(c) - 1]
                        break
                out.append(dict(it, row=row.split(), kids=strip(it["kids"])))
            return out
        for _ in range(400 if quick else 8000):
            o, n = rcfg(), rcfg()
            try:
                pre = patching.make_pre(patching.make_diff(cases.tree(o), cases.tree(n), rb, []))
                pt = pt_json(patching.make_patch(pre, rb, hw, False))
                ptc = strip(pt_json(patching.make_patch(pre, rb, hw, True)))
            except Exception as e:
                ctx.skip("comments tier: annet raised %s" % type(e).__name__)
                continue
            recs.append({"id": "comments-%s-%d" % (vendor, len(recs)), "kind": "comments", "pt": pt, "ptc": ptc, "old": o, "new": n})
            if len(pt) >= 2:
                ctx.nontrivial(json.dumps(["comments", vendor, o, n]))
    ctx.count(len(recs))
    aux0 = ctx.scratch + "/aux_empty0.json"
    json.dump({"rbs": [], "ords": []}, open(aux0, "w"))
    verd = ctx.judge("trace/Trace_Order.tla", "trace/Trace.cfg", [{k: v for k, v in r.items() if k not in ("old", "new")} for r in recs],
                     env={"AUX_FILE": aux0}, shards=8, name="Trace_Order[comments]")
    for rec in recs:
        if verd[rec["id"]][0] != "ok":
            ctx.reject(rec["id"], verd[rec["id"]][0], rec, None)
    # ---- shipped *.order files: independence of unrelated lines (metamorphic), order_config laws on corpus trees
    from annet import api
    from annet.vendors import registry_connector
    recs = []
    aux = ctx.scratch + "/aux_empty.json"
    json.dump({"rbs": [], "ords": []}, open(aux, "w"))
    for (name, vendor, hw, old, new) in corpus.samples():
        fmt = registry_connector.get().match(hw).make_formatter(indent="")
        try:
            _d, p = api._diff_and_patch(E.device(hw), E.cp(old), E.cp(new), None, None, False)
        except Exception:
            continue
        full = cases.jpaths(fmt.cmd_paths(p))
        tops = [r for r in list(old) + [x for x in new if x not in old]]
        for row in (tops if not quick else rnd.sample(tops, min(3, len(tops)))):
            o2, n2 = E.cp(old), E.cp(new)
            o2.pop(row, None)
            n2.pop(row, None)
            try:
                _d2, p2 = api._diff_and_patch(E.device(hw), o2, n2, None, None, False)
            except Exception:
                continue
            part = cases.jpaths(fmt.cmd_paths(p2))
            recs.append({"id": "indep-%d" % len(recs), "kind": "indep", "full": full, "part": part, "sample": name, "dropped": row.split(),
                         "prefix": registry_connector.get().match(hw).reverse})
    # ---- the shipped huawei.order against the device dependencies its own comments document (spec/ShippedDeps.tla): inputs that bring
    # both commands of a fact into one patch (in both input orders, alone and among other changes, on several models)
    def T(lines):
        return od((ln[0], T(ln[1])) if isinstance(ln, tuple) else (ln, od()) for ln in lines)
    BFD = ("bfd to_pe1 bind peer-ip 10.0.0.1 vpn-instance V", ["discriminator local 1"])
    PORT = "interface 10GE1/0/1"
    dep_inputs = [
        ("create", ["evpn-overlay enable"], ["ip vpn-instance V"]),
        ("remove", [BFD], [("ip vpn-instance V", ["ipv4-family"])]),
        ("remove", [("bgp 65000", ["router-id 1.1.1.1"])], [BFD]),
        ("create", [("isis 1", ["network-entity 49.0001.0000.0000.0001.00"])], [(PORT, ["isis enable 1"])]),
        ("create", [("diffserv domain D", ["8021p-inbound 0 phb be green"])], [(PORT, ["trust upstream D"])]),
        ("create", [(PORT, ["undo portswitch"])], [(PORT + ".100", ["vlan-type dot1q 100"])]),
        ("create", [(PORT, ["undo portswitch"])], ["ip route-static 10.0.0.0 8 10.1.1.1"]),
        ("remove", [("interface Vlanif100", ["ip address 10.0.0.1 24"])], ["vlan batch 100"]),
        ("create", [("acl number 3000", ["rule 5 permit ip"])], [("traffic classifier C", ["if-match acl 3000"])]),
        ("create", [("traffic classifier C", ["if-match acl 3000"])], [("traffic policy P", ["classifier C behavior B"])]),
        ("create", [("traffic behavior B", ["permit"])], [("traffic policy P", ["classifier C behavior B"])]),
        ("create", ["mpls"], [(PORT, ["mpls"])]),
        ("remove", [("interface Eth-Trunk1.100", ["vlan-type dot1q 100"])], [("interface Eth-Trunk1", ["mode lacp-static"])]),
        ("remove", [(PORT, ["eth-trunk 1"])], [("interface Eth-Trunk1", ["mode lacp-static"])]),
        ("remove", [(PORT, ["qos queue 1 wred DP"])], [("drop-profile DP", ["color green low-limit 70 high-limit 100 discard-percentage 10"])]),
    ]
    noise = ["sysname x", "ntp-service unicast-server 10.9.9.9", ("interface LoopBack0", ["ip address 10.255.0.1 32"]), "snmp-agent sys-info version v3"]
    exercised = 0
    for fi, (dirn, a, b) in enumerate(dep_inputs):
        for model in ("Huawei CE6870", "Huawei NE40E-X8", "Huawei S6720") if not quick else ("Huawei CE6870", "Huawei NE40E-X8"):
            hw = E.hwview(model, "")
            fmt = registry_connector.get().match(hw).make_formatter(indent="")
            for lines in (a + b, b + a, noise[:2] + b + a + noise[2:]):
                old, new = (T([]), T(lines)) if dirn == "create" else (T(lines), T([]))
                if lines[0] in noise:          # the bystanders change too (created or removed with the rest)
                    pass
                try:
                    _d, p = api._diff_and_patch(E.device(hw), old, new, None, None, False)
                    cmds = [list(k[0].split()) for k in fmt.cmd_paths(p) if len(k) == 1]
                except Exception as e:
                    ctx.skip("deps tier: annet raised %s" % type(e).__name__)
                    continue
                recs.append({"id": "deps-%d-%d" % (fi + 1, len(recs)), "kind": "deps", "fact": fi + 1, "cmds": cmds, "sample": model})
    ctx.count(len(recs))
    if recs:
        verd = ctx.judge("trace/Trace_Order.tla", "trace/Trace.cfg", [{k: v for k, v in r.items() if k not in ("sample",)} for r in recs],
                         env={"AUX_FILE": aux}, shards=8, name="Trace_Order[independence+deps]")
        for rec in recs:
            v = verd[rec["id"]][0]
            if v == "fact-not-exercised":
                ctx.skip("deps tier: the patch lacks a command of the fact (patching rules of this model)")
            elif v != "ok":
                ctx.reject(rec["id"], v, rec, None)
            elif rec["kind"] == "deps":
                exercised += 1
                ctx.nontrivial(json.dumps(["deps", rec["fact"], rec["cmds"]]))
    ctx.cov["documented_dependency_checks"] = exercised


def gen_worker_tree(cat, rb, new):
    """annet.gen.worker on an OldNewResult holding `new` (with the catalogue rulebook served for the device): its text parsed back"""
    import types
    from annet import gen as anngen
    from annet.annlib import tabparser
    from annet.types import OldNewResult
    from annet.rulebook import rulebook_provider_connector
    from .c03 import _OneRulebook
    saved_on, saved_p = anngen.old_new, getattr(rulebook_provider_connector, "_cache", None)
    res = OldNewResult(device=cat.device, new=new, acl_rules={"local": {"x": 1}, "global": {}})
    anngen.old_new = lambda *a, **k: iter([res])
    rulebook_provider_connector._cache = _OneRulebook(rb)
    try:
        args = types.SimpleNamespace(annotate=False, acl_safe=False, indent="  ")
        outs = list(anngen.worker(1, args, None, None, None))
    finally:
        anngen.old_new = saved_on
        rulebook_provider_connector._cache = saved_p
    if len(outs) != 1:
        raise RuntimeError("annet gen printed %d texts for one device" % len(outs))
    return tabparser.parse_to_tree(outs[0][1], cat.formatter.split)


def signature_of(rec, clause):
    return None
