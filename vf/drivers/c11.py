"""C11 — VLAN-list commands change exactly the VLANs that differ.

MC   : spec/mc/MC_Vlan: A-layer of huawei _process_vlandb on abstract lines, all pairs of configurations of a 5-VLAN universe split over <=3
       lines: final set exact, no common VLAN dropped (Guard=TRUE, the repaired shortcut); the pre-repair shortcut (Guard=FALSE) must fail.
S2C  : all pairs of subsets of a small universe with adjacent ids x splittings of each collapsed range list over 1..3 lines, for every VLAN-list
       rule family of the shipped huawei / cisco / nexus rulebooks, through the real make_diff -> make_pre -> make_patch.
C2S  : spec/trace/Trace_Vlan executes the real commands on the old set (P-layer, spec/Vlan.tla); expand(collapse(S)) = S on the real helpers.
plus : seeded random sets over 1..4094.
"""
import itertools
import json
import re
from collections import OrderedDict as od

from .. import core
from .. import annetenv as E


def lex_ranges(text):
    """trusted lexer: `2 to 5 7` / `2-5,7` -> [2,0,5,7] (0 marks a range)"""
    toks = []
    for part in re.split(r"[,\s]+", text.strip()):
        if not part:
            continue
        if part == "none":               # `switchport trunk allowed vlan none`: the empty list written out
            continue
        if part == "to":
            toks.append(0)
        elif "-" in part:
            a, b = part.split("-")
            toks += [int(a), 0, int(b)]
        else:
            toks.append(int(part))
    return toks


def split_lines(items, k, rnd=None):
    """split the collapsed range items over k lines (k contiguous non-empty parts), or None"""
    if k == 1:
        return [items]
    if len(items) < k:
        return None
    if k == 2:
        return [[items[:i], items[i:]] for i in range(1, len(items))]
    return [[items[:i], items[i:j], items[j:]] for i in range(1, len(items)) for j in range(i + 1, len(items))]


class Family:
    def __init__(self, name, model, build, lex, collapse_sep):
        self.name, self.model, self.build, self.lex, self.sep = name, model, build, lex, collapse_sep


def huawei_family(name, pfx, block, extra=()):
    def build(lines):
        rows = [(pfx + " " + ln, od()) for ln in lines]
        if block:
            return od([(block, od(list((e, od()) for e in extra) + rows))])
        return od(rows)

    def lex(path):
        c = path[-1]
        if c == block or c in ("quit",) or c in extra:
            return None
        if c == "undo " + pfx + " all":
            return {"op": "delall", "toks": []}
        if c.startswith("undo " + pfx + " "):
            return {"op": "del", "toks": lex_ranges(c[len("undo " + pfx + " "):])}
        if c.startswith(pfx + " "):
            return {"op": "add", "toks": lex_ranges(c[len(pfx + " "):])}
        if c == "undo " + pfx:
            return {"op": "delall", "toks": []}
        return {"op": "other", "toks": [], "text": c}
    return Family(name, "Huawei CE6870", build, lex, " ")


def cisco_family(name, model, pfx, block, swtrunk):
    def build(lines):
        rows = []
        for k, ln in enumerate(lines):
            rows.append((pfx + (" add " if (swtrunk and k) else " ") + ln, od()))
        if block:
            return od([(block, od(rows))])
        return od(rows)

    def lex(path):
        c = path[-1]
        if c == block or c == "exit":
            return None
        if c == pfx + " none":
            return {"op": "none", "toks": []}
        for head, op in (("no " + pfx + " remove ", "del"), ("no " + pfx + " ", "del"), (pfx + " add ", "add"), (pfx + " ", "add")):
            if c.startswith(head):
                rest = c[len(head):]
                if re.fullmatch(r"[\d,\- ]+", rest):
                    return {"op": op, "toks": lex_ranges(rest)}
        return {"op": "other", "toks": [], "text": c}
    f = Family(name, model, build, lex, ",")
    f.swtrunk = swtrunk
    return f


def huawei_batch_blocks():
    """global VLAN database: `vlan batch` lines plus `vlan N` blocks with options; the device's VLAN set is the union of both"""
    def build(lines, blocks=(), bare=()):
        rows = [("vlan batch " + ln, od()) for ln in lines]
        # a VLAN may also be declared on its own without any option (`vlan N` with an empty block) next to the batch line
        rows += [("vlan %d" % n, od() if n in bare else od([("name v%d" % n, od())])) for n in blocks]
        return od(rows)

    def lex(path):
        c = path[0]
        if len(path) > 1:
            return None                      # options inside a vlan block do not change the VLAN set
        m = re.fullmatch(r"(undo )?vlan batch ([\d to]+)", c)
        if m:
            return {"op": "del" if m.group(1) else "add", "toks": lex_ranges(m.group(2))}
        m = re.fullmatch(r"(undo )?vlan (\d+)", c)
        if m:
            return {"op": "del" if m.group(1) else "add", "toks": [int(m.group(2))]}
        return {"op": "other", "toks": [], "text": c}
    f = Family("huawei vlan batch + vlan blocks (vlan_diff)", "Huawei CE6870", build, lex, " ")
    f.blocks = True
    return f


def huawei_single():
    """MSTP: `instance N vlan <list>` inside `stp region-configuration` (logic `single`: the key is the instance, at most one line of the key
    is added and one removed per run; `undo instance N` unmaps every VLAN of the instance)"""
    pfx, block = "instance 1 vlan", "stp region-configuration"

    def build(lines):
        return od([(block, od([("region-name r1", od())] + [(pfx + " " + ln, od()) for ln in lines]))])

    def lex(path):
        c = path[-1]
        if c in (block, "quit", "region-name r1"):
            return None
        if c == "undo instance 1":
            return {"op": "delall", "toks": []}
        if c.startswith("undo " + pfx + " "):
            return {"op": "del", "toks": lex_ranges(c[len("undo " + pfx + " "):])}
        if c.startswith(pfx + " "):
            return {"op": "add", "toks": lex_ranges(c[len(pfx + " "):])}
        return {"op": "other", "toks": [], "text": c}
    f = Family("huawei stp instance (single)", "Huawei CE6870", build, lex, " ")
    f.single = True
    return f


def cisco_vlan_blocks(name, model, catalyst):
    """global VLAN database of IOS / NX-OS: `vlan <list>` lines plus `vlan N` blocks with a name.  A Catalyst shows a VLAN that has a
    block only as that block (not in the list line); a Nexus lists it in the line as well.  The device's VLAN set is the union."""
    def build(lines, blocks=()):
        rows = [("vlan " + ln, od()) for ln in lines]
        rows += [("vlan %d" % n, od([("name v%d" % n, od())])) for n in blocks]
        return od(rows)

    def lex(path):
        c = path[0]
        if len(path) > 1:
            return None                      # the name inside a vlan block does not change the VLAN set
        m = re.fullmatch(r"(no )?vlan ([\d,\- ]+)", c)
        if m:
            return {"op": "del" if m.group(1) else "add", "toks": lex_ranges(m.group(2))}
        return {"op": "other", "toks": [], "text": c}
    f = Family(name, model, build, lex, ",")
    f.blocks = "catalyst" if catalyst else True
    return f


FAMILIES = [
    huawei_batch_blocks(),
    huawei_single(),
    cisco_vlan_blocks("catalyst vlan lists + vlan blocks", "Cisco Catalyst 2960", True),
    cisco_vlan_blocks("nexus vlan lists + vlan blocks", "Cisco Nexus 9336", False),
    huawei_family("huawei trunk allow-pass (multi_all)", "port trunk allow-pass vlan", "interface if1", ("port link-type trunk",)),
    huawei_family("huawei hybrid tagged (multi_all)", "port hybrid tagged vlan", "interface if1", ("port link-type hybrid",)),
    huawei_family("huawei hybrid untagged (multi_all)", "port hybrid untagged vlan", "interface if1", ("port link-type hybrid",)),
    huawei_family("huawei vlan batch (multi)", "vlan batch", None),
    # `vlan pool * / vlan *` is keyed by the first VLAN id of the line (not in the property's list of VLAN-list rules): observation in DESIGN.md
    cisco_family("cisco swtrunk (catalyst)", "Cisco Catalyst C3750", "switchport trunk allowed vlan", "interface GigabitEthernet1/0/1", True),
    cisco_family("nexus swtrunk", "Cisco Nexus 9336", "switchport trunk allowed vlan", "interface Ethernet1/1", True),
    cisco_family("cisco vlan group (simple)", "Cisco Catalyst C3750", "vlan group g1 vlan-list", None, False),
    cisco_family("nexus vlan (simple)", "Cisco Nexus 9336", "vlan", None, False),
    cisco_family("cisco vlan (simple, catalyst)", "Cisco Catalyst C3750", "vlan", None, False),
]


def run(ctx):
    E.init()
    from annet import patching, rulebook, api
    from annet.annlib import lib
    from annet.vendors import registry_connector
    quick = ctx.tier == "quick"
    rnd = ctx.rng
    ctx.cov["rule"] = ("(rule family, S_old, S_new, splitting of each range list over 1..3 lines): all pairs of subsets of a small universe with adjacent ids, "
                       "plus seeded random subsets of 1..4094; non-trivial = distinct cases with S_old != S_new and at least one VLAN in both")
    ctx.assumptions += ["the lines of one configuration list disjoint VLAN sets", "command lexers per rule family are trusted (prefix text, range tokens)",
                        "cisco `switchport trunk allowed vlan` continuation lines carry `add`"]
    r = ctx.mc("mc/MC_Vlan.tla", "mc/MC_Vlan.cfg", workers=core.NCPU)
    if r.violated:
        ctx.reject("mc", "Vlan model (repaired shortcut) violates %s" % r.violated, {"tlc": r.out[-3000:]}, None)
    r2 = ctx.mc("mc/MC_Vlan.tla", "mc/MC_Vlan_regress.cfg", workers=4, expect_ok=False)
    if "Exact" not in r2.violated:
        raise core.Machinery("anti-vacuity: the pre-repair shortcut (Guard=FALSE) no longer violates Exact in the model")
    ctx.cov["mc_runs"][-1]["expected"] = "Exact violated (regression instance of the pre-repair shortcut)"
    recs = []
    U = [2, 3, 4, 6, 7, 10] if quick else [2, 3, 4, 6, 7, 10, 11, 4094]
    subsets = [set(c) for k in range(len(U) + 1) for c in itertools.combinations(U, k)]
    for fam in FAMILIES:
        hw = E.hwview(fam.model, "")
        rb = rulebook.get_rulebook(hw)
        fmt = registry_connector.get().match(hw).make_formatter(indent="")
        catalyst = bool(hw.Catalyst)

        def collapse(S):
            if fam.sep == " ":
                return lib.huawei_collapse_vlandb(S)
            return lib.cisco_collapse_vlandb(S, not catalyst)

        def observe(tag, so, sn, lo, ln):
            extra_fields = None
            if getattr(fam, "single", False):
                # the logic handles one added and one removed line per run (it asserts so): other shapes are outside its contract
                a, b = [x for x in ln if x not in lo], [x for x in lo if x not in ln]
                if len(a) > 1 or len(b) > 1:
                    return
            if getattr(fam, "blocks", False) == "catalyst":
                # a VLAN with a block is NOT in the list lines (it moves between the two spellings from old to new)
                bo = sorted(rnd.sample(sorted(so), rnd.randint(0, min(2, len(so))))) if so else []
                bn = sorted(rnd.sample(sorted(sn), rnd.randint(0, min(2, len(sn))))) if sn else []
                lo = [collapse(so - set(bo))] if so - set(bo) else []
                ln = [collapse(sn - set(bn))] if sn - set(bn) else []
                old, new = fam.build([fam.sep.join(x) for x in lo], bo), fam.build([fam.sep.join(x) for x in ln], bn)
                lo, ln = lo + [[str(b)] for b in bo], ln + [[str(b)] for b in bn]
            elif getattr(fam, "blocks", False):
                # some VLANs of each side additionally have a `vlan N` block with options
                bo = sorted(rnd.sample(sorted(so), rnd.randint(0, min(2, len(so))))) if so else []
                bn = sorted(rnd.sample(sorted(sn), rnd.randint(0, min(2, len(sn))))) if sn else []
                if fam.sep == " ":
                    bare_o, bare_n = [b for b in bo if rnd.random() < 0.4], [b for b in bn if rnd.random() < 0.4]
                    # ... or ONLY on its own: a bare `vlan N` whose id is in no batch line is what declares that VLAN
                    xo = [x for x in (21, 22) if x not in so and rnd.random() < 0.25]
                    xn = [x for x in (21, 22) if x not in sn and rnd.random() < 0.25]
                    old = fam.build([fam.sep.join(x) for x in lo], bo + xo, bare_o + xo)
                    new = fam.build([fam.sep.join(x) for x in ln], bn + xn, bare_n + xn)
                    extra_fields = {"batchOld": sorted(expand(lex_ranges(" ".join(fam.sep.join(x) for x in lo)))) if lo else [],
                                    "batchNew": sorted(expand(lex_ranges(" ".join(fam.sep.join(x) for x in ln)))) if ln else [],
                                    "blocksNew": sorted(bn + xn)}
                    lo, ln = lo + [[str(b)] for b in xo], ln + [[str(b)] for b in xn]
                else:
                    old, new = fam.build([fam.sep.join(x) for x in lo], bo), fam.build([fam.sep.join(x) for x in ln], bn)
            else:
                if getattr(fam, "swtrunk", False) and not ln and lo and rnd.random() < 0.5:
                    ln = [["none"]]                  # no VLAN allowed any more, spelled as the device prints it
                old, new = fam.build([fam.sep.join(x) for x in lo]), fam.build([fam.sep.join(x) for x in ln])
            rec = {"id": "%s-%d" % (tag, len(recs)), "kind": "patch", "family": fam.name, "old": [lex_ranges(fam.sep.join(x)) for x in lo],
                   "new": [lex_ranges(fam.sep.join(x)) for x in ln]}
            rec["_sig"] = locals().get("extra_fields")
            try:
                if len(recs) % 2:
                    # the production composition (`annet patch` / `annet deploy`): diff, grouping and patch as the caller wires them
                    _d, p = api._diff_and_patch(E.device(hw), old, new, None, None, False)
                else:
                    d = patching.make_diff(old, new, rb, [])
                    p = patching.make_patch(patching.make_pre(d), rb, hw, False)
                cmds = []
                for path in fmt.cmd_paths(p):
                    c = fam.lex(path)
                    if c is not None:
                        cmds.append(c)
                rec["cmds"] = cmds
            except Exception as e:
                rec["cmds"] = []
                rec["exc"] = repr(e)
            recs.append(rec)
            ctx.count()
            if so != sn and (so & sn):
                ctx.nontrivial(json.dumps([fam.name, rec["old"], rec["new"]]))

        if getattr(fam, "blocks", False) is True and fam.sep == " ":
            # targeted (known finding): a VLAN moves from the batch line to a declaration of its own
            for with_opts in (False, True):
                so, sn = {21, 100}, {100}
                lo, ln = [["21", "100"]], [["100"]]
                old, new = fam.build([" ".join(lo[0])]), fam.build([" ".join(ln[0])], [21], [] if with_opts else [21])
                rec = {"id": "moved-%d" % len(recs), "kind": "patch", "family": fam.name, "old": [lex_ranges("21 100")], "new": [lex_ranges("100"), [21]],
                       "_sig": {"batchOld": [21, 100], "batchNew": [100], "blocksNew": [21]}}
                try:
                    _d, p = api._diff_and_patch(E.device(hw), old, new, None, None, False)
                    rec["cmds"] = [c for c in (fam.lex(path) for path in fmt.cmd_paths(p)) if c is not None]
                except Exception as e:
                    rec["cmds"], rec["exc"] = [], repr(e)
                recs.append(rec)
                ctx.count()
        pairs = [(a, b) for a in subsets for b in subsets]
        cap = 1400 if quick else 60000
        if len(pairs) > cap:
            pairs = rnd.sample(pairs, cap)
        for so, sn in pairs:
            io = collapse(so) if so else []
            inn = collapse(sn) if sn else []
            ko, kn = rnd.choice([1, 1, 2, 3]), rnd.choice([1, 1, 2, 3])
            los = split_lines(io, ko) if io else [[]]
            lns = split_lines(inn, kn) if inn else [[]]
            if not los or not lns:
                los, lns = ([io] if io else [[]]), ([inn] if inn else [[]])
            lo, ln = rnd.choice(los), rnd.choice(lns)
            lo = lo if (lo and isinstance(lo[0], list)) else ([lo] if lo else [])
            ln = ln if (ln and isinstance(ln[0], list)) else ([ln] if ln else [])
            # unchanged lines: with some probability the new config reuses the first old line verbatim
            if lo and rnd.random() < 0.35:
                keep = lo[0]
                kept = set()
                for t in [keep]:
                    kept |= expand(lex_ranges(fam.sep.join(t)))
                rest = sn - kept
                restl = collapse(rest) if rest else []
                ln = [keep] + ([restl] if restl else [])
                sn = kept | rest
            observe("enum", so, sn, lo, ln)
        for _ in range(150 if quick else 4000):
            so = set(rnd.sample(range(1, 4095), rnd.randint(0, 30))) | set(range(100, 100 + rnd.randint(0, 40)))
            sn = set(rnd.sample(sorted(so), len(so) // 2)) | set(rnd.sample(range(1, 4095), rnd.randint(0, 20)))
            io, inn = (collapse(so) if so else []), (collapse(sn) if sn else [])
            k = max(1, len(io) // 2)
            lo = [io[:k], io[k:]] if len(io) > 1 and rnd.random() < 0.5 else ([io] if io else [])
            k = max(1, len(inn) // 2)
            ln = [inn[:k], inn[k:]] if len(inn) > 1 and rnd.random() < 0.5 else ([inn] if inn else [])
            observe("rnd", so, sn, [x for x in lo if x], [x for x in ln if x])
    # expand(collapse(S)) == S on the real helpers
    for k in range(600 if quick else 20000):
        S = set(rnd.sample(range(1, 4095), rnd.randint(1, 25))) | set(range(200, 200 + rnd.randint(0, 6)))
        for name, text, back in (("huawei", " ".join(lib.huawei_collapse_vlandb(S)), None), ("cisco", ",".join(lib.cisco_collapse_vlandb(S)), None),
                                 ("catalyst", ",".join(lib.cisco_collapse_vlandb(S, False)), None)):
            real_back = sorted(lib.huawei_expand_vlandb(text) if name == "huawei" else lib.cisco_expand_vlandb(text))
            recs.append({"id": "col-%s-%d" % (name, len(recs)), "kind": "collapse", "set": sorted(S), "toks": lex_ranges(text), "back": real_back})
            ctx.count()
    ctx.sample({"family": recs[5]["family"], "old_lines": recs[5]["old"], "new_lines": recs[5]["new"], "cmds": recs[5]["cmds"]})
    slim = [{k: v for k, v in r.items() if k not in ("family", "exc", "_sig")} for r in recs]
    for r in slim:
        if r["kind"] == "patch":
            r["cmds"] = [{"op": c["op"], "toks": c["toks"]} for c in r["cmds"]]
    verd = ctx.judge("trace/Trace_Vlan.tla", "trace/Trace.cfg", slim, shards=16)
    for rec in recs:
        v = verd[rec["id"]][0]
        if "exc" in rec:
            ctx.reject(rec["id"], "annet raised: " + rec["exc"], rec, None)
        elif v != "ok":
            ctx.reject(rec["id"], v, rec, signature_of(rec, v))


def expand(toks):
    out, i = set(), 0
    while i < len(toks):
        if i + 2 < len(toks) and toks[i + 1] == 0:
            out |= set(range(toks[i], toks[i + 2] + 1))
            i += 3
        else:
            out.add(toks[i])
            i += 1
    return out


def signature_of(rec, clause):
    sg = rec.get("_sig")
    if sg and rec.get("kind") == "patch" and clause in ("final-set-differs", "common-vlan-removed-transiently"):
        # ids that leave the batch lines but stay declared by a `vlan N` block of the new configuration ...
        moved = (set(sg["batchOld"]) - set(sg["batchNew"])) & set(sg["blocksNew"])
        S = set(sg["batchOld"]) | set()          # (old blocks are a subset of the old batch ids or extra single ids listed in rec["old"])
        for toks in rec["old"]:
            S |= expand(toks)
        want = set()
        for toks in rec["new"]:
            want |= expand(toks)
        dev = set(S)
        for c in rec["cmds"]:
            if c["op"] == "add":
                dev |= expand(c["toks"])
            elif c["op"] == "del":
                dev -= expand(c["toks"])
        # ... and nothing else is wrong: the device ends exactly those ids short
        if moved and want - dev and (want - dev) <= moved and not (dev - want):
            return "huawei vlan batch: an id that leaves the batch lines but stays declared by a `vlan N` block is removed by `undo vlan batch`"
    if rec.get("kind") == "patch" and "multi_all" in rec.get("family", "") and any(c["op"] == "delall" for c in rec["cmds"]):
        if any(l in rec["new"] for l in rec["old"]):
            return "huawei multi_all: a line removed next to an unchanged line of the same key gives `undo ... vlan all`"
    return None
