"""C09 — the command stream sent at deploy is exactly the patch that was shown.

MC  : spec/mc/MC_Session: all patch trees over a row alphabet (distinct sibling rows, depth<=2 width<=2); on the model the displayed lines
      determine the command paths for every vendor class.
S2C : every enumerated tree is built as a real PatchTree and run, for every block-structured vendor and all (do_commit, do_finalize), through
      formatter.patch, formatter.cmd_paths and annet.deploy.apply_deploy_rulebook (shipped deploy rulebooks and synthetic ones with
      timeouts / dialogs, loaded through a scratch rulebook directory).
C2S : spec/trace/Trace_Session: shown == paths == body of the sent stream (order, depth, exits), only wrapper commands added, no commit when
      disabled, per-command (timeout, answers) of the matching deploy rule chain.
plus: PatchTrees produced by the real make_patch over the catalogue rulebooks and over the repository's sample corpus (shipped rulebooks,
      vendor-specific apply logic), random deeper trees.
"""
import itertools
import json
import re
import os
import shutil

from .. import core
from .. import cases
from .. import corpus
from .. import annetenv as E

# vendor -> (hardware models to try, vendor class of the formatter in spec/DeploySession.tla)
VENDORS = {
    "huawei": (["Huawei CE6870", "Huawei NE40E", "Huawei S5700", "Huawei NE20E-S2F", "Huawei CE12800", "Huawei NE9000", "Huawei NE05E-SQ"], "huawei"),
    "h3c": (["H3C S6800"], "huawei"),
    "cisco": (["Cisco Catalyst C3750"], "cisco"),
    "nexus": (["Cisco Nexus 9336"], "exit"),
    "arista": (["Arista DCS-7368"], "exit"),
    "aruba": (["Aruba AP-505"], "exit"),
    "b4com": (["B4com CS4100", "B4com B4T-CS2148P", "B4com B4T-CS4148Q", "B4com CS2148P"], "exit"),
    "iosxr": (["Cisco ASR 9000", "Cisco ASR9006", "Cisco XRv 9000"], "asr"),
    "optixtrans": (["Huawei OptiXtrans DC908"], "common"),
    "pc": (["PC"], "common"),
}

# models that edit a candidate configuration (harness knowledge about the devices: VRP8 boxes are the CE and NE series; S-series and H3C,
# classic IOS and NX-OS write straight into the running configuration; the old B4com CS2148P firmware has no commit either)
# (Aruba Instant is left out: its access-point environment commands are a session of their own outside `conf t`)
TWOSTAGE = re.compile(r"^(Huawei (CE|NE)\d|Arista |Cisco (ASR|XRv)|B4com (?!(B4T-)?CS2148P)|Juniper |Ribbon |Nokia )")
# models that write straight into the running configuration: a `commit` typed there is an error of its own
NOCOMMIT = re.compile(r"^(Huawei (S\d|Quidway)|H3C |Cisco (Catalyst|Nexus|\d)|B4com B4T-CS2148P)")
# vendors that flatten the patch into one line per command: only the wrapper clauses of the property apply to them
FLAT_VENDORS = {"juniper": ["Juniper MX960", "Juniper QFX5120"], "ribbon": ["Ribbon NPT"], "nokia": ["Nokia 7750"], "routeros": ["RouterOS RB4011"]}

SYN_DEPLOY = [
    {"pat": "interface *", "timeout": 45, "answers": ["Y"], "kids": [
        {"pat": "b *", "timeout": 7, "answers": [], "kids": []},
        {"pat": "undo d", "timeout": 9, "answers": ["yes", "N"], "kids": []},
        {"pat": "peer *", "timeout": 17, "answers": ["n0", "Y", "y2", "N"], "spellings": True, "kids": []}]},
    {"pat": "undo a", "timeout": 11, "answers": ["Y"], "kids": []},
    {"pat": "route-policy *", "timeout": 13, "answers": [], "kids": []},
    {"pat": "commit", "timeout": 77, "answers": [], "kids": []},
    # rules that apply only to commands whose patching rule carries one of the listed contexts (%ifcontext: ANY of them)
    {"pat": "crypto ~", "timeout": 60, "answers": ["yes", "2048"], "ifctx": ["mode:a", "mode:b"], "kids": []},
    {"pat": "crypto ~", "timeout": 15, "answers": [], "kids": []},        # the same command outside those contexts
    {"pat": "bgp *", "timeout": 33, "answers": [], "kids": [
        {"pat": "shutdown", "timeout": 21, "answers": ["Y"], "ifctx": ["kind:lag", "kind:phys"], "kids": []},
        {"pat": "shutdown", "timeout": 5, "answers": [], "kids": []}]},
]


def deploy_text(rules, depth=0):
    out = []
    for r in rules:
        out.append("    " * depth + r["pat"] + "  %%timeout=%d" % r["timeout"] + ("  %ifcontext=" + ",".join(r["ifctx"]) if r.get("ifctx") else ""))
        for k, a in enumerate(r["answers"]):
            # (some question texts of one rule differ only in blanks or letter case -- firmware spellings of one prompt: every line counts)
            qtext = ["question %d?" % k, "Continue?[Y/N]", "Continue? [Y/N]", "continue?[y/n]"][k % 4] if r.get("spellings") else "question %d?" % k
            out.append("    " * (depth + 1) + "dialog: %s ::: %s" % (qtext, a))
        out += deploy_text(r["kids"], depth + 1)
    return out


def deploy_json(rules):
    def toks(p):
        return [{"t": "star"} if w == "*" else {"t": "tilde"} if w == "~" else {"t": "lit", "w": w, "wl": w.lower()} for w in p.split()]
    return [{"pat": toks(r["pat"]), "timeout": r["timeout"], "answers": r["answers"], "ifctx": [e.split(":") for e in r.get("ifctx", [])],
             "kids": deploy_json(r["kids"])} for r in rules]


def build_pt(items):
    from annet.annlib.patching import PatchTree
    t = PatchTree()
    for it in items:
        row = " ".join(it["row"])
        if it["block"]:
            t.add_block(row, build_pt(it["kids"]), dict(it.get("ctx", {})))
        else:
            t.add(row, dict(it.get("ctx", {})))
    return t


def pt_json(pt):
    return [{"row": str(i.row).split(), "block": i.child is not None, "kids": pt_json(i.child) if i.child is not None else []} for i in pt.itms]


def lex_patch(text, indent):
    out = []
    for line in text.split("\n"):
        if not line.strip():
            continue
        lead = len(line) - len(line.lstrip(" "))
        out.append({"d": lead // len(indent), "row": line.split()})
    return out


_CALLS = [0]


class Drv:
    """what a deploy driver does with the rulebook part of its interface: hand the call on to annet.deploy.apply_deploy_rulebook"""
    def apply_deploy_rulebook(self, hw, cmd_paths, do_finalize=True, do_commit=True):
        from annet import deploy
        return deploy.apply_deploy_rulebook(hw, cmd_paths, do_finalize=do_finalize, do_commit=do_commit)

    def build_configuration_cmdlist(self, hw, do_finalize=True, do_commit=True):
        from annet.annlib.command import CommandList
        return CommandList(), CommandList()

    def build_exit_cmdlist(self, hw):
        from annet.annlib.command import CommandList
        return CommandList()


def observe(hw, vclass, pt, do_commit, do_finalize, drules, judge_params, check_model, sent_cl=None):
    from annet import deploy
    from annet.vendors import registry_connector
    fmt = registry_connector.get().match(hw).make_formatter(indent="  ")
    # the vendor class of the spec is read off the formatter the registry really hands out (trusted correspondence, DESIGN.md 9)
    vclass = {"HuaweiFormatter": "huawei", "CiscoFormatter": "cisco", "AsrFormatter": "asr", "CommonFormatter": "common",
              "OptixtransFormatter": "common"}.get(type(fmt).__name__, "exit")
    fmt0 = registry_connector.get().match(hw).make_formatter(indent="")
    shown = lex_patch(fmt.patch(pt), "  ")
    cmd_paths = fmt0.cmd_paths(pt)
    paths = [[c.split() for c in p] for p in cmd_paths]
    ctxs = [[[k, v] for k, v in (c or {}).items()] for _p, c in cmd_paths.items()]
    # the public signature is apply_deploy_rulebook(hw, cmd_paths, do_finalize=True, do_commit=True), the same as the deploy drivers'
    # method: callers may pass the two switches by position
    _CALLS[0] += 1
    if sent_cl is not None:
        cl = sent_cl                # the command list a production caller assembled itself
    elif _CALLS[0] % 2:
        cl = deploy.apply_deploy_rulebook(hw, cmd_paths, do_finalize, do_commit)
    else:
        cl = deploy.apply_deploy_rulebook(hw, cmd_paths, do_finalize=do_finalize, do_commit=do_commit)
    sent = [{"d": c.level, "row": c.cmd.split(), "timeout": int(c.timeout) if c.timeout is not None else -1,
             "answers": [q.answer for q in (c.questions or [])]} for c in cl]
    return {"v": vclass, "pt": pt_json(pt), "shown": shown, "paths": paths, "sent": sent, "docommit": do_commit, "dofinalize": do_finalize,
            "twostage": bool(TWOSTAGE.match(hw.model)), "nocommit": bool(NOCOMMIT.match(hw.model)), "flat": getattr(registry_connector.get().match(hw), "NAME", "") in FLAT_VENDORS,
            "drules": drules, "ctxs": ctxs, "judgeParams": judge_params, "checkModel": check_model}


def run(ctx):
    E.init()
    quick = ctx.tier == "quick"
    rnd = ctx.rng
    ctx.cov["rule"] = ("(vendor hardware, PatchTree, do_commit, do_finalize, deploy rulebook): TLC-enumerated trees with distinct sibling rows, "
                       "PatchTrees from the real make_patch over catalogue rulebooks and the sample corpus, random deeper trees; non-trivial = distinct "
                       "cases with at least one block (an exit command or nesting is involved)")
    ctx.assumptions += ["block-structured vendors only (juniper, nokia, ribbon, routeros flatten the patch and are out of this property's quantifier)",
                        "deploy rulebooks with pairwise disjoint sibling rules for the timeout/dialog clause",
                        "wrapper vocabulary (enter/commit/leave/save command names) is a table of the spec"]
    r = ctx.mc("mc/MC_Session.tla", "mc/MC_Session_%s.cfg" % ("quick" if quick else "thorough"), workers=1 if quick else 4, timeout=4 * 3600)
    if r.violated:
        ctx.reject("mc", "session model: %s" % r.violated, {"tlc": r.out[-3000:]}, None)
    trees = [json.loads(c[0])["pt"] for c in core.parse_tagged(r.out, "PT")]
    if len(trees) != r.distinct:
        raise core.Machinery("emitted %d trees for %d states" % (len(trees), r.distinct))
    ctx.cov["exhaustive"] = True
    recs = []
    from annet.rulebook import rulebook_provider_connector, DefaultRulebookProvider
    import annet.rulebook as rbmod
    default_dir = os.path.dirname(rbmod.__file__)
    # ---- scratch rulebook directory with synthetic deploy rules for every vendor (patching/ordering texts are the shipped ones)
    syn_root = os.path.join(ctx.scratch, "rbroot")
    os.makedirs(os.path.join(syn_root, "texts"))
    for f in os.listdir(os.path.join(default_dir, "texts")):
        if not f.endswith(".deploy"):
            shutil.copy(os.path.join(default_dir, "texts", f), os.path.join(syn_root, "texts", f))
    for v in VENDORS:
        open(os.path.join(syn_root, "texts", v + ".deploy"), "w").write("\n".join(deploy_text(SYN_DEPLOY)) + "\n")
    syn_provider = DefaultRulebookProvider(root_dir=syn_root)
    shipped_provider = DefaultRulebookProvider()
    drj = deploy_json(SYN_DEPLOY)

    def emit(tag, hw, vclass, pt, dc, df, drules, jp, cm):
        rec = {"id": "%s-%d" % (tag, len(recs))}
        try:
            rec.update(observe(hw, vclass, pt, dc, df, drules, jp, cm))
        except Exception as e:
            rec.update({"v": vclass, "pt": [], "shown": [], "paths": [], "sent": [], "docommit": dc, "dofinalize": df, "drules": [],
                        "judgeParams": False, "checkModel": False, "twostage": False, "nocommit": False, "flat": False, "ctxs": [], "exc": repr(e)})
        rec["hw"] = hw.model if hasattr(hw, "model") else str(hw)
        recs.append(rec)
        ctx.count()
        if any(len(p) > 1 for p in rec["paths"]):
            ctx.nontrivial(json.dumps([rec["hw"], rec["pt"], dc, df, bool(drules)]))

    flags = list(itertools.product([True, False], repeat=2))
    # ---- S2C: TLC's trees through every vendor; flags and rulebook kind rotate so that every combination is met many times
    for ti, tj in enumerate(trees):
        pt_cache = None
        for vi, (vend, (models, vclass)) in enumerate(VENDORS.items()):
            if quick and (ti + vi) % 3:
                continue
            hw = E.hwview(models[(ti + vi) % len(models)], "")
            dc, df = flags[(ti + vi) % 4]
            syn = (ti + vi) % 2 == 0
            rulebook_provider_connector._cache = syn_provider if syn else shipped_provider
            emit("s2c-%s" % vend, hw, vclass, build_pt(tj), dc, df, drj if syn else [], syn, True)
    ctx.sample({"kind": "s2c", "tree": trees[len(trees) // 2], "sent": recs[len(recs) // 2]["sent"]})
    rulebook_provider_connector._cache = shipped_provider
    # ---- PatchTrees from the real make_patch: catalogue rulebooks (huawei/cisco profiles) and the shipped corpus
    from annet import api
    from annet.vendors import registry_connector
    for prof in (["huawei", "cisco"] if quick else ["huawei", "cisco", "arista", "nexus", "h3c"]):
        cat = cases.Catalog(ctx, prof)
        vclass = VENDORS[cat.vendor][1]
        for k in range(1, len(cat.entries) + 1):
            pairs, _ = cat.pairs(k, 120 if quick else 2500, rnd)
            for (o, n) in pairs:
                try:
                    _d, p = api._diff_and_patch(cat.device, cases.tree(o), cases.tree(n), None, None, False, rb=cat.compiled[k - 1])
                except Exception:
                    continue
                if p:
                    dc, df = rnd.choice(flags)
                    emit("mk-%s" % prof, cat.hw, vclass, p, dc, df, [], False, False)
    for (name, vendor, hw, old, new) in corpus.samples():
        vreg = registry_connector.get().match(hw)
        vname = getattr(vreg, "NAME", "")
        if vname not in VENDORS:
            continue
        for (a, b) in ((old, new), (new, old)):
            try:
                _d, p = api._diff_and_patch(E.device(hw), E.cp(a), E.cp(b), None, None, False)
            except Exception:
                continue
            for dc, df in (flags if not quick else [rnd.choice(flags), (False, False)]):
                emit("corpus-%s" % vname, hw, VENDORS[vname][1], p, dc, df, [], False, False)
    # ---- flattening vendors: the wrapper clauses (only wrapper commands added, commit iff enabled, every command path sent once, in order)
    for (name, vendor, hw, old, new) in corpus.samples():
        vname = getattr(registry_connector.get().match(hw), "NAME", "")
        if vname not in FLAT_VENDORS:
            continue
        for (a, b) in ((old, new), (new, old)):
            for model in FLAT_VENDORS[vname]:
                hw2 = E.hwview(model, "")
                try:
                    _d, p = api._diff_and_patch(E.device(hw2), E.cp(a), E.cp(b), None, None, False)
                except Exception:
                    continue
                for dc, df in flags:
                    emit("flat-%s" % vname, hw2, "common", p, dc, df, [], False, False)
    # ---- the production caller: CliDeployerJob.parse_result(OldNewResult) with `--dont-commit` on and off; what it hands to the deploy
    # driver is judged like every other stream, against the patch of the same inputs under the same commit switch
    import types
    import annet.deploy
    from annet.types import OldNewResult
    from .. import genrun
    saved_get = annet.deploy.get_deployer
    annet.deploy.get_deployer = lambda: Drv()
    try:
        for (name, vendor, hw, old, new) in corpus.samples():
            vname = getattr(registry_connector.get().match(hw), "NAME", "")
            if vname not in VENDORS:
                continue
            for dont in (False, True):
                dev = genrun.Dev(hw)
                try:
                    job = api.CliDeployerJob(dev, types.SimpleNamespace(dont_commit=dont, acl_safe=False))
                    job.parse_result(OldNewResult(device=dev, old=E.cp(old), new=E.cp(new)))
                    _d, p = api._diff_and_patch(dev, E.cp(old), E.cp(new), None, None, False, do_commit=not dont)
                except Exception:
                    ctx.skip("production caller: vendor logic raised on a corpus sample")
                    continue
                cl = job.deploy_cmds.get(dev)
                if cl is None:
                    if registry_connector.get().match(hw).make_formatter(indent="").cmd_paths(p):
                        ctx.reject("prod-%s-%s" % (name, dont), "production-caller-sent-nothing-for-a-patch-with-commands", {"sample": name}, None)
                    continue
                rec = {"id": "prod-%s-%d" % (vname, len(recs))}
                rec.update(observe(hw, VENDORS[vname][1], p, not dont, True, [], False, False, sent_cl=cl))
                rec["hw"] = hw.model
                # the command lines announced to the operator are the last elements of the paths, in order
                announced = [ln.split() for ln in job.cmd_lines[2:-1]]
                if announced != [pth[-1] for pth in rec["paths"]]:
                    ctx.reject(rec["id"], "announced-command-lines-differ-from-the-patch", dict(rec, announced=announced), None)
                recs.append(rec)
                ctx.count()
    finally:
        annet.deploy.get_deployer = saved_get
    # ---- trees assembled from corpus blocks of one vendor (mixes rows of different deploy contexts / apply logics), real make_patch
    from .c16 import mix
    byv = {}
    for sm in corpus.samples():
        byv.setdefault(sm[1], []).append(sm)
    for vkey, ss in byv.items():
        vname = getattr(registry_connector.get().match(ss[0][2]), "NAME", "")
        if vname not in VENDORS:
            continue
        pool = []
        for sm in ss:
            for t in (sm[3], sm[4]):
                pool += list(t.items())
        for _ in range(40 if quick else 800):
            try:
                _d, p = api._diff_and_patch(E.device(ss[0][2]), mix(rnd, pool), mix(rnd, pool), None, None, False)
            except Exception:
                continue
            if p:
                dc, df = rnd.choice(flags)
                emit("mix-%s" % vname, ss[0][2], VENDORS[vname][1], p, dc, df, [], False, False)
    # ---- random trees over the words of the shipped rulebooks (rows synthesised from the rule lines), real make_patch
    from .. import synth
    from annet.rulebook import get_rulebook
    for vend, (models, vclass) in VENDORS.items():
        hw = E.hwview(models[0], "")
        try:
            voc = synth.vocabulary(get_rulebook(hw)["patching"], rnd)
        except Exception:
            continue
        for _ in range(60 if quick else 1500):
            try:
                _d, p = api._diff_and_patch(E.device(hw), synth.tree(voc, rnd), synth.tree(voc, rnd), None, None, False)
            except Exception:
                ctx.skip("vendor logic raised on a synthesised row (%s)" % vend)
                continue
            if p:
                dc, df = rnd.choice(flags)
                emit("synth-%s" % vend, hw, vclass, p, dc, df, [], False, False)
    # ---- random deeper trees (depth <= 4), distinct sibling rows
    words0 = [["interface", "x"], ["interface", "y"], ["xpl", "as-path-list", "L"], ["xpl", "route-filter", "F"], ["address-family", "ipv6"],
              ["prefix-set", "P"], ["route-policy", "R"], ["undo", "a"], ["rsa", "peer-public-key", "k"], ["bgp", "1"], ["crypto", "key", "gen"]]
    words1 = [["b", "1"], ["b", "2"], ["if", "c", "then"], ["elseif", "e", "then"], ["else"], ["undo", "d"], ["peer", "1"],
              ["address-family", "ipv4"], ["ip", "x"], ["shutdown"]]    # no row equal to a vendor exit word: it would duplicate the generated exit command

    def rtree(depth):
        rows = rnd.sample(words0 if depth == 0 else words1, rnd.randint(1, 3))
        if ["else"] in rows:           # an `else` closes the if-chain it follows: it comes last among its siblings
            rows = [r for r in rows if r != ["else"]] + [["else"]]
        out = []
        for rw in rows:
            blk = rnd.random() < 0.5 and depth < 3
            it = {"row": rw, "block": blk, "kids": rtree(depth + 1) if blk and rnd.random() < 0.8 else []}
            if rw[0] in ("shutdown", "crypto"):          # commands of rules with a %context
                it["block"], it["kids"] = False, []
                it["ctx"] = rnd.choice([{}, {"kind": "lag"}, {"kind": "phys"}, {"kind": "svi"}, {"mode": "a"}, {"mode": "b", "kind": "phys"}])
            out.append(it)
        return out
    for k in range(300 if quick else 6000):
        vend = rnd.choice(list(VENDORS))
        models, vclass = VENDORS[vend]
        hw = E.hwview(rnd.choice(models), "")
        dc, df = rnd.choice(flags)
        syn = rnd.random() < 0.5
        rulebook_provider_connector._cache = syn_provider if syn else shipped_provider
        emit("rnd-%s" % vend, hw, vclass, build_pt(rtree(0)), dc, df, drj if syn else [], syn, False)
    # targeted: a context-bound deploy rule followed by a plain rule for the same command, the command issued in and outside the context
    # (top level and inside a block)
    rulebook_provider_connector._cache = syn_provider
    for vend, (models, vclass) in VENDORS.items():
        hw = E.hwview(models[0], "")
        for cx in ({}, {"kind": "lag"}, {"kind": "svi"}, {"mode": "a"}, {"mode": "b", "kind": "phys"}, {"mode": "c"}):
            tj = [{"row": ["crypto", "key", "gen"], "block": False, "kids": [], "ctx": cx},
                  {"row": ["bgp", "1"], "block": True, "kids": [{"row": ["shutdown"], "block": False, "kids": [], "ctx": cx},
                                                               {"row": ["peer", "1"], "block": False, "kids": []}]},
                  {"row": ["interface", "x"], "block": True, "kids": [{"row": ["b", "1"], "block": False, "kids": []}]}]
            for dc, df in ((True, True), (False, False)):
                emit("ctx-%s" % vend, hw, vclass, build_pt(tj), dc, df, drj, True, False)
    rulebook_provider_connector._cache = shipped_provider
    slim = [{k: v for k, v in r.items() if k not in ("hw", "exc")} for r in recs]
    verd = ctx.judge("trace/Trace_Session.tla", "trace/Trace.cfg", slim, shards=16)
    for rec in recs:
        v = verd[rec["id"]]
        if "exc" in rec:
            ctx.reject(rec["id"], "annet raised: " + rec["exc"], rec, None)
        elif v[0] != "ok":
            ctx.reject(rec["id"], v[0], rec, signature_of(rec, v[0]))
        elif v[1] == 1:
            ctx.drift(1, {"id": rec["id"], "hw": rec["hw"], "pt": rec["pt"], "shown": rec["shown"]})


def signature_of(rec, clause):
    if clause == "cmd-paths-differ-from-shown-patch":
        # paths implied by the shown lines, first occurrence of each kept: equal to cmd_paths <=> the only difference is the collapse of
        # equal sibling commands (cmd_paths is a dict keyed by path)
        stack, seen, ded = [], set(), []
        for l in rec["shown"]:
            stack = stack[:l["d"]] + [l["row"]]
            key = json.dumps(stack)
            if key not in seen:
                seen.add(key)
                ded.append(list(stack))
        if ded == rec["paths"] and len(ded) < len(rec["shown"]) and rec["id"].startswith(("corpus-", "mix-", "synth-", "prod-")):
            return "patch from a shipped rulebook holds equal sibling commands; cmd_paths is keyed by path and keeps one"
    return None
