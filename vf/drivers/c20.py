"""C20 — results are independent of processing history and inputs are left unmodified.

MC   : spec/mc/MC_History: all job sequences <=3 over an abstract menu and four per-process caches (rulebooks, row regexps, ACLs, ordering);
       with the protections of the code (fine keys: hardware, text+flags; private copies: rule attributes, merged ACL children, the
       Orderer's ordering) every observed result equals the fresh one; each of the five protections switched off must fail.
S2C  : spec/mc/MC_HistorySeq emits every sequence of job indexes up to the bound; each sequence is executed in ONE forked process (as a pool
       worker serves devices); the reference of every job is computed alone in a fresh fork of the pristine parent.
C2S  : spec/trace/Trace_History compares, position by position, with the fresh reference; frame conditions (old, new, compiled rulebook
       snapshots) and a repeated call are part of every record.
Jobs : corpus samples of several vendors, two hardware models per vendor over the same config (rulebooks are Mako-templated per hardware),
       synthetic rulebooks with a rule-mutating logic, jobs sharing one compiled ACL object with overlapping rules, order_config jobs.
"""
import copy
import hashlib
import json
import os
import pickle
import re
import sys
from collections import OrderedDict as od

from .. import core
from .. import cases
from .. import corpus
from .. import annetenv as E


def canon(x):
    """structural dump of compiled rulebooks / ACLs (regex -> pattern+flags, functions -> qualified name)"""
    if isinstance(x, dict):
        return {str(k): canon(v) for k, v in x.items()}
    if isinstance(x, (list, tuple)):
        return [canon(v) for v in x]
    if isinstance(x, re.Pattern):
        return ["re", x.pattern, x.flags]
    if callable(x):
        return ["fn", getattr(x, "__module__", ""), getattr(x, "__qualname__", repr(x))]
    if isinstance(x, (str, int, float, bool)) or x is None:
        return x
    return repr(x)


def digest(x):
    return hashlib.sha1(json.dumps(x, sort_keys=True, default=str).encode()).hexdigest()[:16]


def build_jobs():
    """the job menu: list of dicts {name, kind, ...}; everything a job needs is created lazily inside the executing process"""
    jobs = []
    samples = corpus.samples()
    want = ["huawei_plist_replace.yaml #1", "huawei_vlan_batch.yaml #1", "cisco_policy_map.yaml #1", "nexus_lag_member_add.yaml #1",
            "arista_prefix_list.yaml #1", "juniper_inactive.yaml #1", "aruba_syslog.yaml #1"]
    for name, vendor, hw, old, new in samples:
        if name in want:
            jobs.append({"name": "corpus:" + name, "kind": "shipped", "model": hw.model, "old": cases.jtree(old), "new": cases.jtree(new)})
    iface = [{"row": ["interface", "100GE1/0/1"], "kids": [{"row": ["trust", "dscp"], "kids": []}, {"row": ["mtu", "9000"], "kids": []}]}]
    iface2 = [{"row": ["interface", "100GE1/0/1"], "kids": []}]
    # (the last one differs from the first in letter case only: the database patterns are case-sensitive, so it is another hardware)
    for model in ("Huawei CE6870", "Huawei NE40E", "Huawei S5700", "huawei ce6870"):
        jobs.append({"name": "hwvariant:" + model, "kind": "shipped", "model": model, "old": iface, "new": iface2})
    # one compiled ACL object shared by jobs; two overlapping (not nested) rules own a child with the same rule text but different
    # cant_delete; a row matched by both merges their children at match time; rows matched by only one of them follow
    acl = ("interface */Eth-Trunk\\S+/\n    description ~  %cant_delete=1\n    mtu *\n"
           "interface */\\S+\\.\\d+/\n    description ~  %cant_delete=0\n    vlan-type dot1q *\n")
    for nm, ifname in (("acl:both", "Eth-Trunk1.100"), ("acl:first-only", "Eth-Trunk1"), ("acl:second-only", "100GE1/0/1.5")):
        jobs.append({"name": nm, "kind": "shipped-acl", "model": "Huawei CE6870", "acl": acl,
                     "old": [{"row": ["interface", ifname], "kids": [{"row": ["description", "x"], "kids": []}, {"row": ["mtu", "9000"], "kids": []},
                                                                    {"row": ["vlan-type", "dot1q", "100"], "kids": []}]}],
                     "new": [{"row": ["interface", ifname], "kids": [{"row": ["mtu", "9100"], "kids": []}]}]})
    # synthetic rulebook whose logic writes to its rule argument
    rul = "x *  %logic=common.default_instead_undo\ny *\nblk *\n    z *  %logic=common.default_instead_undo\n"
    jobs.append({"name": "mutating:1", "kind": "synthetic", "vendor": "cisco", "model": "Cisco Catalyst C3750", "rul": rul,
                 "old": [{"row": ["x", "1"], "kids": []}, {"row": ["y", "1"], "kids": []}], "new": [{"row": ["y", "1"], "kids": []}]})
    jobs.append({"name": "mutating:2", "kind": "synthetic", "vendor": "cisco", "model": "Cisco Catalyst C3750", "rul": rul,
                 "old": [{"row": ["x", "2"], "kids": []}, {"row": ["blk", "1"], "kids": [{"row": ["z", "1"], "kids": []}]}],
                 "new": [{"row": ["x", "3"], "kids": []}, {"row": ["blk", "1"], "kids": []}]})
    # ordering rulebooks (compiled once per process, shared by every job): sibling rules with children whose languages overlap -- a row
    # matched by both takes its child order from both, rows matched by one of them must not inherit anything from that earlier job
    order = "blk */T\\S*/\n    x *\n    y *\nblk */\\S*1/\n    y *\n    z *\n"
    rul2 = "blk *\n    x *\n    y *\n    z *\n"
    kids = [{"row": ["z", "1"], "kids": []}, {"row": ["y", "1"], "kids": []}, {"row": ["x", "1"], "kids": []}]
    for nm, key in (("order:both", "T1"), ("order:first-only", "T2"), ("order:second-only", "A1")):
        jobs.append({"name": nm, "kind": "synthetic", "vendor": "huawei", "model": "Huawei CE6870", "rul": rul2, "order": order,
                     "old": [], "new": [{"row": ["blk", key], "kids": kids}]})
    tun = [{"row": ["interface", "Tunnel0/0/1"], "kids": [{"row": ["mtu", "1400"], "kids": []}, {"row": ["description", "t"], "kids": []},
                                                          {"row": ["tunnel-protocol", "gre"], "kids": []}]}]
    jobs.append({"name": "hw-tunnel", "kind": "shipped", "model": "Huawei CE6870", "old": [], "new": tun})
    # a row text that the shipped rulebook compiles with %ignore_case and an ACL compiles without: both go through one compiler cache
    icase_acl = "interface *\n    ipv6 enable\n    ipv6 nd ra min-interval\n    ipv6 nd ra max-interval ~\n"
    jobs.append({"name": "icase:acl", "kind": "shipped-acl", "model": "Huawei CE6870", "acl": icase_acl,
                 "old": [{"row": ["interface", "100GE1/0/1"], "kids": [{"row": ["ipv6", "enable"], "kids": []},
                                                                     {"row": ["ipv6", "nd", "ra", "min-interval", "200"], "kids": []},
                                                                     {"row": ["ipv6", "nd", "ra", "max-interval", "600"], "kids": []}]}],
                 "new": [{"row": ["interface", "100GE1/0/1"], "kids": [{"row": ["ipv6", "enable"], "kids": []},
                                                                     {"row": ["ipv6", "nd", "ra", "Min-Interval", "200"], "kids": []},
                                                                     {"row": ["ipv6", "nd", "ra", "max-interval", "600"], "kids": []}]}]})
    # reference tracking: the configs of a referring and a defining generator are inserted into THIS job's orderer (a copy of the cached
    # vendor ordering must be used); a later job on the same interface name must be ordered as in a fresh process
    iface_cfg = [{"row": ["interface", "100GE1/0/1"], "kids": [{"row": ["traffic-policy", "TP", "inbound"], "kids": []}]}]
    qos_cfg = [{"row": ["traffic", "policy", "TP"], "kids": [{"row": ["classifier", "C", "behavior", "B"], "kids": []}]}]
    jobs.append({"name": "reftrack", "kind": "shipped", "model": "Huawei CE6870", "old": [], "new": qos_cfg + iface_cfg,
                 "ref": {"ref": iface_cfg, "def": qos_cfg}})
    jobs.append({"name": "isis-after-reftrack", "kind": "shipped", "model": "Huawei CE6870", "old": [],
                 "new": [{"row": ["interface", "100GE1/0/1"], "kids": [{"row": ["isis", "enable", "1"], "kids": []}]},
                         {"row": ["isis", "1"], "kids": [{"row": ["network-entity", "49.0001.0000.0000.0001.00"], "kids": []}]}]})
    jobs.append({"name": "unknown-rows", "kind": "shipped", "model": "Cisco Catalyst C3750",
                 "old": [{"row": ["zz-unknown-row", "1"], "kids": []}, {"row": ["hostname", "a"], "kids": []}],
                 "new": [{"row": ["zz-unknown-row", "2"], "kids": []}, {"row": ["hostname", "b"], "kids": []}]})
    # rows the shipped rulebook deliberately does not manage (`!` rules), at the top level and inside a block: they take no part in the
    # diff, and they are still in the caller's trees afterwards (the ordered configuration is computed from `new` after the diff)
    jobs.append({"name": "ignored-rows:cisco", "kind": "shipped", "model": "Cisco Catalyst C3750",
                 "old": [{"row": ["snmp-server", "user", "admin", "grp", "v3"], "kids": []}, {"row": ["hostname", "a"], "kids": []},
                         {"row": ["interface", "GigabitEthernet1/0/1"], "kids": [{"row": ["no", "ip", "address"], "kids": []}, {"row": ["description", "x"], "kids": []}]}],
                 "new": [{"row": ["snmp-server", "user", "admin", "grp", "v3"], "kids": []}, {"row": ["hostname", "b"], "kids": []},
                         {"row": ["interface", "GigabitEthernet1/0/1"], "kids": [{"row": ["no", "ip", "address"], "kids": []}, {"row": ["description", "y"], "kids": []}]}]})
    jobs.append({"name": "ignored-rows:huawei", "kind": "shipped", "model": "Huawei CE6870",
                 "old": [{"row": ["snmp-agent", "local-engineid", "800007DB03"], "kids": []}, {"row": ["sysname", "a"], "kids": []}],
                 "new": [{"row": ["sysname", "b"], "kids": []}, {"row": ["snmp-agent", "local-engineid", "800007DB04"], "kids": []}]})
    # two boxes of one model running different software: the hardware view carries the software version too
    for soft in ("VRP (R) software, Version 8.180 (CE8850 V200R005C10SPC800)", "VRP (R) software, Version 8.191 (CE8850 V200R019C10SPC800)"):
        jobs.append({"name": "soft:" + soft[-19:-1], "kind": "shipped", "model": "Huawei CE8850", "soft": soft,
                     "old": [{"row": ["ssh", "server-source", "-i", "Vlanif10"], "kids": []}, {"row": ["telnet", "server-source", "-i", "Vlanif10"], "kids": []},
                             {"row": ["sysname", "a"], "kids": []}],
                     "new": [{"row": ["sysname", "b"], "kids": []}]})
    # `--filter-acl <dir>`: every device has its own <hostname>.acl in that directory; the worker's `stdin` dict (made once per command) and
    # the args are shared by all devices a process serves
    two = lambda a, b: [{"row": ["interface", "GE1/0/1"], "kids": [{"row": ["mtu", a], "kids": []}]},
                        {"row": ["interface", "GE1/0/2"], "kids": [{"row": ["mtu", b], "kids": []}]}]
    for host, ifname in (("sw1", "GE1/0/1"), ("sw2", "GE1/0/2")):
        jobs.append({"name": "filterdir:" + host, "kind": "shipped", "model": "Huawei CE6870", "hostname": host,
                     "filter_acl_file": "interface %s\n    mtu *\n" % ifname, "old": two("1500", "1500"), "new": two("9000", "9100")})
    return jobs


_ACL_CACHE = {}
_STDIN = {"filter_acl": None, "config": None}        # what args.stdin(...) returns when nothing is read from standard input: one dict per command
_FILTER_DIR = []


class _RefGen:      # stands for a generator whose output refers to ...
    pass


class _DefGen:      # ... what this one defines
    pass


def run_job(job):
    """executes one job with the real code; returns (result digest source, frames ok)"""
    E.init()
    from annet import api, patching, rulebook
    from annet.vendors import registry_connector
    hw = E.hwview(job["model"], job.get("soft", ""))
    old, new = cases.tree(job["old"]), cases.tree(job["new"])
    old0, new0 = copy.deepcopy(old), copy.deepcopy(new)
    acl = None
    if job["kind"] == "shipped-acl":
        # the generators' ACL is compiled before the rulebook is looked up (as annet.gen does)
        from annet.annlib.rbparser.acl import compile_acl_text
        acl = compile_acl_text(job["acl"], hw.vendor)          # lru_cached: the same object is shared by every job of the process
    if job["kind"] == "synthetic":
        from annet.rulebook.patching import compile_patching_text
        from annet.annlib.rbparser.ordering import compile_ordering_text
        from annet.rulebook.deploying import compile_deploying_text
        rb = {"patching": compile_patching_text(job["rul"], job["vendor"]), "ordering": compile_ordering_text(job.get("order", ""), job["vendor"]),
              "deploying": compile_deploying_text("", job["vendor"])}
    else:
        rb = rulebook.get_rulebook(hw)
    rb0 = digest(canon(rb))
    fmt = registry_connector.get().match(hw).make_formatter(indent="")
    ref_track = None
    if job.get("ref"):
        from annet.reference import RefTracker
        ref_track = RefTracker()
        ref_track.add(_RefGen, _DefGen)
        ref_track.config(_RefGen, cases.tree(job["ref"]["ref"]))
        ref_track.config(_DefGen, cases.tree(job["ref"]["def"]))
    flt = None
    device = E.device(hw)
    if job.get("filter_acl_file"):
        import types
        from annet import gen as anngen
        if not _FILTER_DIR:
            raise RuntimeError("filter-acl directory not prepared by the driver")
        device.hostname = job["hostname"]
        target = os.path.join(_FILTER_DIR[0], job["hostname"] + ".acl")
        if not os.path.exists(target):          # job runners work in parallel on one directory: the file appears atomically, once
            tmp = "%s.%d.tmp" % (target, os.getpid())
            with open(tmp, "w") as fh:
                fh.write(job["filter_acl_file"])
            os.replace(tmp, target)
        fargs = types.SimpleNamespace(filter_acl=_FILTER_DIR[0], filter_ifaces=[], filter_peers=[], filter_policies=[])
        flt = anngen.build_filter_acl(None, device, _STDIN, fargs, _FILTER_DIR[0])
    d, p = api._diff_and_patch(device, old, new, acl, flt, False, ref_track=ref_track, rb=rb)
    res = {"diff": cases.jdiff(d), "cmds": [list(x) for x in fmt.cmd_paths(p)],
           "ordered": E.plain((patching.Orderer(rb["ordering"], job["vendor"]) if job["kind"] == "synthetic" else patching.Orderer.from_hw(hw))
                              .order_config(new))}
    frames = (E.plain(old) == E.plain(old0) and list(old) == list(old0) and E.plain(new) == E.plain(new0) and list(new) == list(new0)
              and digest(canon(rb)) == rb0)
    return digest(res), frames, res


def in_fork(fn):
    """run fn() in a forked child of the (pristine) driver process and return its pickled result"""
    r, w = os.pipe()
    pid = os.fork()
    if pid == 0:
        try:
            os.close(r)
            try:
                out = ("ok", fn())
            except BaseException as e:   # noqa
                out = ("exc", repr(e))
            with os.fdopen(w, "wb") as f:
                pickle.dump(out, f)
        finally:
            os._exit(0)
    os.close(w)
    with os.fdopen(r, "rb") as f:
        data = f.read()
    os.waitpid(pid, 0)
    if not data:
        raise core.Machinery("forked job runner died")
    st, val = pickle.loads(data)
    if st == "exc":
        raise core.Machinery("job runner raised: " + val)
    return val


def run(ctx):
    quick = ctx.tier == "quick"
    rnd = ctx.rng
    ctx.cov["rule"] = ("job sequences executed in one process vs each job alone in a fresh process: all sequences up to the TLC bound over the job "
                       "menu plus seeded longer ones; non-trivial = distinct sequences of length >= 2 whose jobs share a vendor, a rule text or an ACL object")
    ctx.assumptions += ["a forked child of the driver (annet imported, no job run yet) counts as a fresh process",
                        "results are compared by digest of (stripped diff, command paths, ordered config)",
                        "compiled ACLs carry a scratch `match` field: only result equality is required for them"]
    for cfg, expect in (("ok", None), ("regress_key", "ObsDeterminism"), ("regress_rekey", "ObsDeterminism"), ("regress_copy", "CacheFrame"),
                        ("regress_aclmerge", "CacheFrame"), ("regress_orderer", "CacheFrame")):
        r = ctx.mc("mc/MC_History.tla", "mc/MC_History_%s.cfg" % cfg, workers=2, expect_ok=False)
        if expect is None and r.violated:
            ctx.reject("mc", "History model: %s" % r.violated, {"tlc": r.out[-3000:]}, None)
        if expect is not None and expect not in r.violated:
            raise core.Machinery("anti-vacuity: protection switched off (%s) no longer violates %s" % (cfg, expect))
        if expect:
            ctx.cov["mc_runs"][-1]["expected"] = "%s violated (regression instance)" % expect
    jobs = build_jobs()
    n = len(jobs)
    del _FILTER_DIR[:]
    _FILTER_DIR.append(os.path.join(ctx.scratch, "filteracl"))      # inherited by every forked job runner; removed with the scratch directory
    os.makedirs(_FILTER_DIR[0], exist_ok=True)
    cfgp = os.path.join(ctx.scratch, "hseq.cfg")
    open(cfgp, "w").write("CONSTANTS\n  MaxLen = %d\n  NJobs = %d\nINIT Init\nNEXT Next\nINVARIANT EmitSeq\n" % (2 if quick else 3, n))
    r = ctx.mc("mc/MC_HistorySeq.tla", cfgp, name="MC_HistorySeq", workers=1)
    seqs = [json.loads(c[0])["s"] for c in core.parse_tagged(r.out, "SEQ")]
    if len(seqs) + 1 != r.distinct:
        raise core.Machinery("sequence emission incomplete")
    ctx.cov["exhaustive"] = True
    for _ in range(60 if quick else 1500):
        seqs.append([rnd.randint(1, n) for _ in range(rnd.randint(3, 8))])
    # references: every job alone in a fresh process
    ref, ref_res = [], []
    for j in jobs:
        dg, fr, res = in_fork(lambda j=j: run_job(j))
        ref.append(dg)
        ref_res.append(res)
        if not fr:
            ctx.reject("ref-" + j["name"], "input-or-rulebook-modified (single job)", {"job": j}, None)
    ctx.sample({"job": jobs[0]["name"], "fresh_result": ref_res[0]})

    def run_seq(s):
        out = []
        for k in s:
            dg, fr, _res = run_job(jobs[k - 1])
            out.append((dg, fr))
        again = run_job(jobs[s[-1] - 1])[0]
        return out, again
    recs = []
    import concurrent.futures as cf
    with cf.ThreadPoolExecutor(max_workers=core.NCPU) as ex:
        for s, (out, again) in zip(seqs, ex.map(lambda s: in_fork(lambda: run_seq(s)), seqs)):
            recs.append({"id": "seq-%d" % len(recs), "seq": s, "got": [o[0] for o in out], "ref": ref, "frames": [o[1] for o in out], "again": again,
                         "names": [jobs[k - 1]["name"] for k in s]})
            ctx.count()
            if len(s) >= 2:
                ctx.nontrivial(json.dumps(s))
    verd = ctx.judge("trace/Trace_History.tla", "trace/Trace.cfg", [{k: v for k, v in r.items() if k != "names"} for r in recs], shards=8)
    for rec in recs:
        v = verd[rec["id"]]
        if v[0] != "ok":
            ctx.reject(rec["id"], "%s at position %s (%s)" % (v[0], v[1], rec["names"][v[1] - 1] if v[1] else ""), rec, None)
