"""C17 — implicit defaults never override explicit config and never cause commands alone.

P-layer : spec/Implicit.tla (completion: default added iff no line matching the rule's pattern; default blocks come with their defaults).
Binding : implicit.compile_rules(device) / implicit.config / merge_dicts for every hardware branch of implicit._implicit_tree (Huawei CE / NE /
          other, Arista, Nexus variants incl. the tag-dependent one, Cisco Catalyst variants); the rule trees are taken from annet as DATA
          (rows lexed into RuleLang tokens with the C07 lexer); trees t,u are synthesised from the rules (matching rows, the default itself,
          competing values, unrelated rows); the patch between the two completions is built over the shipped rulebook of that hardware.
Judge   : spec/trace/Trace_Implicit.
"""
import copy
import json
import types
from collections import OrderedDict as od

from .. import core
from .. import cases
from .. import annetenv as E
from . import c07
from .. import genrun

HARDWARE = [
    ("Huawei CE6870", ()), ("Huawei NE40E", ()), ("Huawei S5700", ()), ("Arista DCS-7368", ()),
    ("Cisco Nexus 3432", ()), ("Cisco Nexus 9516", ("spine1",)), ("Cisco Nexus 9516", ()), ("Cisco Nexus 9316", ()), ("Cisco Nexus 3172", ()),
    ("Cisco Nexus 9336", ()), ("Cisco Catalyst C2960", ()), ("Cisco Catalyst C3750", ()), ("Cisco Catalyst C3560", ()), ("Cisco ASR 9000", ()),
]
EXTRA = ("Ethernet1/1", "Ethernet1/1/1", "Ethernet1", "GigabitEthernet0/1", "XGigabitEthernet0/0/1", "Loopback0", "port-channel10", "Vlan10", "mgmt0",
         "0", "1", "vty", "con", "unicast", "65000", "10.0.0.1", "rstp")


def scribble(t):
    """write a foreign row into every block of a tree, in place"""
    for row, kids in list(t.items()):
        if isinstance(kids, dict):
            scribble(kids)
            kids["zz-foreign 1"] = type(kids)()


def rules_json(tree, skipped):
    """annet's parsed implicit rule tree -> judge rules (data only: rows lexed into tokens)"""
    out = []
    for _raw, attrs in tree.items():
        row = attrs["row"]
        try:
            toks, icase, alphabet = c07.lex_rule_row(row, alphabet_extra=EXTRA)
        except c07.Outside as o:
            skipped.append("%s (%s)" % (row, o))
            continue
        out.append({"pat": [{k: v for k, v in t.items() if k != "src"} for t in toks], "row": row.split(), "ign": attrs["type"] == "ignore",
                    "kids": rules_json(attrs["children"], skipped) if attrs.get("children") else [], "_alphabet": alphabet, "_toks": toks})
    return out


def strip_private(rules):
    return [{"pat": r["pat"], "row": r["row"], "ign": r["ign"], "kids": strip_private(r["kids"])} for r in rules]


# explicit lines that live next to the defaults inside blocks and are handled by vendor-specific diff / patch logics of the shipped rulebooks
# (VRF binding re-enters the interface, addresses, plain attributes); at most one of each alternative group per block, put first
COMPANIONS = {
    "nexus": [["vrf member A", "vrf member B"], ["ip address 10.0.0.1/24", "ip address 10.0.0.2/24"], ["description x"], ["mtu 9000"]],
    "cisco": [["vrf forwarding A", "vrf forwarding B"], ["ip address 10.0.0.1 255.255.255.0"], ["description x"]],
    "huawei": [["ip binding vpn-instance A", "ip binding vpn-instance B"], ["ip address 10.0.0.1 24"], ["description x"], ["mtu 9000"]],
    "arista": [["vrf A", "vrf B"], ["ip address 10.0.0.1/24"], ["description x"], ["mtu 9000"]],
}


def synth_tree(rules, rnd, depth=0, vendor=None):
    """a tree over rows derived from the implicit rules: instances, the default itself, competing values, unrelated rows"""
    t = od()
    if depth >= 1 and vendor in COMPANIONS and rnd.random() < 0.6:
        for group in COMPANIONS[vendor]:
            if rnd.random() < 0.5:
                t[rnd.choice(group)] = od()
    for r in rules:
        x = rnd.random()
        rows = []
        if x < 0.35:
            pass                                           # nothing of that kind: the default must appear
        elif x < 0.6:
            inst = c07.synth_rows(r["_toks"], r["_alphabet"], rnd, 1)
            if inst:
                rows.append(inst[0])
        elif x < 0.75 and not r["ign"]:
            rows.append(list(r["row"]))                    # the default line written explicitly
        elif x < 0.9:
            comp = list(r["row"])
            comp[-1] = rnd.choice(["rstp", "7", "other"])  # a competing value: same leading words, different last word
            rows.append(comp)
        else:
            inst = c07.synth_rows(r["_toks"], r["_alphabet"], rnd, 2)
            rows += inst[:3]
        for row in rows:
            if not all(w in r["_alphabet"] or w in ("rstp", "7", "other") for w in row) and any(tk["t"] == "set" for tk in r["_toks"]):
                continue
            t[" ".join(row)] = synth_tree(r["kids"], rnd, depth + 1, vendor) if r["kids"] and rnd.random() < 0.8 else od()
    if rnd.random() < 0.3:
        t["zz unrelated %d" % rnd.randint(1, 2)] = od()
    return t


def run(ctx):
    E.init()
    from annet import implicit, api
    from annet.annlib.lib import merge_dicts
    from annet.vendors import registry_connector
    quick = ctx.tier == "quick"
    rnd = ctx.rng
    ctx.cov["rule"] = ("(hardware branch of the implicit rules, t, u): trees synthesised from the implicit rule rows; non-trivial = distinct cases "
                       "where completion adds at least one default and t holds at least one line matching an implicit rule")
    ctx.assumptions += ["implicit rule rows are lexed into RuleLang tokens (C07 lexer); single-word regex tables via re.fullmatch",
                        "patch clause uses the shipped rulebook of the hardware; add_comments off, no ACL"]
    recs = []
    per = 200 if quick else 2500
    # vocabulary for tree synthesis: the union of the rules of all variants of one vendor (a variant must be tested on rows that only
    # OTHER variants have rules for: tables are selected per model and tags)
    vocab = {}
    for model, tags in HARDWARE:
        dev0 = types.SimpleNamespace(hw=E.hwview(model, ""), tags=set(tags), hostname="vf", fqdn="vf.example")
        sk = []
        vocab.setdefault(dev0.hw.vendor, []).extend(rules_json(implicit._implicit_tree(dev0), sk))
    for model, tags in HARDWARE:
        hw = E.hwview(model, "")
        dev = types.SimpleNamespace(hw=hw, tags=set(tags), hostname="vf", fqdn="vf.example")
        tree = implicit._implicit_tree(dev)
        skipped = []
        rj = rules_json(tree, skipped)
        for s in skipped:
            ctx.skip("implicit rule outside the token language: " + s)
        if not rj or skipped:
            continue            # a branch with a rule the judge cannot read is not judged at all (soundness)
        crules = implicit.compile_rules(dev)
        fmt = registry_connector.get().match(hw).make_formatter(indent="")
        prefix = registry_connector.get().match(hw).reverse
        jr = strip_private(rj)
        for k in range(per):
            voc = rj if k % 3 else vocab[hw.vendor]
            comp = hw.vendor if k % 2 else None
            t, u = synth_tree(voc, rnd, 0, comp), synth_tree(voc, rnd, 0, comp)
            if k % 7 == 0:
                t = od()
            if k % 11 == 0:
                u = od()
            rec = {"id": "%s%s-%d" % (model.replace(" ", "_"), "+" + "+".join(tags) if tags else "", len(recs)), "rules": jr, "prefix": prefix,
                   "t": cases.jtree(t), "u": cases.jtree(u), "hw": model}
            try:
                mt = merge_dicts(t, implicit.config(t, crules))
                mt2 = merge_dicts(mt, implicit.config(mt, crules))
                mu = merge_dicts(u, implicit.config(u, crules))
                rec.update({"mt": cases.jtree(mt), "mt2": cases.jtree(mt2), "mu": cases.jtree(mu)})
                rec["independent"] = True
                keep = (mt, copy.deepcopy(t), copy.deepcopy(u))
                try:
                    _d, p = api._diff_and_patch(E.device(hw), mt, mu, None, None, False)
                    rec["cmds"] = cases.jpaths(fmt.cmd_paths(p))
                except Exception:
                    rec["cmds"] = []
                    ctx.skip("vendor logic raised on a synthesised row (patch clause not judged)")
            except Exception as e:
                rec.update({"mt": [], "mt2": [], "mu": [], "cmds": [], "independent": True, "exc": repr(e)})
            recs.append(rec)
            ctx.count()
            # the production path: annet.gen._old_new_per_device completes old and new itself (add_implicit), for a normal run and for
            # `--clear` (no_new: nothing is generated); the patch between what it returns obeys the same clause
            # a blank device (`--config empty`): nothing is read, the device side is the completion of nothing
            if not t and "exc" not in rec and k % 2 == 0:
                prec = dict(rec, id=rec["id"] + "-blank")
                try:
                    gdev = genrun.Dev(hw)
                    gdev.tags = set(tags)
                    gen = genrun.make_generator("GenAll", genrun.tree_prog(u), "~  %global\n", hw.vendor)
                    probe = genrun.old_new(gdev, [gen], running_text=None, add_implicit=False)
                    if probe.err is not None or probe.old:
                        raise LookupError("the vendor starts a blank device from an initial configuration of its own")
                    res = genrun.old_new(gdev, [gen], running_text=None, add_implicit=True)
                    if res.err is not None:
                        raise res.err
                    _d, p = api._diff_and_patch(E.device(hw), res.old, res.new, res.acl_rules, None, False)
                    prec["cmds"] = cases.jpaths(fmt.cmd_paths(p))
                    recs.append(prec)
                    ctx.count()
                except Exception as e:
                    ctx.skip("production path (blank device) not judged: %s" % type(e).__name__)
            if k % 4 == 0 and "exc" not in rec and t:      # (an empty running config makes annet start from the vendor's initial config instead)
                no_new = (k % 8 == 0)
                u_eff = od() if no_new else u
                prec = dict(rec, id=rec["id"] + ("-clear" if no_new else "-gen"), u=cases.jtree(u_eff))
                try:
                    gdev = genrun.Dev(hw)
                    gdev.tags = set(tags)
                    gen = genrun.make_generator("GenAll", genrun.tree_prog(u), "~  %global\n", hw.vendor)
                    res = genrun.old_new(gdev, [gen], running_text=registry_connector.get().match(hw).make_formatter().join(t) if t else "",
                                         add_implicit=True, no_new=no_new)
                    if res.err is not None:
                        raise res.err
                    prec["mu"] = cases.jtree(merge_dicts(u_eff, implicit.config(u_eff, crules)))
                    _d, p = api._diff_and_patch(E.device(hw), res.old, res.new, res.acl_rules, None, False)
                    prec["cmds"] = cases.jpaths(fmt.cmd_paths(p))
                    recs.append(prec)
                    ctx.count()
                except Exception as e:
                    ctx.skip("production path not judged: %s" % type(e).__name__)
            # completed trees do not share parts with the compiled rules or with each other: writing below the default rows of one result
            # (in place, last thing done with it) changes no later completion.  (A result shares subtrees with ITS OWN input, by design.)
            if "exc" not in rec:
                mt_obj, t0, u0 = keep
                scribble(mt_obj)
                rec["independent"] = (cases.jtree(merge_dicts(u0, implicit.config(u0, crules))) == rec["mu"]
                                      and cases.jtree(merge_dicts(t0, implicit.config(t0, crules))) == rec["mt"])
            if rec.get("mt") and len(rec["mt"]) > len(rec["t"]) and rec["t"]:
                ctx.nontrivial(json.dumps([model, tags, rec["t"], rec["u"]]))
    ctx.sample({"hw": recs[0]["hw"], "t": recs[0]["t"], "completed": recs[0].get("mt")})
    slim = [{k: v for k, v in r.items() if k not in ("hw", "exc")} for r in recs]
    verd = ctx.judge("trace/Trace_Implicit.tla", "trace/Trace.cfg", slim, shards=16)
    for rec in recs:
        v = verd[rec["id"]][0]
        if "exc" in rec:
            ctx.reject(rec["id"], "annet raised: " + rec["exc"], rec, None)
        elif v != "ok":
            ctx.reject(rec["id"], v, rec, signature_of(rec, v))


def signature_of(rec, clause):
    return None
