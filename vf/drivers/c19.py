"""C19 — file-based devices get each changed file once, from the winning generator.

MC   : spec/mc/MC_FileDeploy: for every listing order of every generator set in bounds, sequential add_entire (A) = order-free winner (P).
C2S  : real Entire generator objects in every listing order through generators.run_file_generators(...).new_files(), the production
       PCDeployerJob.parse_result (deploy driver stubbed) for entire_reload in {yes,no,force}, and ann_diff.pc_diff; judged by
       spec/trace/Trace_FileDeploy.
"""
import itertools
import json
import types

from .. import core
from .. import genrun
from .. import annetenv as E


def mk_gen(name, path, prio, out, reload, safe, supports=True, how="class"):
    from annet.generators.entire import Entire

    def run(self, device):
        if not supports and how.endswith("+raise"):
            from annet.generators.exceptions import NotSupportedDevice
            raise NotSupportedDevice("not for this box")     # the other way to decline a device: from inside run()
        yield out
    attrs = {"path": lambda s, d: path, "run": run, "reload": lambda s, d: reload, "is_safe": lambda s, d: safe, "TAGS": []}
    if not supports and not how.endswith("+raise"):
        attrs["supports_device"] = lambda s, d: False       # the hook is overridable on its own: path() still names a file
    if how.startswith("instance"):
        # the priority is decided per instance (from the inventory, say) before delegating to Entire.__init__, which keeps a value it finds
        def init(self, storage):
            self.prio = prio
            Entire.__init__(self, storage)
        attrs["__init__"] = init
    elif prio != 100:
        attrs["prio"] = prio            # a generator that declares no priority gets the class default (100)
    cls = type(name, (Entire,), attrs)
    return cls(storage=genrun.STORAGE)


class Drv:
    def build_configuration_cmdlist(self, hw, do_finalize=True, do_commit=True):
        from annet.annlib.command import CommandList
        return CommandList(), CommandList()

    def build_exit_cmdlist(self, hw):
        from annet.annlib.command import CommandList
        return CommandList()


def run(ctx):
    E.init()
    import annet.deploy
    from annet import api, cli_args, diff as ann_diff
    from annet.types import OldNewResult
    from annet.generators import run_file_generators
    if ann_diff.file_differ_connector._classes is None:
        ann_diff.file_differ_connector.set(ann_diff.UnifiedFileDiffer)
    annet.deploy.get_deployer = lambda: Drv()
    quick = ctx.tier == "quick"
    rnd = ctx.rng
    ctx.cov["rule"] = ("(generator set in one listing order, old file map, entire_reload, safe mode): all orders of generator sets over 2 paths with distinct "
                       "prios, outputs incl. trailing-newline variants; non-trivial = distinct cases where at least one path has two competing generators "
                       "or the device already holds a file")
    ctx.assumptions += ["deploy driver (connector) stubbed: no wrapper commands", "file differ = UnifiedFileDiffer", "distinct priorities per path"]
    r = ctx.mc("mc/MC_FileDeploy.tla", "mc/MC_FileDeploy.cfg", workers=4)
    if r.violated:
        ctx.reject("mc", "FileDeploy model: %s" % r.violated, {"tlc": r.out[-3000:]}, None)
    hw = E.hwview("PC", "")
    recs = []
    outs = ["x", "y", "x\n", "y\n", "x\ny", "y\nx", "a\nb\na\n", "a\na\nb\n"]      # incl. the same lines in another order      # (an empty generated file vs an absent one is left out: not fixed by the property)
    olds = [None, "x", "y", "y\n", "x\n", "x\ny", "y\nx", "a\na\nb\n"]
    paths = ["/etc/a", "/etc/b"]
    flags = {"yes": cli_args.EntireReloadFlag.yes, "no": cli_args.EntireReloadFlag.no, "force": cli_args.EntireReloadFlag.force}
    n_sets = 450 if quick else 12000
    for k in range(n_sets):
        ng = rnd.randint(1, 4)
        gs, used = [], set()
        for gi in range(ng):
            p = rnd.choice(paths)
            pr = rnd.choice([x for x in (0, 0, 1, 2, 3, 5, 8, 50, 99, 100, 101) if (p, x) not in used])      # 0 and the class default 100 included
            used.add((p, pr))
            gs.append({"path": p, "prio": pr, "out": rnd.choice(outs), "reload": rnd.choice(["", "reload %d" % gi, "systemctl restart x"]),
                       "safe": rnd.random() < 0.6, "supports": rnd.random() >= 0.15,
                       # generator classes need not have distinct names (a site generator overriding a stock one of the same name, one
                       # class instantiated per file): results are keyed by path and decided by priority
                       "name": rnd.choice(["G%d" % gi, "G%d" % gi, "Motd", "Motd"]),
                       "how": rnd.choice(["class", "class", "instance"]) + rnd.choice(["", "+raise"])})
        old = {p: rnd.choice(olds) for p in paths + ["/etc/other"]}
        old = {p: c for p, c in old.items() if c is not None}
        orders = list(itertools.permutations(gs)) if len(gs) <= 3 else rnd.sample(list(itertools.permutations(gs)), 6)
        for order in orders:
            for rname in ("yes", "no", "force"):
                safe = rnd.random() < 0.25
                dev = genrun.Dev(hw, "pc%d" % k)
                rec = {"id": "fd-%d" % len(recs), "gens": [{k2: g[k2] for k2 in ("path", "prio", "out", "reload", "safe", "supports")} for g in order],
                       "oldp": list(old), "oldc": [old[p] for p in old], "reload": rname, "safe": safe}
                try:
                    res = run_file_generators([mk_gen(g["name"], g["path"], g["prio"], g["out"], g["reload"], g["safe"], g["supports"], g["how"]) for g in order], dev)
                    # the full and the safe plan are asked of the same result object, in either order, and asked again (as annet.gen does)
                    calls = rnd.choice([("full", "safe"), ("safe", "full")])
                    plans = {c: res.new_files(safe=(c == "safe")) for c in calls}
                    again = {c: res.new_files(safe=(c == "safe")) for c in reversed(calls)}
                    nf = plans["safe" if safe else "full"]
                    rec.update({"fullp": list(plans["full"]), "fullc": [v[0] for v in plans["full"].values()],
                                "safep": list(plans["safe"]), "safec": [v[0] for v in plans["safe"].values()], "stable": again == plans})
                    rec.update({"newp": list(nf), "newc": [nf[p][0] for p in nf], "newr": [nf[p][1] for p in nf]})
                    args = types.SimpleNamespace(entire_reload=flags[rname], acl_safe=safe)
                    job = api.PCDeployerJob(dev, args)
                    onr = OldNewResult(device=dev, old_files=dict(old), new_files=plans["full"], safe_new_files=plans["safe"])
                    job.parse_result(onr)
                    dc = job.deploy_cmds.get(dev, {"files": {}, "cmds": {}})
                    rec.update({"upp": list(dc["files"]), "upc": [dc["files"][p].decode() for p in dc["files"]],
                                "cmdp": list(dc["cmds"]), "cmdc": [dc["cmds"][p].decode().split("\n")[0] if "\n" in dc["cmds"][p].decode() else dc["cmds"][p].decode()
                                                                   for p in dc["cmds"]]})
                    # multi-line reload strings are not generated, so the first line is the generator's reload command
                    rec["diffp"] = [f.label.split(dev.hostname + "/", 1)[1] for f in ann_diff.pc_diff(hw, dev.hostname, dict(old), nf)]
                except Exception as e:
                    rec.update({"newp": [], "newc": [], "newr": [], "upp": [], "upc": [], "cmdp": [], "cmdc": [], "diffp": [], "fullp": [], "fullc": [], "safep": [],
                                "safec": [], "stable": True, "exc": repr(e)})
                recs.append(rec)
                ctx.count()
                if len(gs) > len({g["path"] for g in gs}) or old:
                    ctx.nontrivial(json.dumps([rec["gens"], rec["oldp"], rec["oldc"], rname, safe]))
    ctx.sample({"gens": recs[0]["gens"], "old": dict(zip(recs[0]["oldp"], recs[0]["oldc"])), "reload": recs[0]["reload"],
                "uploaded": dict(zip(recs[0]["upp"], recs[0]["upc"]))})
    verd = ctx.judge("trace/Trace_FileDeploy.tla", "trace/Trace.cfg", [{k: v for k, v in r.items() if k != "exc"} for r in recs], shards=16)
    for rec in recs:
        v = verd[rec["id"]][0]
        if "exc" in rec:
            ctx.reject(rec["id"], "annet raised: " + rec["exc"], rec, None)
        elif v != "ok":
            ctx.reject(rec["id"], v, rec, signature_of(rec, v))


def signature_of(rec, clause):
    """known finding: every path on which expectation and outcome disagree differs from the device's content only in the final newline"""
    if clause not in ("changed-file-not-uploaded", "file-diff-shown-iff-contents-differ-violated"):
        return None
    old = dict(zip(rec["oldp"], rec["oldc"]))
    new = dict(zip(rec["newp"], rec["newc"]))
    got = set(rec["upp"]) if clause == "changed-file-not-uploaded" else set(rec["diffp"])
    force = rec["reload"] == "force" and clause == "changed-file-not-uploaded"
    want = {p for p in new if force or p not in old or old[p] != new[p]}
    bad = want ^ got
    if bad and all(p in old and p in new and old[p] != new[p] and old[p].rstrip("\n") == new[p].rstrip("\n") for p in bad):
        return "generated content differs from the device's file only in the final newline"
    return None
