"""C10 — generators are confined to their ACL, own lines exclusively, and merge by union.

MC   : spec/mc/MC_GenRun: for every generator program in bounds, the indented lines TreeGenerator stores parse (offside rule) to exactly
       the tree of yielded paths.
S2C  : the programs TLC enumerated (and seeded longer ones) are interpreted by real PartialGenerator subclasses with the real
       block()/block_if()/multiblock() context managers, tuple and multi-line yields, and run with per-generator ACL texts through
       annet.gen._old_new_per_device (stub context).
C2S  : spec/trace/Trace_GenRun: GeneratorError exactly when some yielded path is uncovered by that generator's own ACL, exclusivity
       conflict when two generators may delete one yielded row, otherwise new = union of the yielded paths.
"""
import json

from .. import core
from .. import aclgen
from .. import genrun
from .. import annetenv as E

L = aclgen.lit
STAR = {"t": "star"}
MENU = [   # ACL rule menu (structure); children picked recursively
    ([L("blk"), STAR], [([L("x"), STAR], []), ([L("y")], []), ([L("sub"), STAR], [([L("z"), STAR], [])]), ([L("community"), {"t": "tilde"}], [])]),
    ([L("blk"), L("1")], [([L("x"), L("1")], []), ([L("x"), STAR], []), ([L("community"), {"t": "tilde"}], [])]),     # the same child rule under two spellings of the parent
    ([L("a"), STAR], []),
    ([L("sub"), STAR], [([L("z"), STAR], [])]),
    ([L("interface"), STAR], [([L("mtu")], [])]),
]
BLOCKS = [["blk", "1"], ["blk", "2"], ["sub", "1"], ["interface", "e1"]]
ROWS = [["x", "1"], ["x", "2"], ["y"], ["y", "w1"], ["a", "1"], ["z", "1"], ["mtu"], ["blk", "1"], ["zz", "top"]]
# a yield whose tuple holds a ParamsList (Junos-style bracketed list): it is ONE argument, rendered `[ C1 C2 ]`
PLIST_ROWS = [(["community"], ["C1", "C2"]), (["community", "add"], ["C9"])]


def rnd_acl(rnd, gen, menu=MENU, p=0.6):
    out = []
    for pat, kids in menu:
        if rnd.random() < p:
            out.append(aclgen.mk(pat, rnd_acl(rnd, gen, kids, 0.75), False, rnd.choice([None, None, None, True, False]), gen))
    if rnd.random() < 0.08:
        out.append(aclgen.mk([{"t": "tilde"}], [], True, None, gen))
    return twins(rnd, out, gen)


def twins(rnd, rules, gen):
    """an ACL text may list one rule on several lines (with different parameters and different children): annet unites them"""
    out = list(rules)
    for r in rules:
        if rnd.random() < 0.2:
            cds = [c for c in (None, True, False) if c != r["cd_explicit"]]
            out.insert(rnd.randrange(len(out) + 1), aclgen.mk(r["pat"], [], False, rnd.choice(cds), gen))
    return out


def rnd_prog(rnd, n):
    prog, depth = [], 0
    for _ in range(n):
        x = rnd.random()
        if x < 0.05:
            head, items = rnd.choice(PLIST_ROWS)
            prog.append({"op": "y", "row": head + ["["] + items + ["]"], "plist": [head, items]})
        elif x < 0.4:
            prog.append({"op": "y", "row": rnd.choice(ROWS)})
        elif x < 0.47:
            prog.append({"op": "ym", "rows": rnd.sample(ROWS, 2)})
        elif x < 0.67:
            prog.append({"op": "enter", "row": rnd.choice(BLOCKS)})
            depth += 1
        elif x < 0.75:
            prog.append({"op": "enterif", "row": rnd.choice(BLOCKS), "cond": rnd.random() < 0.5})
            depth += 1
        elif x < 0.78:
            prog.append({"op": "menter", "rows": [["blk", "1"], ["sub", "1"]]})
            depth += 1
        elif x < 0.8:
            prog.append(rnd.choice([{"op": "menterif", "rows": [["blk", "1"], ["sub", "1"]], "cond": c, "none": False} for c in ("true", "false", "default")]
                                   + [{"op": "menterif", "rows": [["blk", "2"]], "cond": "default", "none": True}]))
            depth += 1
        elif x < 0.86:
            prog.append(rnd.choice([{"op": "enterdef", "row": ["blk", "0"], "kinds": ["w", "int"]},
                                    {"op": "enterdef", "row": ["sub", "7"], "kinds": ["w", "int"]},
                                    {"op": "enterdef", "row": ["interface", "0"], "kinds": ["w", "int"]},
                                    {"op": "enterdef", "row": ["blk", ""], "kinds": ["w", "none"]},
                                    {"op": "enterdef", "row": ["blk", ""], "kinds": ["w", "empty"]}]))
            depth += 1
        elif depth > 0:
            prog.append({"op": "leave"})
            depth -= 1
    return prog


def prog_tree(prog):
    """paths a program yields (input generation only: used to build ACLs that cover what a program does; never for a verdict)"""
    tree, stack, frames = [], [], []

    def ins(path):
        t = tree
        for r in path:
            for n in t:
                if n["row"] == r:
                    t = n["kids"]
                    break
            else:
                n = {"row": r, "kids": []}
                t.append(n)
                t = n["kids"]
    for o in prog:
        op = o["op"]
        if op == "y":
            ins(stack + [o["row"]])
        elif op == "ym":
            for r in o["rows"]:
                ins(stack + [r])
        elif op == "enter" or (op == "enterif" and o["cond"]) or (op == "enterdef" and not {"none", "empty"} & set(o["kinds"])):
            stack = stack + [o["row"]]
            ins(stack)
            frames.append(1)
        elif op in ("enterif", "enterdef"):
            frames.append(0)
        elif op == "menterif" and not (o["cond"] == "true" or (o["cond"] == "default" and not o["none"])):
            frames.append(0)
        elif op in ("menter", "menterif"):
            for r in o["rows"]:
                stack = stack + [r]
                ins(stack)
            frames.append(len(o["rows"]))
        elif op == "leave" and frames:
            n = frames.pop()
            stack = stack[:len(stack) - n]
    return tree


def covering_acl(rnd, tree, gen, drop=0.0):
    """an ACL that covers the tree: one rule per row (first word literal, the rest `*`), optionally dropping rules"""
    out, seen = [], set()
    for n in tree:
        pat = [L(n["row"][0])] + [STAR] * (len(n["row"]) - 1)
        key = json.dumps(pat)
        if rnd.random() < drop:
            continue
        kids = covering_acl(rnd, n["kids"], gen, drop)
        if key in seen:
            for r in out:
                if json.dumps(r["pat"]) == key:
                    r["kids"] += kids
            continue
        seen.add(key)
        out.append(aclgen.mk(pat, kids, False, rnd.choice([None, None, True, False]), gen))
    return twins(rnd, out, gen)


def close(prog):
    """programs are well bracketed: close what is still open (the spec's Meaning ignores trailing leaves anyway)"""
    d = 0
    for o in prog:
        if o["op"] in ("enter", "enterif", "enterdef", "menter", "menterif"):
            d += 1
        elif o["op"] == "leave":
            d -= 1
    return prog + [{"op": "leave"}] * d


def run(ctx):
    E.init()
    from annet.generators.exceptions import GeneratorError
    from annet.annlib.patching import AclNotExclusiveError
    quick = ctx.tier == "quick"
    rnd = ctx.rng
    ctx.cov["rule"] = ("(set of 1-3 generator programs with ACL texts): programs enumerated by TLC (<=4 ops) and seeded longer ones, ACLs from a rule menu; "
                       "non-trivial = distinct cases in which at least one line is yielded inside a block and the outcome is decided by an ACL (error, conflict or filtered union)")
    ctx.assumptions += ["programs are well bracketed", "bands as in C06 (competition inside an ACL is not judged)", "empty running config, no implicit, no filter-acl"]
    r = ctx.mc("mc/MC_GenRun.tla", "mc/MC_GenRun_%s.cfg" % ("quick" if quick else "thorough"), workers=4 if quick else 16, timeout=4 * 3600)
    if r.violated:
        ctx.reject("mc", "GenRun model: %s" % r.violated, {"tlc": r.out[-3000:]}, None)
    progs = [json.loads(c[0])["p"] for c in core.parse_tagged(r.out, "PROG")]
    if quick and len(progs) != r.distinct:
        raise core.Machinery("emitted %d programs for %d states" % (len(progs), r.distinct))
    if not quick:
        r0 = ctx.mc("mc/MC_GenRun.tla", "mc/MC_GenRun_quick.cfg", workers=4)
        progs = [json.loads(c[0])["p"] for c in core.parse_tagged(r0.out, "PROG")]
    ctx.cov["exhaustive"] = True
    recs = []
    profiles = [("huawei", "Huawei S5700", "undo"), ("cisco", "Cisco Catalyst C3750", "no")]

    def observe(tag, gens_spec, vendor, model, prefix):
        dev = genrun.Dev(E.hwview(model, ""))
        gens = []
        for g in gens_spec:
            margin = " " * rnd.choice([0, 0, 4, 8])          # ACL texts come with the indentation of the source they were written in
            text = "\n" + "".join(margin + ln + "\n" for ln in aclgen.acl_text(g["acl"]))
            # now and then one generator of several declines the device
            if "declines" not in g:
                g["declines"] = rnd.choice(["supports", "raise"]) if len(gens_spec) > 1 and rnd.random() < 0.12 else None
            gens.append(genrun.make_generator(g["name"], g["prog"], text, vendor, g["declines"]))
        rec = {"id": "%s-%d" % (tag, len(recs)), "prefix": prefix,
               "gens": [{"name": g["name"], "prog": g["prog"], "acl": aclgen.judge_view(g["acl"]), "declines": g["declines"] is not None} for g in gens_spec],
               "acl_texts": ["\n".join(aclgen.acl_text(g["acl"])) for g in gens_spec]}
        # `annet gen --annotate`: every generated line carries "<TAB># <module>:<line>" behind it; the run is otherwise the same
        annotate = len(recs) % 5 == 0
        try:
            res = genrun.old_new(dev, gens, annotate=annotate)
            if res.err is not None:
                raise res.err
            rec["outcome"], rec["new"] = "ok", _jtree(res.new, annotate)
            if annotate and res.new and not any("\t# " in row for row in res.new):
                rec["outcome"], rec["exc"] = "other", "annotations asked for, none found on the top-level lines"
        except AclNotExclusiveError:
            rec["outcome"], rec["new"] = "not-exclusive", []
        except GeneratorError as e:
            rec["outcome"], rec["new"] = "generator-error", []
            rec["cause"] = type(e.__cause__).__name__ if e.__cause__ else ""
        except Exception as e:
            rec["outcome"], rec["new"] = "other", []
            rec["exc"] = repr(e)
        recs.append(rec)
        ctx.count()
        if any(o["op"] in ("enter", "menter") for g in gens_spec for o in g["prog"]) and any(g["acl"] for g in gens_spec):
            ctx.nontrivial(json.dumps([[g["prog"], rec["acl_texts"][k]] for k, g in enumerate(gens_spec)]))

    # S2C: TLC's programs, each with ACLs; singly and in pairs
    sel = progs if not quick else rnd.sample(progs, 2500)
    for k, p in enumerate(sel):
        vendor, model, prefix = profiles[k % 2]
        p = close(p)
        gs = [{"name": "GenA", "prog": p, "acl": covering_acl(rnd, prog_tree(p), "GenA", rnd.choice([0.0, 0.0, 0.2])) if k % 2 else rnd_acl(rnd, "GenA")}]
        if k % 3 == 0:
            gs.append({"name": "GenB", "prog": close(rnd.choice(progs)), "acl": rnd_acl(rnd, "GenB", p=0.4)})
        observe("s2c", gs, vendor, model, prefix)
    # one block row covered by differently spelled parent rules of two generators that share a child rule text
    for k in range(60 if quick else 600):
        vendor, model, prefix = profiles[k % 2]
        parents = rnd.sample([[L("blk"), STAR], [L("blk"), L("1")], [L("blk"), {"t": "tilde"}]], 2)
        child = rnd.choice([[L("x"), STAR], [L("y")]])
        cda, cdb = rnd.choice([(None, None), (False, False), (None, False), (True, None), (True, True)])
        gs = []
        for name, par, cd in (("GenA", parents[0], cda), ("GenB", parents[1], cdb)):
            acl = [aclgen.mk(par, [aclgen.mk(child, [], False, cd, name)], False, rnd.choice([None, True]), name)]
            yields = [{"op": "enter", "row": ["blk", "1"]}, {"op": "y", "row": ["x", "1"] if child[0]["w"] == "x" else ["y"]}, {"op": "leave"}]
            gs.append({"name": name, "prog": yields if (name == "GenA" or rnd.random() < 0.5) else [], "acl": acl})
        observe("shared", gs, vendor, model, prefix)
    # the built-in default of %cant_delete: any rule whose text starts with the letters `interface` (huawei/cisco `interface X`, the
    # Juniper-family stanza `interfaces`, `interface-range`) is not deletable unless it says so, hence shareable by several generators
    for k in range(60 if quick else 600):
        vendor, model, prefix = profiles[k % 2]
        w = rnd.choice(["interface", "interfaces", "interface-range", "interfac", "iface"])
        bare = rnd.random() < 0.5
        cda, cdb = rnd.choice([(None, None), (None, None), (None, False), (False, False), (True, None)])
        gs = []
        for name, cd, leaf in (("GenA", cda, "mtu"), ("GenB", cdb, "description")):
            par = [L(w)] if bare else [L(w), STAR]
            acl = [aclgen.mk(par, [aclgen.mk([L(leaf), STAR], [], False, None, name)], False, cd, name)]
            yields = [{"op": "enter", "row": [w] if bare else [w, "ae1"]}, {"op": "y", "row": [leaf, "1"]}, {"op": "leave"}]
            gs.append({"name": name, "prog": yields, "acl": acl})
        observe("ifdefault", gs, vendor, model, prefix)
    # seeded longer programs, 1-3 generators
    for k in range(1500 if quick else 30000):
        vendor, model, prefix = profiles[k % 2]
        gs = []
        for name in ["GenA", "GenB", "GenC"][:rnd.choice([1, 2, 2, 3])]:
            pr = close(rnd_prog(rnd, rnd.randint(2, 9)))
            if rnd.random() < 0.7:
                acl = covering_acl(rnd, prog_tree(pr), name, drop=rnd.choice([0.0, 0.0, 0.0, 0.15]))
            else:
                acl = rnd_acl(rnd, name, p=rnd.choice([0.4, 0.7, 0.9]))
            gs.append({"name": name, "prog": pr, "acl": acl})
        observe("rnd", gs, vendor, model, prefix)
    ctx.sample({"programs": [g["prog"] for g in recs[-1]["gens"]], "acls": recs[-1]["acl_texts"], "outcome": recs[-1]["outcome"], "new": recs[-1]["new"]})
    slim = [{k: v for k, v in r.items() if k in ("id", "prefix", "gens", "outcome", "new")} for r in recs]
    verd = ctx.judge("trace/Trace_GenRun.tla", "trace/Trace.cfg", slim, shards=16)
    out = {}
    for rec in recs:
        v = verd[rec["id"]][0]
        out[rec["outcome"]] = out.get(rec["outcome"], 0) + 1
        if v != "ok":
            ctx.reject(rec["id"], v, rec, None)
    ctx.cov["outcomes"] = out


def _jtree(t, annotated=False):
    """rows as word lists; with annotations the text behind the last TAB-hash separator is cut off (trusted lexer) and lines that differ
    in their annotation only (the same line yielded at two places of the sources) are one line again"""
    if not annotated:
        return [{"row": k.split(), "kids": _jtree(v)} for k, v in t.items()]
    out = []
    for k, v in t.items():
        row = k.rsplit("\t# ", 1)[0].split()
        kids = _jtree(v, True)
        for n in out:
            if n["row"] == row:
                n["kids"] = _merge(n["kids"], kids)
                break
        else:
            out.append({"row": row, "kids": kids})
    return out


def _merge(a, b):
    out = [dict(n) for n in a]
    for m in b:
        for n in out:
            if n["row"] == m["row"]:
                n["kids"] = _merge(n["kids"], m["kids"])
                break
        else:
            out.append(m)
    return out
