"""C15 — mesh sessions are mirrored on both ends; handler data merges without loss.

MC   : spec/mc/MC_Mesh: handlers of a menu applied in every order (application = action): the sequentially merged state equals the order-free
       combination and a conflict is raised in every order or in none.
C2S  : real MeshRulesRegistry + stub storage/devices (tests' fakes) for two linked devices with 1..3 parallel links; handler tables (always with
       both peer addresses) registered in EVERY permutation, direct and indirect rules, united/separate ports, lag / svi / subif; MeshExecutor
       .execute_for on BOTH ends; spec/trace/Trace_Mesh judges order independence, conflict-iff-two-values, mirroring of address / AS /
       options / families and the selected interface.  merge(a,b) on model instances is judged per declared merger (and must not mutate).
"""
import copy
import itertools
import json

from .. import core
from .. import annetenv as E

FAMS = ["ipv4_unicast", "ipv6_unicast", "ipv4_labeled_unicast"]
L_ADDR, R_ADDR = "10.0.0.1/31", "10.0.0.0/31"
# address pairs as a handler may write them, each with the canonical text of the bare address (a literal table: no formatter is trusted);
# IPv6 has many spellings of one address (upper-case digits, uncompressed zero groups, leading zeros)
ADDR_PAIRS = [((L_ADDR, "10.0.0.1"), (R_ADDR, "10.0.0.0"))] * 5 + [
    (("2001:DB8:0:0:0:0:A:1/127", "2001:db8::a:1"), ("2001:DB8:0:0:0:0:A:0/127", "2001:db8::a:0")),
    (("2001:db8:00ff::2/64", "2001:db8:ff::2"), ("2001:db8:00ff::3/64", "2001:db8:ff::3")),
    (("FE80:0000:0000:0000:0000:0000:0000:0001/64", "fe80::1"), ("fe80::2/64", "fe80::2")),
    (("2001:db8::1/127", "2001:db8::1"), ("2001:db8:0:0:1:0:0:1/64", "2001:db8::1:0:0:1")),
]


def mk_handler(tab, hid):
    def handler(left, right, session):
        for side, obj in (("L", left), ("R", right), ("S", session)):
            for kv in tab[side]["f"]:
                k, v = kv["k"], kv["v"]
                if v.startswith("@"):          # derived from the device's own name: the number its template captured
                    v = str(int(v[1:]) + int(devnum(obj)))
                val = int(v) if k in ("mtu", "lag", "svi", "subif") or (k == "asnum" and v.isdigit()) else (v == "1" if k == "bfd" else v)
                setattr(obj, k, val)
            if tab[side]["fam"]:
                obj.families = set(tab[side]["fam"])
    handler.__name__ = "handler_%d" % hid
    return handler


def devnum(obj):
    for name in ("n", "x", "y"):
        try:
            return getattr(obj.match, name)
        except (AttributeError, KeyError):
            pass
    raise AttributeError("no number captured")


def mk_sym_handler(t12, t21, hid):
    """a handler of a rule whose templates fit the pair both ways: what it assigns is a function of (left, right) -- t12 when the device
    numbered 1 is on the left, t21 when it is on the right"""
    h12, h21 = mk_handler(t12, hid), mk_handler(t21, hid)

    def handler(left, right, session):
        return (h12 if int(devnum(left)) == 1 else h21)(left, right, session)
    handler.__name__ = "sym_handler_%d" % hid
    return handler


def swap_lr(tab):
    return {"L": copy.deepcopy(tab["R"]), "R": copy.deepcopy(tab["L"]), "S": copy.deepcopy(tab["S"])}


def rnd_table(rnd, iface_mode, first=False, addrs=(L_ADDR, R_ADDR)):
    def kv(k, v):
        return {"k": k, "v": str(v)}
    L = {"f": [kv("addr", addrs[0])], "fam": []}
    R = {"f": [kv("addr", addrs[1])], "fam": []}
    S = {"f": [], "fam": []}
    # both AS numbers are required by the API just like both addresses (to_bgp_peer reads connected.asnum): the first handler sets them
    # "@65000" = 65000 + the number in the device's own name (handlers are functions of the matched names): a1 -> 65001, b2 -> 65002
    if first or rnd.random() < 0.4:
        L["f"].append(kv("asnum", rnd.choice([65001, "@65000", "@65000", 65011])))
    if first or rnd.random() < 0.4:
        R["f"].append(kv("asnum", rnd.choice([65002, "@65000", "@65000", 65012])))
    if not first and rnd.random() < 0.1:
        S["f"].append(kv("asnum", 65001))
    if rnd.random() < 0.4:
        L["f"].append(kv("mtu", rnd.choice([9000, 9000, 1500])))
    if rnd.random() < 0.3:
        R["f"].append(kv("mtu", rnd.choice([9000, 1500])))
    if rnd.random() < 0.4:
        S["f"].append(kv("bfd", rnd.choice([1, 1, 0])))
    for side in (L, R, S):
        if rnd.random() < 0.45:
            side["fam"] = sorted(rnd.sample(FAMS, rnd.randint(1, 2)))
    if iface_mode == "lag":
        L["f"].append(kv("lag", 1))
        R["f"].append(kv("lag", 2))
    elif iface_mode == "svi":
        L["f"].append(kv("svi", 100))
        R["f"].append(kv("svi", 200))
    elif iface_mode == "subif":
        L["f"].append(kv("subif", 7))
        R["f"].append(kv("subif", 7))
    elif iface_mode == "lagsub":            # a sub-interface ON the LAG (both asked for together)
        L["f"] += [kv("lag", 1), kv("subif", 7)]
        R["f"] += [kv("lag", 2), kv("subif", 9)]
    return {"L": L, "R": R, "S": S}


def resolve(tab, nl=1, nr=2):
    """the table as the judge sees it: name-derived values computed for the devices of the pair (default: left a1, right b2)"""
    out = copy.deepcopy(tab)
    for side, n in (("L", nl), ("R", nr)):
        for kv in out[side]["f"]:
            if kv["v"].startswith("@"):
                kv["v"] = str(int(kv["v"][1:]) + n)
    return out


def topo(nlinks, rev_b=False, names=("a1.ex", "b2.ex")):
    from tests.annet.test_mesh.fakes import FakeStorage, FakeDevice, FakeInterface
    a = FakeDevice(names[0], [FakeInterface("if%d" % i, names[1], "eth%d" % i) for i in range(nlinks)] + [FakeInterface("lo0", None, None)])
    bports = [FakeInterface("eth%d" % i, names[0], "if%d" % i) for i in range(nlinks)]
    if rev_b:
        bports.reverse()       # the far end lists its ports in another order
    b = FakeDevice(names[1], bports + [FakeInterface("lo0", None, None)])
    st = FakeStorage()
    st.add_device(a)
    st.add_device(b)
    a.storage = st
    b.storage = st

    def sc(d1, d2):
        return [(i, d2.find_interface(i.neighbor_port)) for i in d1.interfaces if i.neighbor_fqdn == d2.fqdn]
    st.search_connections = sc
    return st, a, b


def topo3():
    """chain a1 -- b2 -- c3 (a1 and c3 are not linked): b2 has two neighbours served by different rules"""
    from tests.annet.test_mesh.fakes import FakeStorage, FakeDevice, FakeInterface
    a = FakeDevice("a1.ex", [FakeInterface("if0", "b2.ex", "eth0"), FakeInterface("lo0", None, None)])
    b = FakeDevice("b2.ex", [FakeInterface("eth0", "a1.ex", "if0"), FakeInterface("xe0", "c3.ex", "ge0"), FakeInterface("lo0", None, None)])
    c = FakeDevice("c3.ex", [FakeInterface("ge0", "b2.ex", "xe0"), FakeInterface("lo0", None, None)])
    st = FakeStorage()
    for d in (a, b, c):
        st.add_device(d)
        d.storage = st

    def sc(d1, d2):
        return [(i, d2.find_interface(i.neighbor_port)) for i in d1.interfaces if i.neighbor_fqdn == d2.fqdn]
    st.search_connections = sc
    return st, a, b, c


def chain_case(rnd, recs, ctx):
    """three devices, two rules with different name templates, decoy rules that must not apply (filter false / regex template not matching);
    every linked pair becomes one pair record for the same judge"""
    from annet.mesh import MeshExecutor, MeshRulesRegistry, united_ports
    from annet.mesh.match_args import Left, Right
    kind = rnd.choice(["direct", "indirect"])
    A1, A2 = ("10.0.0.1/31", "10.0.0.0/31"), ("10.0.1.1/31", "10.0.1.0/31")
    hs1 = [rnd_table(rnd, "plain", first=True, addrs=A1)]
    hs2 = [rnd_table(rnd, "plain", first=True, addrs=A2)]
    for hs, ad in ((hs1, A1), (hs2, A2)):
        if rnd.random() < 0.5:      # a second handler of the pair that only adds address families (no conflict possible)
            t = rnd_table(rnd, "plain", addrs=ad)
            for side in "LRS":
                t[side]["f"] = [kv for kv in t[side]["f"] if kv["k"] == "addr"]
            hs.append(t)
    decoy = rnd_table(rnd, "plain", first=True, addrs=("10.9.9.1/31", "10.9.9.0/31"))
    regs = [("a{n}.ex", "b{n}.ex", (), h, "p1") for h in hs1] + [("b{n}.ex", "c{n}.ex", (), h, "p2") for h in hs2]
    regs.append(("{x:[a-c]}{n}.ex", "{x:[a-c]}{n}.ex", (Left.n > 9,), decoy, "decoy-filter"))                # never true: no device number exceeds 9
    regs.append((r"a{n:\d\d}.ex", "b{n}.ex", (), decoy, "decoy-regex"))                               # two digits: does not match a1
    perms = [list(range(len(regs)))] + [rnd.sample(range(len(regs)), len(regs)) for _ in range(3)]
    runs = {"p1": [], "p2": []}
    for perm in perms:
        st, a, b, c = topo3()
        reg = MeshRulesRegistry()
        for k in perm:
            lm, rm, flt, tab, _tag = regs[k]
            if kind == "direct":
                reg.direct(lm, rm, *flt, port_processor=united_ports)(mk_handler(tab, k))
            else:
                reg.indirect(lm, rm, *flt)(mk_handler(tab, k))
        ex = MeshExecutor(reg, st)
        res, err = {}, {}
        for dev, key in ((a, "a"), (b, "b"), (c, "c")):
            try:
                res[key], err[key] = proj(ex.execute_for(dev)), False
            except Exception:
                res[key], err[key] = [], True
        ip = lambda x: x.split("/")[0]
        runs["p1"].append({"order": perm, "errA": err["a"], "errB": err["b"], "A": res["a"], "B": [p for p in res["b"] if p["addr"] == ip(A1[0])]})
        runs["p2"].append({"order": perm, "errA": err["b"], "errB": err["c"], "A": [p for p in res["b"] if p["addr"] == ip(A2[1])], "B": res["c"]})
        # b2 must see exactly its two neighbours, a1 and c3 exactly one
        runs["p1"][-1]["extra"] = len(res["a"]) != 1 or len(res["b"]) != 2 or len(res["c"]) != 1
    for tag, hs, ad, nl, nr, ifs in (("p1", hs1, A1, 1, 2, ("if0", "eth0")), ("p2", hs2, A2, 2, 3, ("xe0", "ge0"))):
        rs = runs[tag]
        if tag == "p1" and any(r.pop("extra", False) for r in rs) and not any(r["errA"] or r["errB"] for r in rs):
            for r in rs:
                r["A"] = r["A"] + [dict(r["A"][0], addr="unexpected-number-of-peers")] if r["A"] else r["A"]
        for r in rs:
            r.pop("extra", None)
        recs.append({"id": "chain-%s-%d" % (tag, len(recs)), "kind": "pair", "hs": [resolve(h, nl, nr) for h in hs], "hs_src": hs,
                     "ipL": ad[0].split("/")[0], "ipR": ad[1].split("/")[0], "runs": rs,
                     "ifaceA": ifs[0] if kind == "direct" else "", "ifaceB": ifs[1] if kind == "direct" else "", "ambiguous": False,
                     "meta": {"topology": "chain a1-b2-c3", "rule": kind, "pair": tag}})
        ctx.count(len(rs))
        ctx.nontrivial(json.dumps(["chain", tag, hs]))


def merger_kind(cls, field):
    """which merger a field declares, read from the class annotations directly (not from the table the merge code built for itself)"""
    import typing
    hint = typing.get_type_hints(cls, include_extras=True)[field]
    if typing.get_origin(hint) is typing.Annotated:
        for a in typing.get_args(hint)[1:]:
            nm = type(a).__name__
            if nm in ("Concat", "Unite", "Merge"):
                return nm[0].lower()
            if nm == "DictMerge":
                if type(a.value_merger).__name__ != "Merge":
                    raise core.Machinery("DictMerge with another value merger than Merge on %s.%s" % (cls.__name__, field))
                return "d"
            if nm in ("UseFirst", "UseLast", "Forbid", "ApplyFunc"):
                raise core.Machinery("merger %s on %s.%s is outside the instance language" % (nm, cls.__name__, field))
    return "s"


def inst_data(obj):
    """a model instance as data for the judge: its SET fields, grouped by declared merger kind"""
    out = {"s": [], "c": [], "u": [], "m": [], "d": []}
    for field in sorted(vars(obj)):
        v = getattr(obj, field)
        kind = merger_kind(type(obj), field)
        if kind == "s":
            out["s"].append({"k": field, "v": repr(v)})
        elif kind == "c":
            out["c"].append({"k": field, "v": [repr(x) for x in v]})
        elif kind == "u":
            out["u"].append({"k": field, "v": sorted(repr(x) for x in v)})
        elif kind == "m":
            out["m"].append({"k": field, "v": inst_data(v)})
        else:
            out["d"].append({"k": field, "v": [{"k": str(k), "v": inst_data(x)} for k, x in v.items()]})
    return out


def rnd_global(rnd):
    """a GlobalOptionsDTO as a handler would fill it: scalars, per-family options with aggregates, VRFs with route targets and peer groups"""
    from annet.mesh.device_models import GlobalOptionsDTO
    g = GlobalOptionsDTO()
    if rnd.random() < 0.5:
        g.router_id = rnd.choice(["1.1.1.1", "1.1.1.1", "2.2.2.2"])
    if rnd.random() < 0.4:
        g.multipath = rnd.choice([4, 4, 8])
    if rnd.random() < 0.3:
        g.local_as = rnd.choice([65001, "65001", 65002])
    for fam in rnd.sample(["ipv4_unicast", "ipv6_unicast", "l2vpn_evpn"], rnd.randint(0, 2)):
        fo = getattr(g, fam)
        if rnd.random() < 0.5:
            fo.multipath = rnd.choice([2, 2, 16])
        if rnd.random() < 0.5:
            fo.aggregate.routes = tuple(rnd.sample(["10.0.0.0/8", "10.1.0.0/16", "192.168.0.0/16"], rnd.randint(1, 2)))
        if rnd.random() < 0.3:
            fo.aggregate.policy = rnd.choice(["AGG", "AGG", "AGG2"])
    for name in rnd.sample(["A", "B", "C"], rnd.randint(0, 2)):
        v = g.vrf[name]
        if rnd.random() < 0.5:
            v.import_policy = rnd.choice(["IMP", "IMP", "IMP2"])
        if rnd.random() < 0.6:
            v.rt_import = tuple(rnd.sample(["65000:1", "65000:2", "65000:3"], rnd.randint(1, 2)))
        if rnd.random() < 0.3:
            v.rt_export = tuple(rnd.sample(["65000:1", "65000:9"], rnd.randint(0, 2)))
        if rnd.random() < 0.4:
            grp = v.groups[rnd.choice(["TOR", "SPINE"])]
            grp.families = set(rnd.sample(FAMS, rnd.randint(1, 2)))
            if rnd.random() < 0.5:
                grp.remote_as = rnd.choice([65010, 65010, 65020])
        if rnd.random() < 0.3:
            v.ipv4_unicast.aggregate.routes = ("10.9.0.0/16",)
    for name in rnd.sample(["TOR", "SPINE", "RR"], rnd.randint(0, 2)):
        grp = g.groups[name]
        if rnd.random() < 0.7:
            grp.families = set(rnd.sample(FAMS, rnd.randint(1, 3)))
        if rnd.random() < 0.4:
            grp.mtu = rnd.choice([9000, 9000, 1500])
        if rnd.random() < 0.3:
            grp.description = rnd.choice(["d1", "d1", "d2"])
    if rnd.random() < 0.3:
        ev = g.l2vpn[rnd.choice(["EV1", "EV2"])]
        ev.vid = rnd.choice([100, "100", 200])
        ev.rt_import = tuple(rnd.sample(["65000:100", "65000:200"], rnd.randint(1, 2)))
    return g


def inst_case(rnd, recs, ctx):
    from annet.mesh import basemodel
    a, b, c = rnd_global(rnd), rnd_global(rnd), rnd_global(rnd)
    rec = {"id": "inst-%d" % len(recs), "kind": "inst", "a": inst_data(a), "b": inst_data(b), "raised": False, "out": inst_data(a), "hasC": True,
           "assocEq": True}
    try:
        m = basemodel.merge(a, b)
        rec["out"] = inst_data(m)
    except basemodel.MergeForbiddenError:
        rec["raised"] = True
    except Exception as e:
        rec["raised"] = True
        rec["exc"] = repr(e)
    rec["aAfter"], rec["bAfter"] = inst_data(a), inst_data(b)

    def attempt(f):
        try:
            return ("v", json.dumps(inst_data(f()), sort_keys=True))
        except basemodel.MergeForbiddenError:
            return ("refused",)
    left = attempt(lambda: basemodel.merge(basemodel.merge(a, b), c))
    right = attempt(lambda: basemodel.merge(a, basemodel.merge(b, c)))
    flat = attempt(lambda: basemodel.merge(a, b, c))
    # (element order of Unite fields is not part of an instance: inst_data sorts them)
    rec["assocEq"] = left == right == flat
    recs.append(rec)
    ctx.count()
    if rec["a"]["d"] and rec["b"]["d"]:
        ctx.nontrivial(json.dumps([rec["a"], rec["b"]]))


def twins_case(rnd, recs, ctx):
    """a device cabled to TWO neighbours that share a short host name (the same spine number in two sites), rules written for short names:
    each link is a session of its own; every linked pair becomes one pair record"""
    from tests.annet.test_mesh.fakes import FakeStorage, FakeDevice, FakeInterface
    from annet.mesh import MeshExecutor, MeshRulesRegistry, united_ports
    kind = rnd.choice(["direct", "indirect"])
    names = ["b2.dc1.ex", "b2.dc2.ex"]
    a = FakeDevice("a1.ex", [FakeInterface("if%d" % i, nb, "eth0") for i, nb in enumerate(names)] + [FakeInterface("lo0", None, None)])
    bs = [FakeDevice(nb, [FakeInterface("eth0", "a1.ex", "if%d" % i), FakeInterface("lo0", None, None)]) for i, nb in enumerate(names)]
    st = FakeStorage()
    for d in [a] + bs:
        st.add_device(d)
        d.storage = st
    st.search_connections = lambda d1, d2: [(i, d2.find_interface(i.neighbor_port)) for i in d1.interfaces if i.neighbor_fqdn == d2.fqdn]
    hs = [rnd_table(rnd, "plain", first=True)]
    if rnd.random() < 0.5:
        t = rnd_table(rnd, "plain")
        for side in "LRS":
            t[side]["f"] = [kv for kv in t[side]["f"] if kv["k"] == "addr"]
        hs.append(t)
    runs = {nb: [] for nb in names}
    for perm in itertools.permutations(range(len(hs))):
        reg = MeshRulesRegistry(match_short_name=True)
        for hi in perm:
            if kind == "direct":
                reg.direct("a{n}", "b{n}", port_processor=united_ports)(mk_handler(hs[hi], hi))
            else:
                reg.indirect("a{n}", "b{n}")(mk_handler(hs[hi], hi))
        ex = MeshExecutor(reg, st)
        res, err = {}, {}
        for d in [a] + bs:
            try:
                cfg = ex.execute_for(d)
                res[d.fqdn] = [(p.hostname, q) for p, q in zip(cfg.peers, proj(cfg))]
                err[d.fqdn] = False
            except Exception:
                res[d.fqdn], err[d.fqdn] = [], True
        for nb in names:
            runs[nb].append({"order": list(perm), "errA": err["a1.ex"], "errB": err[nb],
                             "A": [q for h, q in res["a1.ex"] if h == nb], "B": [q for h, q in res[nb]]})
    for i, nb in enumerate(names):
        recs.append({"id": "twins-%d-%d" % (i, len(recs)), "kind": "pair", "hs": [resolve(h) for h in hs], "hs_src": hs, "ipL": L_ADDR.split("/")[0],
                     "ipR": R_ADDR.split("/")[0], "runs": runs[nb], "ifaceA": ("if%d" % i) if kind == "direct" else "", "ifaceB": "eth0" if kind == "direct" else "",
                     "ambiguous": False, "meta": {"topology": "a1 -- b2.dc1, a1 -- b2.dc2 (short names)", "rule": kind, "neighbour": nb}})
        ctx.count(len(runs[nb]))
        ctx.nontrivial(json.dumps(["twins", nb, hs]))


def proj(cfg):
    out = []
    for p in cfg.peers:
        o = p.options
        out.append({"addr": str(p.addr), "remote_as": str(p.remote_as) if p.remote_as is not None else "", "local_as": str(o.local_as) if o.local_as else "",
                    "mtu": str(o.mtu) if o.mtu else "", "bfd": ("1" if o.bfd else "0") if o.bfd is not None else "", "fam": sorted(p.families),
                    "iface": p.interface or ""})
    return out


def run(ctx):
    E.init()
    from annet.mesh import MeshExecutor, MeshRulesRegistry, united_ports, separate_ports
    from annet.mesh import basemodel
    from annet.mesh.match_args import Left, Right
    quick = ctx.tier == "quick"
    rnd = ctx.rng
    ctx.cov["rule"] = ("(topology of two linked devices with 1..3 parallel links, set of 1..3 handler tables, rule kind, interface mode) x every registration "
                       "permutation x both ends; non-trivial = distinct cases with >= 2 handlers where at least one field is assigned by two handlers")
    ctx.assumptions += ["handlers are pure tables of (left, right, session) assignments, always including both peer addresses", "stub storage/devices "
                        "from the repository's tests/annet/test_mesh/fakes.py", "two-device topologies and three-device chains (b2 served by two rules with different name templates, decoy rules with a false filter / a non-matching regex template); virtual and device rules are not driven"]
    r = ctx.mc("mc/MC_Mesh.tla", "mc/MC_Mesh.cfg", workers=2)
    if r.violated:
        ctx.reject("mc", "Mesh model: %s" % r.violated, {"tlc": r.out[-2000:]}, None)
    # both ends of a session, each looking its rules up on its own in both orientations
    r = ctx.mc("mc/MC_MeshEnds.tla", "mc/MC_MeshEnds.cfg", workers=2)
    if r.violated:
        ctx.reject("mc-ends", "Mesh model (two ends): %s" % r.violated, {"tlc": r.out[-2000:]}, None)
    r = ctx.mc("mc/MC_MeshEnds.tla", "mc/MC_MeshEnds_regress.cfg", workers=2, expect_ok=False)
    if "Mirrored" not in r.violated:
        raise core.Machinery("anti-vacuity: an end that skips the second orientation no longer breaks mirroring in the model")
    ctx.cov["mc_runs"][-1]["expected"] = "Mirrored violated (an end stops after the first fitting orientation)"
    recs = []
    ncase = 500 if quick else 12000
    for k in range(ncase):
        nlinks = rnd.choice([1, 1, 2, 3])
        mode = rnd.choice(["port", "port", "lag", "svi", "subif", "lagsub"]) if nlinks == 1 else rnd.choice(["lag", "svi", "lag", "subif", "port", "lagsub"])
        kind = rnd.choice(["direct", "direct", "indirect"])
        if kind == "indirect":
            mode = "none"
        (la, ipl), (ra, ipr) = rnd.choice(ADDR_PAIRS)
        hs = [rnd_table(rnd, mode if i == 0 else "plain", first=(i == 0), addrs=(la, ra)) for i in range(rnd.randint(1, 3))]
        rev = rnd.random() < 0.5
        runs = []
        alt_masks = rnd.choice([None, ("a{n:\\d+}.ex", "b{n:\\d+}.ex"), ("{x:[a]}{n}.ex", "{x:[b]}{n}.ex")])
        short = rnd.random() < 0.3          # rules written for short host names (registry option match_short_name), devices carry FQDNs
        nested = short and rnd.random() < 0.5
        # same-tier pair: both devices fit both templates of the rule, which therefore applies in BOTH orientations, and what the handler
        # assigns may depend on which device is `left`; the session is fed by both applications on both ends
        sym = rnd.random() < 0.25
        hs21 = []
        if sym:
            short = nested = False
            for t in hs:
                t21 = swap_lr(t)
                roll = rnd.random()
                if roll < 0.35:
                    t21["S"]["fam"] = sorted(set(t21["S"]["fam"]) | {rnd.choice(FAMS)})
                elif roll < 0.5:
                    t21["L"]["fam"] = sorted(set(t21["L"]["fam"]) | {rnd.choice(FAMS)})
                elif roll < 0.65:
                    for kv in t21["L"]["f"]:
                        if kv["k"] == "asnum":
                            kv["v"] = "65099"           # the other orientation gives this device another AS: a conflict on both ends
                elif roll < 0.75:
                    t21["S"]["f"] = [kv for kv in t21["S"]["f"] if kv["k"] != "bfd"] + [{"k": "bfd", "v": rnd.choice(["0", "1"])}]
                hs21.append(t21)
        names = ("a1.ex", "a2.ex") if sym else ("a1.ex", "b2.ex")
        for perm in itertools.permutations(range(len(hs))):
            st, a, b = topo(nlinks, rev, names)
            reg = MeshRulesRegistry(match_short_name=True) if short else MeshRulesRegistry()
            lm, rm = ("a{n}", "b{n}") if short else ("a{n}.ex", "b{n}.ex")
            if sym:
                lm, rm = "a{x}.ex", "a{y}.ex"
            for hi in perm:
                # the rules feeding one session need not be written with the same name templates: later handlers may sit behind
                # templates that capture the number as text (`{n:\\d+}`) or by another route (`{x}{n}`)
                l2, r2 = (lm, rm)
                if hi > 0 and alt_masks and not short and not sym:
                    l2, r2 = alt_masks
                hnd = mk_sym_handler(hs[hi], hs21[hi], hi) if sym else mk_handler(hs[hi], hi)
                if kind == "direct":
                    reg.direct(l2, r2, port_processor=united_ports)(hnd)
                elif sym:                   # indirect rules are tried on every pair of devices, a device paired with itself included
                    reg.indirect(l2, r2, Left.x != Right.y)(hnd)
                else:
                    reg.indirect(l2, r2)(hnd)
            if nested:                      # ... also when that registry is included into a plain one
                outer = MeshRulesRegistry()
                outer.include(reg)
                reg = outer
            ex = MeshExecutor(reg, st)
            one = {"order": list(perm), "errA": False, "errB": False, "A": [], "B": []}
            for dev, key in ((a, "A"), (b, "B")):
                try:
                    one[key] = proj(ex.execute_for(dev))
                except ValueError:
                    one["err" + key] = True
                except Exception as e:
                    one["err" + key] = True
                    one["exc"] = repr(e)
            runs.append(one)
        want_if = ("", "")
        if kind == "direct":
            want_if = {"port": ("if0", "eth0"), "lag": ("Trunk1", "Trunk2"), "svi": ("Vlan100", "Vlan200"), "subif": ("if0.7", "eth0.7"), "lagsub": ("Trunk1.7", "Trunk2.9")}[mode]
        judged = [resolve(h) for h in hs] + [swap_lr(resolve(h, 2, 1)) for h in hs21]      # both applications, written from a1's side
        rec = {"id": "pair-%d" % len(recs), "kind": "pair", "hs": judged, "hs_src": hs + hs21, "ipL": ipl, "ipR": ipr, "runs": runs,
               "ifaceA": want_if[0], "ifaceB": want_if[1], "ambiguous": kind == "direct" and nlinks > 1 and mode in ("port", "subif"), "meta": {"links": nlinks, "mode": mode, "rule": kind, "symmetric_templates": sym, "addresses": [la, ra]}}
        recs.append(rec)
        ctx.count(len(runs))
        if len(hs) >= 2:
            ctx.nontrivial(json.dumps(hs))
    for k in range(150 if quick else 4000):
        chain_case(rnd, recs, ctx)
    for k in range(40 if quick else 600):
        twins_case(rnd, recs, ctx)
    # ---- merge laws on model instances per declared merger
    from annet.mesh.peer_models import MeshSession, DirectPeerDTO
    for k in range(300 if quick else 5000):
        which = rnd.choice(["forbidchange", "unite", "unset"])
        rec = {"id": "merge-%d" % len(recs), "kind": "merge", "merger": which, "raised": False, "out": [], "a": [], "b": [], "aAfter": []}
        try:
            if which == "forbidchange":
                x, y = rnd.choice([1500, 9000]), rnd.choice([1500, 9000])
                rec["a"], rec["b"] = [str(x)], [str(y)]
                try:
                    m = basemodel.merge(DirectPeerDTO(mtu=x), DirectPeerDTO(mtu=y))
                    rec["out"] = [str(m.mtu)]
                except basemodel.MergeForbiddenError:
                    rec["raised"] = True
            elif which == "unite":
                x, y = set(rnd.sample(FAMS, rnd.randint(1, 2))), set(rnd.sample(FAMS, rnd.randint(1, 2)))
                a1 = MeshSession(families=x)
                rec["a"], rec["b"] = sorted(x), sorted(y)
                m = basemodel.merge(a1, MeshSession(families=y))
                rec["out"] = sorted(m.families)
                rec["aAfter"] = sorted(a1.families)
            else:
                x = rnd.choice([1500, 9000])
                rec["a"], rec["b"] = [str(x)], []
                m = basemodel.merge(DirectPeerDTO(mtu=x), DirectPeerDTO())
                rec["out"] = [str(m.mtu)]
        except Exception as e:
            rec["raised"] = True
            rec["exc"] = repr(e)
        recs.append(rec)
        ctx.count()
    # ---- merge laws on whole model instances (GlobalOptionsDTO: scalars, Concat tuples, Unite sets, nested Merge, DictMerge of models)
    for k in range(400 if quick else 8000):
        inst_case(rnd, recs, ctx)
    ctx.sample({"handlers": recs[0]["hs"], "meta": recs[0]["meta"], "first_run": recs[0]["runs"][0]})
    slim = [{k: v for k, v in r.items() if k not in ("meta", "exc", "hs_src")} for r in recs]
    verd = ctx.judge("trace/Trace_Mesh.tla", "trace/Trace.cfg", slim, shards=8)
    for rec in recs:
        v = verd[rec["id"]][0]
        if v != "ok":
            ctx.reject(rec["id"], v, rec, None)
