"""C05 — indented text is parsed by the offside rule; bad indentation is refused.

MC   : spec/mc/MC_Offside  (A-layer indent-stack machine == P-layer declarative rule on every text in bounds)
S2C  : the texts TLC enumerated are rendered and fed to the real annet.tabparser.parse_to_tree
C2S  : spec/trace/Trace_Offside judges every real outcome against the P-layer
plus : driver-enumerated / random texts beyond the MC bound (indent 0..6, tabs, offsets, Huawei splitter), TLC-judged.
"""
import itertools
import json

from .. import core


def lex(text_lines):
    """Trusted lexer: leading blanks, first non-blank char, stripped text. Nothing else."""
    out = []
    for raw in text_lines:
        s = raw.strip()
        ind = len(raw) - len(raw.lstrip(" \t"))
        out.append({"ind": ind, "first": s[:1], "w": s})
    return out


def tree_json(t):
    return [{"row": k, "kids": tree_json(v)} for k, v in t.items()]


def real_parse(text, splitter, comments):
    from annet.annlib import tabparser
    try:
        t = tabparser.parse_to_tree(text, splitter, comments=comments)
        return {"err": False, "tree": tree_json(t)}
    except tabparser.ParserError:
        return {"err": True, "tree": []}
    except Exception as e:       # refusing a text means ParserError (callers catch that one): anything else is an outcome of its own
        return {"err": True, "tree": [], "exc": repr(e)}


def render(lines):
    return "\n".join(" " * l["ind"] + l["w"] for l in lines)


def run(ctx):
    from annet.annlib import tabparser
    quick = ctx.tier == "quick"
    ctx.cov["rule"] = ("texts = sequences of lexed lines; TLC enumerates all texts of the MC bound (emitted as cases), the driver adds "
                       "exhaustive texts over indent 0..6 and seeded random long texts; non-trivial = text with >=2 content lines "
                       "whose outcome is an error or a tree of depth >= 2 (distinct lexed texts counted)")
    ctx.assumptions += ["lexer (leading blanks, first char, stripped text) is trusted", "comment markers are single characters",
                        "lines are non-empty after split (CommonFormatter.split drops empty lines; blank = whitespace-only)"]
    # ---- MC (+ S2C emission at the quick bound)
    r = ctx.mc("mc/MC_Offside.tla", "mc/MC_Offside_quick.cfg", workers=1)
    if r.violated:
        ctx.reject("mc-quick", "A-layer differs from P-layer: %s" % r.violated, {"tlc": r.out[-3000:]}, None)
    cases = [json.loads(c[0]) for c in core.parse_tagged(r.out, "CASE")]
    if len(cases) != r.distinct:
        raise core.Machinery("emitted %d cases for %d states" % (len(cases), r.distinct))
    if not quick:
        r2 = ctx.mc("mc/MC_Offside.tla", "mc/MC_Offside_thorough.cfg", coverage=False, timeout=4 * 3600)
        if r2.violated:
            ctx.reject("mc-thorough", "A-layer differs from P-layer: %s" % r2.violated, {"tlc": r2.out[-3000:]}, None)
        ctx.cov["exhaustive"] = True
    ctx.cov["exhaustive"] = True
    common = tabparser.CommonFormatter()
    huawei = tabparser.HuaweiFormatter()
    recs = []
    seen = set()

    def add(lines, comments, splitter, tag, text=None):
        if text is None:
            text = render(lines)
        # a text is its "\n"-separated lines (the property's reading: nothing else ends a line -- not a form feed, not U+2028, not a lone
        # carriage return inside a line).  The Huawei splitter additionally drops its policy terminator lines: for it the line sequence is
        # taken from the splitter.
        seen_lines = splitter(text) if splitter == huawei.split else text.split("\n")
        lx = lex(seen_lines)
        out = real_parse(text, splitter, comments)
        rid = "%s-%d" % (tag, len(recs))
        rec = {"id": rid, "comments": list(comments), "lines": lx, "err": out["err"], "tree": out["tree"], "text": text}
        if "exc" in out:
            rec["exc"] = out["exc"]
        recs.append(rec)
        ctx.count()
        key = json.dumps([comments, lx])
        content = [l for l in lx if l["first"] not in ("",) + tuple(comments)]
        if key not in seen and len(content) >= 2 and (out["err"] or any(n["kids"] for n in out["tree"])):
            seen.add(key)
            ctx.nontrivial(key)

    # S2C: exactly TLC's enumerated texts
    for c in cases:
        add(c["lines"], ("!", "#"), common.split, "s2c")
    ctx.sample({"kind": "s2c", "lines": cases[len(cases) // 2]["lines"]})
    # beyond the MC bound: exhaustive small alphabet with indent 0..6 (driver-enumerated, TLC-judged)
    maxl = 5 if quick else 7
    inds = [0, 1, 2, 4, 6] if quick else [0, 1, 2, 3, 4, 5, 6]
    n_ex = 0
    budget = 60000 if quick else 900000
    for n in range(1, maxl + 1):
        for combo in itertools.product(inds, repeat=n):
            if combo[0] not in (0, 2):   # common leading offset 0 or 2 (others symmetric)
                continue
            if n_ex >= budget:
                break
            lines = [{"ind": i, "first": "w", "w": "w%d" % (k % 2)} for k, i in enumerate(combo)]
            add(lines, ("!", "#"), common.split, "ex")
            n_ex += 1
    # seeded random longer texts: tabs, irregular widths, comments, '#' section breaks, duplicates, both splitters,
    # and the comment sets used by callers ("!", "#") and ("!",) / ("#",)
    rnd = ctx.rng
    nrand = 4000 if quick else 60000
    for k in range(nrand):
        n = rnd.randint(2, 14 if quick else 40)
        width = rnd.choice([1, 2, 3, 4])
        lvl = 0
        off = rnd.choice([0, 0, 0, 1, 3])
        raw = []
        for _ in range(n):
            x = rnd.random()
            if x < 0.08:
                raw.append(rnd.choice(["", "   ", "\t"]))
                continue
            if x < 0.16:
                raw.append(rnd.choice(["#", "# sec", "!", "! c", "  ! c", "  # c", "    #x"]))
                continue
            mv = rnd.random()
            if mv < 0.35:
                lvl += 1
            elif mv < 0.6 and lvl > 0:
                lvl -= rnd.randint(1, lvl)
            ind = off + lvl * width
            if rnd.random() < 0.12:
                ind = max(0, ind + rnd.choice([-1, 1, -2, 2]))   # irregular / inconsistent
            ws = " " * ind
            if rnd.random() < 0.05 and ind:
                ws = "\t" * ind
            raw.append(ws + rnd.choice(["a", "b", "a b", "c  d", "x y z", "a b", "c d", "e", "d\u2028e f", "p\x0cq", "m\x85n", "u\x1cv w", "k\rl"]
                                       if rnd.random() < 0.15 else ["a", "b", "a b", "c  d", "x y z"]))
        text = "\n".join(raw)
        comments = rnd.choice([("!", "#"), ("!", "#"), ("!",), ("#",)])
        sp = rnd.choice([common.split, common.split, huawei.split])
        add(None, comments, sp, "rnd", text=text)
    ctx.sample({"kind": "random", "text": recs[-1]["text"], "err": recs[-1]["err"]})
    slim = [{k: v for k, v in r.items() if k not in ("text", "exc")} for r in recs]
    verd = ctx.judge("trace/Trace_Offside.tla", "trace/Trace.cfg", slim)
    for r in recs:
        v = verd[r["id"]][0]
        if v != "ok":
            ctx.reject(r["id"], v, r, None)
        elif "exc" in r:
            ctx.reject(r["id"], "refused-with-another-exception-than-the-parse-error [%s]" % r["exc"][:60], r, None)


def replay(ctx, path):
    rec = json.load(open(path))["record"]
    from annet.annlib import tabparser
    sp = tabparser.CommonFormatter().split
    out = real_parse(rec["text"], sp, tuple(rec["comments"]))
    rec2 = {"id": "replay", "comments": rec["comments"], "lines": lex(rec["text"].split("\n")), "err": out["err"], "tree": out["tree"]}
    if "exc" in out:
        ctx.reject("replay", "refused-with-another-exception-than-the-parse-error [%s]" % out["exc"][:60], dict(rec2, text=rec["text"]), None)
    v = ctx.judge("trace/Trace_Offside.tla", "trace/Trace.cfg", [rec2])
    ctx.count()
    if v["replay"][0] != "ok":
        ctx.reject("replay", v["replay"][0], dict(rec2, text=rec["text"]), None)
