"""C13 — JSON fragments stay inside their pointers and JSON patches reproduce the target.

MC   : spec/mc/MC_Json: over all documents of a small schema, fragments and a menu of glob pointer lists, the operational merge satisfies the
       declarative clauses (selected parts = fragment, selected-but-absent removed, the rest untouched) and is idempotent.
C2S  : spec/trace/Trace_Json: RFC 6902 as a state machine in TLA+ applies the REAL op lists of jsontools.make_patch (and, separately, of the
       jsonpatch library) to old and must reach new; real apply_patch output must equal new; real apply_json_fragment results are judged by
       the declarative clauses (+ repeated merge); apply_acl_filters results must be sub-documents.
Inputs: documents of one schema with keys containing '/', '~', '|', '*', arrays with moves, all pairs in bounds + seeded random.
"""
import itertools
import json

from .. import core


def enc(d):
    if isinstance(d, dict):
        return {"t": "o", "k": [list(k) for k in d.keys()], "v": [enc(x) for x in d.values()]}
    if isinstance(d, list):
        return {"t": "a", "v": [enc(x) for x in d]}
    return {"t": "s", "x": json.dumps(d)}


def ptr(s):
    import jsonpointer
    parts = jsonpointer.JsonPointer(s).parts
    return [{"s": list(p), "n": (int(p) if p.isdigit() else (-2 if p == "-" else -1))} for p in parts]


def encop(op):
    return {"op": op["op"], "path": ptr(op["path"]), "from": ptr(op["from"]) if "from" in op else [],
            "value": enc(op["value"]) if "value" in op else {"t": "ERR"}}


def esc(seg):
    return seg.replace("~", "~0").replace("/", "~1")


def prod_upload(old_doc, new_doc, path="/etc/sonic/config_db.json"):
    """bytes PCDeployerJob.parse_result schedules for upload for one JSON fragment file (None: nothing is uploaded)"""
    import copy
    import types
    import annet.deploy
    from annet import api, cli_args, diff as ann_diff
    from annet.types import OldNewResult
    from .. import genrun, annetenv as E
    from .c19 import Drv
    E.init()
    if ann_diff.file_differ_connector._classes is None:
        ann_diff.file_differ_connector.set(ann_diff.UnifiedFileDiffer)
    saved = annet.deploy.get_deployer
    annet.deploy.get_deployer = lambda: Drv()
    try:
        dev = genrun.Dev(E.hwview("PC", ""), "pcjson")
        job = api.PCDeployerJob(dev, types.SimpleNamespace(entire_reload=cli_args.EntireReloadFlag.yes, acl_safe=False))
        job.parse_result(OldNewResult(device=dev, old_json_fragment_files={path: copy.deepcopy(old_doc)},
                                      new_json_fragment_files={path: (copy.deepcopy(new_doc), "config reload -y")}))
        files = job.deploy_cmds.get(dev, {"files": {}})["files"]
        return files[path].decode() if path in files else None
    finally:
        annet.deploy.get_deployer = saved


def prod_old_new(old_doc, fragment, acl, acl_safe, filters, use_safe, path="/etc/sonic/config_db.json"):
    """annet.gen._old_new_per_device for a file device with one JSONFragment generator; returns the fragment the generator object produced
    and the new document of the run (the safe one with use_safe)"""
    import copy
    import types
    from annet import gen
    from annet.generators import JSONFragment
    from .. import genrun, annetenv as E
    E.init()

    class PcDev(genrun.Dev):
        def is_pc(self):
            return True

    frag = copy.deepcopy(fragment)

    class Frag(JSONFragment):
        TAGS = []

        def path(self, device):
            return path

        def acl(self, device):
            return list(acl)

        def acl_safe(self, device):
            return list(acl_safe)

        def run(self, device):
            yield copy.deepcopy(frag)

        def reload(self, device):
            return "config reload -y"
    dev = PcDev(E.hwview("PC", ""), "pcprod")
    g = Frag(genrun.STORAGE)
    produced = g(dev)
    args = types.SimpleNamespace(no_acl=False, acl_safe=use_safe, fail_on_empty_config=False, profile=False, no_acl_exclusive=False,
                                 generators_context=None, required_packages_check=False, filter_acl="stdin" if filters else "", filter_ifaces=[],
                                 filter_peers=[], filter_policies=[])
    dg = gen.DeviceGenerators()
    dg.partial[dev] = []
    dg.ref[dev] = []
    dg.entire[dev.fqdn] = []
    dg.json_fragment[dev] = [g]
    files = gen.DeviceDownloadedFiles(json_fragment_files={path: copy.deepcopy(old_doc)})
    ctx = gen.OldNewDeviceContext(config="running", args=args, downloaded_files={dev: files}, failed_files={}, running={}, failed_running={},
                                  no_new=False, stdin={"filter_acl": "\n".join(filters), "config": None}, add_annotations=False, add_implicit=False,
                                  do_files_download=True, gens=dg, fetched_packages={}, failed_packages={}, device_count=1, do_print_perf=False)
    filterer = types.SimpleNamespace(for_ifaces=lambda d, i: "", for_peers=lambda d, p: "", for_policies=lambda d, p: "")
    res = gen._old_new_per_device(ctx, dev, filterer)
    if res.err is not None:
        raise res.err
    files_new = res.safe_new_json_fragment_files if use_safe else res.new_json_fragment_files
    return {"fragment": produced, "new": files_new[path][0]}


def run(ctx):
    import copy as _copy
    import jsonpatch
    from annet.annlib import jsontools as jt
    quick = ctx.tier == "quick"
    rnd = ctx.rng
    ctx.cov["rule"] = ("(old,new) document pairs and (old, fragment, pointer list) triples of one schema (objects at fixed paths, arrays with permuted/"
                       "inserted/removed elements, keys with '/', '~', '|', '*'); non-trivial = distinct cases with a non-empty op list / a merge that changes old")
    ctx.assumptions += ["PYTHONHASHSEED=0 (jsonpatch's output depends on it)", "pointer patterns address object paths (array elements are not merge targets)",
                        "documents are re-encoded into tagged form by the driver (no semantics); keys as character sequences"]
    r = ctx.mc("mc/MC_Json.tla", "mc/MC_Json.cfg" if quick else "mc/MC_Json_thorough.cfg", workers=core.NCPU, timeout=4 * 3600)
    if r.violated:
        ctx.reject("mc", "JsonDoc model: %s" % r.violated, {"tlc": r.out[-3000:]}, None)
    recs = []
    # ---------------- patch: documents of one schema
    arrs = [list(p) for n in range(0, 4 if quick else 5) for p in itertools.permutations([1, 2, 3, 4, 5][:4 if quick else 5], n)]
    if not quick:
        arrs = rnd.sample(arrs, 120)
    docs = []
    for a in arrs:
        # scalars that Python's == cannot tell apart but JSON can (1 / true / 1.0, 0 / false) sit at the same place in different documents
        for b in (None, {"c": 1}, {"c": 2, "d/e": 1}, {"k~": [1, 2], "x|y": {"s*": True}}, {"c": True}, {"c": 1.0, "z": 0}, {"c": 1, "z": False}):
            d = {"a": a}
            if b is not None:
                d["b"] = b
            docs.append(d)
    pairs = [(o, n) for o in docs for n in docs]
    cap = 5000 if quick else 120000
    if len(pairs) > cap:
        pairs = rnd.sample(pairs, cap)
    extra = [({"a": [1, 2, 3, 4, 5]}, {"a": [5, 1, 2]}), ({"a": [1, 3, 4], "b": {"c": 1}}, {"a": [4, 3], "b": {"c": 2, "d/e": 1}}),
             ({"b": {"c": 1}}, {"b": {"c": True}}), ({"b": {"c": 0, "z": 1}}, {"b": {"c": False, "z": 1.0}}), ({"a": [1, 2]}, {"a": [True, 2]}),
             ({"a": [0, 2], "b": {"c": 1}}, {"a": [False, 2], "b": {"c": 1}})]
    for (o, n) in extra + pairs:
        rec = {"id": "patch-%d" % len(recs), "kind": "patch", "old": enc(o), "new": enc(n), "src": [o, n]}
        try:
            ops = jt.make_patch(o, n)
            lib = list(jsonpatch.make_patch(o, n).patch)
            rec["ops"], rec["libops"] = [encop(x) for x in ops], [encop(x) for x in lib]
            try:
                out = jt.apply_patch(json.dumps(o).encode(), json.dumps(ops).encode())
                rec["applied"], rec["appliedOk"] = enc(json.loads(out)), True
            except Exception:
                rec["applied"], rec["appliedOk"] = enc(None), False
        except Exception as e:
            rec.update({"ops": [], "libops": [], "applied": enc(None), "appliedOk": False, "exc": repr(e)})
        recs.append(rec)
        ctx.count()
        if rec["ops"]:
            ctx.nontrivial(json.dumps([o, n]))
        # the production caller: what PCDeployerJob.parse_result uploads for a JSON fragment file is the patch from the device's
        # document to the generated one (nothing is uploaded when the two print alike)
        if len(recs) % 7 == 0 and "exc" not in rec:
            prec = dict(rec, id="prod" + rec["id"])
            try:
                up = prod_upload(o, n)
                pops = json.loads(up) if up else []
                prec["ops"] = [encop(x) for x in pops]
                try:
                    out = jt.apply_patch(json.dumps(o).encode(), json.dumps(pops).encode())
                    prec["applied"], prec["appliedOk"] = enc(json.loads(out)), True
                except Exception:
                    prec["applied"], prec["appliedOk"] = enc(None), False
            except Exception as e:
                prec.update({"ops": [], "applied": enc(None), "appliedOk": False, "exc": "PCDeployerJob: " + repr(e)})
            recs.append(prec)
            ctx.count()
    # ---------------- fragments and filters
    keys = ["a", "b", "a/b", "k~", "x|y", "s*", "ab", "sx", "x|*", "*"]     # some keys are spelled like glob patterns

    def rdoc(depth):
        d = {}
        for k in rnd.sample(keys, rnd.randint(0, 4)):
            x = rnd.random()
            if depth > 0 and x < 0.5:
                d[k] = rdoc(depth - 1)
            else:
                # leaves of fragment / filter documents are plain scalars: glob pointers address OBJECT paths (the property's schema clause);
                # arrays are exercised by the patch tier (annet's resolver also walks into arrays, outside that domain; a string is a scalar: 5a30504)
                d[k] = rnd.choice([1, 2, 3, True, None, "up", "None", "10.0.0.1/24"])      # generators hand over every scalar as text
        return d

    def schema_fix(a, b):
        """one schema: a path that is an object in one document is an object in the other (drop conflicting keys)"""
        for k in list(b.keys()):
            if k in a and isinstance(a[k], dict) != isinstance(b[k], dict):
                del b[k]
            elif k in a and isinstance(a[k], dict):
                schema_fix(a[k], b[k])
        return b

    def rpat():
        segs = []
        for _ in range(rnd.randint(1, 3)):
            segs.append(rnd.choice(keys + ["*", "a*", "?", "*b", "k?", "x|*", "[ab]", "[!a]", "s[x*]", "a[b/]*", "[ab]b"]))
        return segs
    for _ in range(2500 if quick else 60000):
        old = rdoc(2)
        f = schema_fix(old, rdoc(2))
        acl = [rpat() for _ in range(rnd.randint(1, 3))]
        acl_text = ["/" + "/".join(esc(s) for s in p) for p in acl]
        rec = {"id": "frag-%d" % len(recs), "kind": "fragment", "old": enc(old), "f": enc(f), "acl": [[list(s) for s in p] for p in acl],
               "src": [old, f, acl_text]}
        try:
            keep_old, keep_f = json.dumps(old), json.dumps(f)
            res = jt.apply_json_fragment(old, f, acl_text)
            res_enc = enc(res)
            res2 = jt.apply_json_fragment(res, f, acl_text)
            # frame condition: the caller's documents are not touched (the caller goes on to make_patch(old, result))
            rec.update({"r": res_enc, "r2": enc(res2), "raised": False, "inputsKept": json.dumps(old) == keep_old and json.dumps(f) == keep_f and enc(res) == res_enc})
        except Exception as e:
            rec.update({"r": enc(None), "r2": enc(None), "raised": True, "inputsKept": True, "exc": repr(e)})
        recs.append(rec)
        ctx.count()
        if not rec["raised"] and rec["r"] != rec["old"]:
            ctx.nontrivial(json.dumps([old, f, acl_text]))
        if rnd.random() < 0.4:
            rec = {"id": "filt-%d" % len(recs), "kind": "filter", "d": enc(old), "src": [old, acl_text]}
            try:
                out = jt.apply_acl_filters(old, acl_text)
                rec.update({"out": enc(out), "raised": False})
            except Exception as e:
                rec.update({"out": enc(None), "raised": True, "exc": repr(e)})
            recs.append(rec)
            ctx.count()
    # ---------------- the production path for file devices: annet.gen._old_new_per_device with a real JSONFragment generator, the device's
    # document downloaded, with and without --acl-safe (the generator's narrower pointer list) and --filter-acl (pointer patterns that cut
    # both documents down).  Without a filter the result is judged as a merge; with one, as the filter applied to the merge.
    TABLES = ["PORT", "VLAN", "BGP_NEIGHBOR", "ACL|RULE"]

    def table_doc(p_tab=0.8):
        d = {}
        for tname in TABLES:
            if rnd.random() < p_tab:
                d[tname] = {"%s%d" % (tname[0].lower(), i): rnd.choice(["up", "down", "9100", {"mtu": rnd.choice(["1500", "9100"]), "alias": "x"}])
                            for i in rnd.sample(range(1, 5), rnd.randint(1, 3))}
        return d

    def table_pats(n):
        out = []
        for _ in range(n):
            tname = rnd.choice(TABLES)
            out.append(rnd.choice([[tname], [tname, "*"], [tname, "%s[12]" % tname[0].lower()], [tname, "*", "mtu"], ["*", "%s1" % tname[0].lower()]]))
        return out
    for k in range(240 if quick else 4000):
        if k % 3 == 0:
            old = rdoc(2)
            f = schema_fix(old, rdoc(2))
            acl = [rpat() for _ in range(rnd.randint(1, 3))]
            filt = [rpat()[:rnd.randint(1, 2)] for _ in range(rnd.randint(1, 2))] if k % 2 else []
        else:               # documents shaped like a switch's config_db: tables of named entries
            old = table_doc()
            f = schema_fix(old, table_doc())
            acl = table_pats(rnd.randint(1, 3))
            filt = table_pats(rnd.randint(1, 2)) if k % 2 else []
        safe = [p for p in acl if rnd.random() < 0.5] or acl[:1]
        use_safe = k % 4 >= 2
        txt = lambda a: ["/" + "/".join(esc(x) for x in p) for p in a]
        try:
            got = prod_old_new(old, f, txt(acl), txt(safe), txt(filt), use_safe)
        except Exception as e:
            recs.append({"id": "prodgen-%d" % len(recs), "kind": "filter", "d": enc(old), "out": enc(None), "raised": True, "acl": [], "src": [old, f],
                         "exc": "_old_new_per_device: " + repr(e)})
            continue
        pats = safe if use_safe else acl
        fstr = got["fragment"]                                   # the fragment as the generator object hands it over (scalars as text)
        # (with a filter the safe document is merged into the device's document as the filter left it; the full one into the raw document)
        base = jt.apply_acl_filters(_copy.deepcopy(old), txt(filt)) if (filt and use_safe) else _copy.deepcopy(old)
        merged = jt.apply_json_fragment(base, _copy.deepcopy(fstr), txt(pats))
        if filt:
            rec = {"id": "prodgen-%d" % len(recs), "kind": "filter", "d": enc(merged), "out": enc(got["new"]), "raised": False,
                   "src": [merged, txt(filt)], "acl_text": txt(filt)}
        else:
            rec = {"id": "prodgen-%d" % len(recs), "kind": "fragment", "old": enc(old), "f": enc(fstr), "acl": [[list(x) for x in p] for p in pats],
                   "r": enc(got["new"]), "r2": enc(jt.apply_json_fragment(_copy.deepcopy(got["new"]), _copy.deepcopy(fstr), txt(pats))), "raised": False,
                   "inputsKept": True, "src": [old, fstr, txt(pats)]}
        recs.append(rec)
        ctx.count()
        if got["new"] != old:
            ctx.nontrivial(json.dumps(["prodgen", old, f, txt(acl), txt(safe), txt(filt), use_safe]))
    # ---------------- two generators on one file, as annet merges them (RunGeneratorResult.new_json_fragment_files): full pass, safe pass,
    # full pass again on the same result object; every pass is judged as "second fragment merged into (first fragment merged into old)"
    from annet.generators.result import RunGeneratorResult
    from annet.types import GeneratorJSONFragmentResult
    for _ in range(300 if quick else 6000):
        old = rdoc(2)
        fa, fb = schema_fix(old, rdoc(2)), schema_fix(old, rdoc(2))
        schema_fix(fa, fb)
        pa = [rpat()[:rnd.randint(1, 2)] for _ in range(rnd.randint(1, 2))]
        pb = [pa[0] + rpat()[:1]] if rnd.random() < 0.6 else [rpat() for _ in range(rnd.randint(1, 2))]      # often inside the first one's part
        sa, sb = pa[:1], pb[:1]                                                                      # the "safe" pointer lists
        txt = lambda acl: ["/" + "/".join(esc(x) for x in p) for p in acl]
        res = RunGeneratorResult()
        ka, kb = json.dumps(fa), json.dumps(fb)
        res.add_json_fragment(GeneratorJSONFragmentResult(name="A", tags=[], path="f", acl=txt(pa), acl_safe=txt(sa), config=fa, reload="", perf=None, reload_prio=1))
        res.add_json_fragment(GeneratorJSONFragmentResult(name="B", tags=[], path="f", acl=txt(pb), acl_safe=txt(sb), config=fb, reload="", perf=None, reload_prio=1))
        kold = json.dumps(old)
        for label, safe in (("full", False), ("safe", True), ("again", False)):
            aa, ab = (sa, sb) if safe else (pa, pb)
            rec = {"id": "twogen-%s-%d" % (label, len(recs)), "kind": "fragment", "f": enc(json.loads(kb)), "acl": [[list(x) for x in p] for p in ab],
                   "src": [old, fa, fb, txt(pa), txt(pb), label]}
            try:
                mid = jt.apply_json_fragment(_copy.deepcopy(json.loads(kold)), json.loads(ka), txt(aa))       # the first step, on private copies
                out = res.new_json_fragment_files({"f": old}, safe=safe)["f"][0]
                rec.update({"old": enc(mid), "r": enc(out), "r2": enc(jt.apply_json_fragment(out, json.loads(kb), txt(ab))), "raised": False,
                            "inputsKept": json.dumps(fa) == ka and json.dumps(fb) == kb and json.dumps(old) == kold})
            except Exception as e:
                rec.update({"old": enc(old), "r": enc(None), "r2": enc(None), "raised": True, "inputsKept": True, "exc": repr(e)})
            recs.append(rec)
            ctx.count()
    ctx.sample({"old": recs[0]["src"][0], "new": recs[0]["src"][1], "ops": jt.make_patch(*recs[0]["src"])})
    slim = [{k: v for k, v in r.items() if k not in ("src", "exc")} for r in recs]
    verd = ctx.judge("trace/Trace_Json.tla", "trace/Trace.cfg", slim, shards=16)
    for rec in recs:
        v = verd[rec["id"]]
        if v[0] != "ok":
            ctx.reject(rec["id"], v[0] + ((" [%s]" % rec["exc"]) if "exc" in rec else ""), {"src": rec["src"], "kind": rec["kind"], "exc": rec.get("exc")},
                       signature_of(rec, v))
        elif v[1] == "drift":
            ctx.drift(1, rec["src"])


def typed_only_in_arrays(a, b, inarr=False):
    """a and b are ==-equal for Python; True iff every place where their JSON types differ lies inside an array"""
    if isinstance(a, dict) and isinstance(b, dict):
        return all(typed_only_in_arrays(a[k], b[k], inarr) for k in a)
    if isinstance(a, list) and isinstance(b, list):
        return all(typed_only_in_arrays(x, y, True) for x, y in zip(a, b))
    return json.dumps(a) == json.dumps(b) or inarr


def signature_of(rec, v):
    if rec["kind"] == "patch" and v[0] == "patch-does-not-reproduce-the-target" and v[1] == "library":
        o, n = rec["src"]
        if o == n and json.dumps(o, sort_keys=True) != json.dumps(n, sort_keys=True) and typed_only_in_arrays(o, n):
            return "jsonpatch library: array elements that differ only in JSON type (1 / true) are taken for equal"
    if rec["kind"] == "patch" and v[0] == "patch-does-not-reproduce-the-target" and v[1] == "library":
        return "jsonpatch library: its own (unsorted) op list does not reproduce the target (cross-container move, hash-seed dependent)"
    return None
