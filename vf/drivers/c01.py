"""C01 — deploying the patch makes the diff empty (convergence), along chains of targets.

S2C : (old,new) pairs of TLC-enumerated Configs(R) per catalogue rulebook and vendor profile run through the production composition
      annet.api._diff_and_patch + formatter.cmd_paths.
C2S : spec/trace/Trace_Deploy: the P-layer device (spec/Device.tla) starts at old and executes the REAL command paths; it must converge
      to new (contract-aware for permanent / ignore_changes); TLC prints the device state, which is fed back into the real code:
      round 2 = second diff/patch on (device, same target) must be empty (or effect-free navigation where a documented contract leaves a
      difference standing); round 3 = next target of the chain starting from the spec's device state.
MC   : spec/mc/MC_Converge: the A-layer transcription of diff/pre/logic/patch executed on the P-layer device over full squares.
"""
import json

from .. import core
from .. import cases


# a flattening vendor has no "re-send the block" (%rewrite is not used by its rulebooks), and a rule that begins with the negation word
# cannot be told from a removal in a flat command line
FLAT_SKIP = {"rewrite", "rewrite-values", "ordered-rewrite", "rewrite-deep", "rewrite-sandwich", "catch-all"}


def real_patch(cat, k, old_j, new_j):
    from annet import api
    rb = cat.compiled[k - 1]
    old, new = cases.tree(old_j), cases.tree(new_j)
    d, p = api._diff_and_patch(cat.device, old, new, None, None, False, rb=rb)
    return cases.jdiff(d), cases.jpaths(cat.formatter.cmd_paths(p))


def signature(rec, cat):
    return None


def run(ctx):
    quick = ctx.tier == "quick"
    rnd = ctx.rng
    ctx.cov["rule"] = ("(rulebook, vendor profile, chain old->new1->new2): pairs of TLC-enumerated Configs(R) (all pairs where the square fits the "
                       "limit, seeded sample otherwise), each followed by the second diff on the spec's device state and one further target; "
                       "non-trivial = distinct (rulebook, old, new) whose patch has at least one command")
    ctx.assumptions += ["device model: one line per (rule,key); block headers fully determined by (rule,key)",
                        "documented contracts of permanent / ignore_changes are part of the oracle (Conv)",
                        "block-structured vendor profiles (huawei, cisco, pc, ...) and the flattening vendors juniper and ribbon (set / delete lines segmented by the rulebook; catalogue entries without %rewrite); nokia and routeros not covered"]
    mc_converge(ctx, quick)
    limit = 900 if quick else 30000
    profiles = ["huawei", "cisco", "juniper", "ribbon"] if quick else ["huawei", "cisco", "juniper", "pc", "arista", "h3c", "nexus", "ribbon"]
    import os
    if os.environ.get("VERIF_PROFILES"):          # debugging aid: restrict the vendor profiles of this run
        profiles = os.environ["VERIF_PROFILES"].split(",")
    total_exh = True
    for pi, prof in enumerate(profiles):
        cat = cases.Catalog(ctx, prof)
        aux = cat.aux_file()
        lim = limit if pi == 0 else limit // (8 if prof == "ribbon" else 4)
        # ---- round 1: old -> new1
        r1 = []
        for k in range(1, len(cat.entries) + 1):
            if prof in cases.FLAT and cat.names[k - 1] in FLAT_SKIP:
                continue
            pairs, exh = cat.pairs(k, lim, rnd)
            total_exh = total_exh and exh
            for (o, n) in pairs:
                rec = {"id": "%s-%s-%d" % (prof, cat.names[k - 1], len(r1)), "kind": "apply", "rb": k, "old": o, "new": n}
                try:
                    rec["diff"], rec["cmds"] = real_patch(cat, k, o, n)
                except Exception as e:
                    rec["cmds"] = []
                    rec["exc"] = repr(e)
                r1.append(rec)
        ctx.count(len(r1))
        v1 = judge(ctx, cat, aux, r1, "round1")
        measure_drift(ctx, cat, aux, r1)
        # ---- round 2: second diff on the spec's device state; round 3: chain step to another target from that state
        r2, r3 = [], []
        for rec in r1:
            if rec.get("dev") is None:
                continue
            if rec["cmds"]:
                ctx.nontrivial(json.dumps([prof, rec["rb"], rec["old"], rec["new"]]))
            s = {"id": rec["id"] + "-2nd", "kind": "second", "rb": rec["rb"], "old": rec["old"], "new": rec["new"], "dev": rec["dev"]}
            try:
                s["diff2"], s["cmds2"] = real_patch(cat, rec["rb"], rec["dev"], rec["new"])
            except Exception as e:
                s["diff2"], s["cmds2"], s["exc"] = [], [], repr(e)
            r2.append(s)
            if rnd.random() < (0.35 if quick else 0.5):
                n2 = rnd.choice(cat.configs[rec["rb"]])
                c = {"id": rec["id"] + "-chain", "kind": "apply", "rb": rec["rb"], "old": rec["dev"], "new": n2, "first_old": rec["old"],
                     "first_new": rec["new"]}
                try:
                    c["diff"], c["cmds"] = real_patch(cat, rec["rb"], rec["dev"], n2)
                except Exception as e:
                    c["cmds"], c["exc"] = [], repr(e)
                r3.append(c)
        ctx.count(len(r2) + len(r3))
        judge(ctx, cat, aux, r2, "second")
        judge(ctx, cat, aux, r3, "chain")
        r4 = []
        for rec in r3:
            if rec.get("dev") is None:
                continue
            s = {"id": rec["id"] + "-2nd", "kind": "second", "rb": rec["rb"], "old": rec["old"], "new": rec["new"], "dev": rec["dev"]}
            try:
                s["diff2"], s["cmds2"] = real_patch(cat, rec["rb"], rec["dev"], rec["new"])
            except Exception as e:
                s["diff2"], s["cmds2"], s["exc"] = [], [], repr(e)
            r4.append(s)
        ctx.count(len(r4))
        judge(ctx, cat, aux, r4, "chain-second")
        mid = r1[len(r1) // 2]
        ctx.sample({"profile": prof, "rulebook": cat.names[mid["rb"] - 1], "old": mid["old"], "new": mid["new"], "cmds": mid["cmds"]}, limit=3)
    ctx.cov["exhaustive"] = total_exh


# catalogue entries (1-based) small enough for the every-change tier; the thorough tier takes every entry, both rank orders and one chain hop
MC_QUICK = [4, 5, 7, 9, 11]
MC_KNOWN = {13: "SecondEmpty"}       # rewrite-values: the known finding of this property exists in the design itself


def mc_converge(ctx, quick):
    """A-layer (spec/Patcher.tla) executed on the P-layer device over full squares of Configs(R)"""
    import os
    base = open(os.path.join(core.SPEC, "mc", "MC_Converge.cfg")).read()
    n_entries = 20
    runs = []
    for e in (MC_QUICK if quick else range(1, n_entries + 1)):
        if e in MC_KNOWN:
            continue
        runs.append((e, False, False))
        if not quick:
            runs.append((e, True, False))
            if e in MC_QUICK:
                runs.append((e, False, True))
    runs.append((13, False, False))
    for (e, rev, hop) in runs:
        cfg = os.path.join(ctx.scratch, "conv_%d_%d_%d.cfg" % (e, rev, hop))
        open(cfg, "w").write(base.replace("Entry = 2", "Entry = %d" % e).replace("RankRev = FALSE", "RankRev = %s" % str(rev).upper())
                             .replace("Hop = FALSE", "Hop = %s" % str(hop).upper()))
        r = ctx.mc("mc/MC_Converge.tla", cfg, name="MC_Converge[entry=%d,rankrev=%s,hop=%s]" % (e, rev, hop), expect_ok=False, timeout=4 * 3600)
        if e in MC_KNOWN:
            if MC_KNOWN[e] not in r.violated:
                raise core.Machinery("anti-vacuity: the design-level instance of the known finding (entry %d) no longer violates %s: %s"
                                     % (e, MC_KNOWN[e], r.violated))
            ctx.cov["mc_runs"][-1]["expected"] = "%s violated (design-level instance of the recorded %%rewrite finding)" % MC_KNOWN[e]
        elif r.violated:
            # the transcription is not the implementation: a failure here is a defect of the model or a change of the catalogue
            raise core.Machinery("MC_Converge entry %d: %s\n%s" % (e, r.violated, r.out[-1500:]))


def measure_drift(ctx, cat, aux, recs):
    """A-layer against the real code on the same inputs: differences are model drift, not violations"""
    slim = [{"id": r["id"], "rb": r["rb"], "old": r["old"], "new": r["new"], "diff": r["diff"], "cmds": r["cmds"]}
            for r in recs if "exc" not in r and "diff" in r]
    if not slim:
        return
    verd = ctx.judge("trace/Trace_Patcher.tla", "trace/Trace.cfg", slim, env={"AUX_FILE": aux}, shards=16,
                     name="Trace_Patcher[%s]" % cat.profile)
    n = 0
    for r in slim:
        v = verd[r["id"]][0]
        if v != "same":
            n += 1
            ctx.drift(1, {"stage": v, "profile": cat.profile, "rulebook": cat.names[r["rb"] - 1], "old": r["old"], "new": r["new"]})
    ctx.cov.setdefault("drift_compared", 0)
    ctx.cov["drift_compared"] += len(slim)


def judge(ctx, cat, aux, recs, label):
    if not recs:
        return {}
    slim = [{k: v for k, v in r.items() if k in ("id", "kind", "rb", "old", "new", "cmds", "dev", "diff2", "cmds2")} for r in recs]
    verd = ctx.judge("trace/Trace_Deploy.tla", "trace/Trace.cfg", slim, env={"AUX_FILE": aux}, shards=16,
                     name="Trace_Deploy[%s,%s]" % (cat.profile, label))
    for rec in recs:
        v = verd[rec["id"]]
        if "exc" in rec:
            v = ["annet raised: " + rec["exc"], ""]
        if rec["kind"] == "apply" and v[1]:
            st = json.loads(v[1])
            rec["dev"] = st["t"]
            rec["strict"] = st["strict"]
        if v[0] != "ok":
            rec["profile"] = cat.profile
            rec["rulebook"] = cat.names[rec["rb"] - 1]
            rec["rule_text"] = cat.compiled[rec["rb"] - 1]["text"]
            ctx.reject(rec["id"], v[0], rec, signature_of(rec, v[0]))
            if rec["kind"] == "apply":
                rec["dev"] = None       # do not chain from a state that is already wrong
    return verd


def canon(t):
    return sorted((tuple(n["row"]), canon(n["kids"])) for n in t)


def _kids(t, row):
    for n in t:
        if n["row"] == row:
            return n["kids"]
    return None


def value_change_under_rewrite(a, b):
    """catalogue rulebook `rewrite-values`: block `rv 1` present on both sides and one key of `r * %rewrite` changes its value"""
    ka, kb = _kids(a, ["rv", "1"]), _kids(b, ["rv", "1"])
    if ka is None or kb is None:
        return False
    ra = {tuple(n["row"][:2]): n["row"] for n in ka}
    rb = {tuple(n["row"][:2]): n["row"] for n in kb}
    return any(k in rb and rb[k] != ra[k] for k in ra)


def signature_of(rec, clause):
    # known finding: after a value change under a %rewrite rule whose key is not the whole row the re-sent block comes in key-grouped
    # order (make_pre groups by key, the changed key takes the position of its removed row), so an order-sensitive second diff stays
    if rec.get("rulebook") == "rewrite-values" and clause in ("second-diff-not-empty", "device-did-not-converge"):
        first_old = rec.get("first_old", rec["old"])
        first_new = rec.get("first_new", rec["new"])
        # ... and the finding is about ORDER only: the device holds exactly the target's lines (a missing or extra line is something else)
        dev = rec.get("dev")
        if dev is None or canon(dev) != canon(rec["new"]):
            return None
        if value_change_under_rewrite(rec["old"], rec["new"]) or value_change_under_rewrite(first_old, first_new):
            return "%rewrite rule with a key narrower than the row: value change of one key (same key REMOVED+ADDED)"
    return None
