"""C04 — vendor text and config trees round-trip for every supported vendor.

MC   : spec/mc/MC_Format: all trees over a row alphabet (depth<=2, width<=2): on the model the indented rendering parses back (offside rule)
       for indentation units 1, 2, 4.  Every tree is emitted as a case.
S2C  : every emitted tree (rows mapped into each vendor's well-formed domain) and seeded random trees up to depth 5 go through
       registry[v].make_formatter().join and parse_to_tree(text, formatter.split) for all 14 registered vendors, incl. the Cisco
       `address-family ... exit-address-family` sub-domain and RouterOS section trees.
C2S  : spec/trace/Trace_Format: parse(join(t)) = t (rows, nesting, order), join(parse(s)) = s, and for the indentation family the spec's own
       offside parser applied to the lexed real text gives t.
The law is an identity between outputs of the implementation; TLA+ contributes the domain, the judge and the independent text oracle.
"""
import json
from collections import OrderedDict as od

from .. import core
from .. import cases
from .. import annetenv as E

INDENT_FAMILY = {"huawei", "h3c", "optixtrans", "cisco", "nexus", "iosxr", "arista", "aruba", "b4com", "pc"}
WORDS = ["alpha", "b1", "eth-trunk7", "10.0.0.1/24", "x_y", "Gi0/0/1", "description", "peer", "undo", "no", "set", "vlan", "65000:1",
         # words that merely END like a policy terminator of some vendor (only whole terminator lines are syntax)
         "backend-list", "legend-filter", "my-endif", "x-end-set"]


def map_rows(tj, vendor, rnd, depth=0):
    """TLC's abstract rows -> rows of the vendor's well-formed domain (a renaming; the structure is TLC's)"""
    out = []
    for n in tj:
        row = [w if len(w) > 1 else {"a": "alpha", "b": "beta", "c": "gamma", "d": "delta", "e": "eps"}.get(w, w) for w in n["row"]]
        out.append({"row": row, "kids": map_rows(n["kids"], vendor, rnd, depth + 1)})
    return out


# IOS-XR drops every line that ENDS with one of its policy terminators: such rows are outside its well-formed domain
WORDS_ASR = [w for w in WORDS if not w.endswith(("end-set", "endif", "end-policy"))]


def rnd_tree(rnd, depth, maxdepth, width, words=None):
    words = words or WORDS
    t = []
    seen = set()
    for _ in range(rnd.randint(1, width)):
        row = [rnd.choice(words) for _ in range(rnd.randint(1, 3))]
        if tuple(row) in seen:
            continue
        seen.add(tuple(row))
        kids = rnd_tree(rnd, depth + 1, maxdepth, width, words) if depth + 1 < maxdepth and rnd.random() < 0.5 else []
        t.append({"row": row, "kids": kids})
    return t


def ros_tree(rnd, depth=0):
    """RouterOS: chains of single-word sections, then leaf rows"""
    t = []
    seen = set()
    for _ in range(rnd.randint(1, 3)):
        if depth < 3 and rnd.random() < (0.9 if depth == 0 else 0.5):
            w = rnd.choice(["ip", "address", "interface", "bridge", "port", "system", "user", "routing"])
            if w in seen:
                continue
            seen.add(w)
            kids = ros_tree(rnd, depth + 1)
            if kids:
                t.append({"row": [w], "kids": kids})
                # neighbouring sections often hold the same sub-tree (`/ip firewall filter` and `/ipv6 firewall filter`)
                twin = rnd.choice(["ipv6", "mpls", "queue"])
                if rnd.random() < 0.3 and twin not in seen:
                    seen.add(twin)
                    t.append({"row": [twin], "kids": json.loads(json.dumps(kids))})
        elif depth > 0:
            row = [rnd.choice(["add", "set"]), rnd.choice(["a=1", "b=2", "name=x"])] + ([rnd.choice(["c=3", "disabled=yes"])] if rnd.random() < 0.5 else [])
            if tuple(row) in seen:
                continue
            seen.add(tuple(row))
            t.append({"row": row, "kids": []})
    return t


def cisco_af(t, rnd):
    """Cisco sub-domain: an `address-family ...` block carries `exit-address-family` as its last child (annet's own representation)"""
    if t and rnd.random() < 0.5:
        blk = rnd.choice(t)
        if blk["kids"] is not None:
            blk["kids"] = [k for k in blk["kids"]] + [{"row": ["address-family", "ipv4"], "kids": [{"row": ["neighbor", "x"], "kids": []},
                                                                                                  {"row": ["exit-address-family"], "kids": []}]}]
    return t


# keyed by the vendor families whose OWN syntax the header belongs to (a fact about the devices, not read off the formatter classes)
FOREIGN = {("cisco",): [["address-family", "ipv4"], ["address-family", "ipv6", "unicast"]],
           ("huawei", "h3c"): [["xpl", "route-filter", "f1"], ["xpl", "as-path-list", "l1"]],
           ("iosxr",): [["route-policy", "rp1"], ["prefix-set", "ps1"], ["if", "x_y", "then"]]}


def foreign_blocks(t, rnd, vendor):
    """block headers that are syntax for ANOTHER vendor family (Cisco `address-family`, Huawei `xpl ...`, IOS-XR `route-policy`) are ordinary
    rows everywhere else: a block with children in the middle of the tree, followed by rows at its own level"""
    heads = [h for owners, hs in FOREIGN.items() if vendor not in owners for h in hs]
    if not heads or not t:
        return t
    t = list(t)
    blk = {"row": rnd.choice(heads), "kids": [{"row": ["neighbor", "x"], "kids": [{"row": ["peer", "b1"], "kids": []}] if rnd.random() < 0.4 else []},
                                             {"row": ["alpha", "b1"], "kids": []}]}
    tail = {"row": ["after", rnd.choice(["b1", "alpha"])], "kids": []}
    if rnd.random() < 0.5 or not any(n["kids"] for n in t):
        k = rnd.randrange(len(t) + 1)
        t[k:k] = [blk, tail]
    else:
        host = rnd.choice([n for n in t if n["kids"]])
        host["kids"] = [blk, tail] + list(host["kids"])
    return t


def no_leading_hash(t):
    """a line STARTING with `#` is a comment for every reader; the remark characters are only looked at inside a row"""
    out, seen = [], set()
    for n in t:
        row = (["description"] + n["row"]) if n["row"][0].startswith("#") else n["row"]
        if tuple(row) in seen:
            continue
        seen.add(tuple(row))
        out.append({"row": row, "kids": no_leading_hash(n["kids"])})
    return out


def iosxr_qos(t, rnd):
    """IOS-XR sub-domain: QoS blocks end with an `end-policy-map` / `end-class-map` row, which is an ordinary last child in annet's trees
    (only `end-set`, `endif`, `end-policy` are terminators of the policy language)"""
    if rnd.random() < 0.5:
        t = list(t) + [{"row": ["policy-map", rnd.choice(["pm-in", "core"])], "kids": [
            {"row": ["class", "c1"], "kids": [{"row": ["set", "dscp", "af11"], "kids": []}]},
            {"row": ["class", "class-default"], "kids": []},
            {"row": ["end-policy-map"], "kids": []}]}]
    if rnd.random() < 0.3:
        t = list(t) + [{"row": ["class-map", "match-any", "c1"], "kids": [{"row": ["match", "dscp", "af11"], "kids": []},
                                                                          {"row": ["end-class-map"], "kids": []}]}]
    return t


def juniper_annot(t, rnd, depth=0):
    """Junos-family sub-domain: an annotation is a row of its own in annet's trees, `/* {"row": <the statement it precedes>, "comment": ...} */`,
    standing right before that statement (inside blocks: a top-level annotation has no indentation to be recognised by)"""
    out = []
    for n in t:
        kids = juniper_annot(n["kids"], rnd, depth + 1)
        if depth > 0 and rnd.random() < 0.4:
            ann = "/* %s */" % json.dumps({"row": " ".join(n["row"]), "comment": rnd.choice(["note", "note", "uplink to dc1"])})
            out.append({"row": ann.split(), "kids": []})
        out.append({"row": n["row"], "kids": kids})
    return out


def lex_text(text):
    out = []
    for line in text.split("\n"):
        if not line.strip():
            continue
        out.append({"ind": len(line) - len(line.lstrip(" \t")), "first": "x", "w": line.split()})
    return out


def run(ctx):
    E.init()
    from annet.annlib import tabparser
    quick = ctx.tier == "quick"
    rnd = ctx.rng
    ctx.cov["rule"] = ("(vendor, tree): TLC-enumerated trees (depth<=2,width<=2) and seeded random trees to depth 5 in each vendor's well-formed domain, RouterOS "
                       "section trees, Cisco address-family sub-domain; non-trivial = distinct (vendor, tree) with nesting depth >= 2")
    ctx.assumptions += ["rows are 1-3 printable words free of the vendor's syntax delimiters; no row equal to / starting with the vendor's policy end markers",
                        "indentation unit: the formatter default, four blanks, a tab or one blank"]
    r = ctx.mc("mc/MC_Format.tla", "mc/MC_Format.cfg", workers=1)
    if r.violated:
        ctx.reject("mc", "Formatter model: %s" % r.violated, {"tlc": r.out[-2000:]}, None)
    trees = [json.loads(c[0])["t"] for c in core.parse_tagged(r.out, "TREE")]
    if len(trees) != r.distinct:
        raise core.Machinery("emitted %d trees for %d states" % (len(trees), r.distinct))
    ctx.cov["exhaustive"] = True
    reg = E.registry()
    recs = []

    def observe(tag, vendor, tj):
        # the indentation unit is an option of the entry point (`annet gen --indent`): default, four blanks, a tab, one blank
        unit = {4: "    ", 3: "\t", 2: " "}.get(len(recs) % 7)
        # the formatter `annet gen` / `annet diff` use for a box: the one of the vendor its hardware model resolves to
        model = E.MODELS[vendor][(len(recs) // 7) % len(E.MODELS[vendor])]
        vend = reg.match(E.hwview(model, ""))
        fmt = vend.make_formatter(indent=unit) if unit is not None else vend.make_formatter()
        t = cases.tree(tj)
        rec = {"id": "%s-%s-%d" % (tag, vendor, len(recs)), "vendor": vendor, "model": model, "formatter": type(fmt).__name__, "t": tj, "indent": vendor in INDENT_FAMILY}
        try:
            if unit is not None and len(recs) % 2:
                from annet import gen as anngen
                text = anngen.format_config_blocks(t, E.hwview(model, ""), unit)       # what `annet gen` prints for that box
            else:
                text = fmt.join(t)
            t2 = tabparser.parse_to_tree(text, fmt.split)
            text2 = fmt.join(t2)
            rec.update({"t2": cases.jtree(t2), "fixed": text2 == text, "lines": lex_text(text) if rec["indent"] else [], "text": text})
        except Exception as e:
            rec.update({"t2": [], "fixed": False, "lines": [], "exc": repr(e)})
        recs.append(rec)
        ctx.count()
        if any(n["kids"] for n in tj):
            ctx.nontrivial(json.dumps([vendor, tj]))

    vendors = list(reg)
    # which formatter of a family is the FIRST one a process uses must not matter (the Junos family shares code between juniper, ribbon and
    # nokia, the exit-word family between cisco, nexus, arista, ...): in forked children -- processes that have not formatted anything yet --
    # the families are gone through in other orders than below
    from .c20 import in_fork

    def first_use(order):
        mark = len(recs)
        for k in range(12):
            for v in order:
                tj = rnd_tree(rnd, 0, 3, 3, WORDS_ASR if v == "iosxr" else WORDS)
                observe("first-" + "-".join(order[:2]), v, no_leading_hash(tj) if v == "nokia" else tj)
        return recs[mark:]
    for order in (["nokia", "juniper", "ribbon"], ["ribbon", "nokia", "juniper"], ["b4com", "arista", "cisco", "nexus", "iosxr"], ["iosxr", "cisco", "b4com"]):
        got = in_fork(lambda order=order: first_use(order))
        for r in got:
            r["id"] = "%s-%d" % (r["id"].rsplit("-", 1)[0], len(recs))
            recs.append(r)
            ctx.count()
    for v in vendors:
        reg[v].make_formatter(indent="")        # the deploy path asks every vendor for an unindented formatter first (same process)
    for k, tj in enumerate(trees):
        for v in vendors:
            if v == "routeros":
                continue
            if quick and (k + hash(v)) % 3:
                continue
            observe("s2c", v, map_rows(tj, v, rnd))
    for _ in range(150 if quick else 4000):
        for v in vendors:
            if v == "routeros":
                tj = ros_tree(rnd)
                if tj:
                    observe("ros", v, tj)
                continue
            # (free text inside rows may hold the characters some vendor's dump uses for end-of-line remarks: `##` is one in Nokia dumps, and a
            # plain word in a tree rendered by annet: the reader of that text meets it inside descriptions; Junos comment syntax keeps it out there)
            tj = rnd_tree(rnd, 0, rnd.choice([2, 3, 4, 5]), 3, WORDS_ASR if v == "iosxr" else (WORDS + ["##", "##100G"] if v == "nokia" else WORDS))
            if v == "nokia":
                tj = no_leading_hash(tj)
            if v in ("cisco", "nexus", "iosxr") and rnd.random() < 0.3:
                tj = cisco_af(tj, rnd) if v == "cisco" else (iosxr_qos(tj, rnd) if v == "iosxr" else tj)
            elif rnd.random() < 0.25:
                tj = foreign_blocks(tj, rnd, v)
            if v in ("juniper", "ribbon") and rnd.random() < 0.3:
                tj = juniper_annot(tj, rnd)
            observe("rnd", v, tj)
    ctx.sample({"vendor": recs[3]["vendor"], "tree": recs[3]["t"], "text": recs[3].get("text")})
    slim = [{k: v for k, v in r.items() if k in ("id", "t", "t2", "fixed", "indent", "lines")} for r in recs]
    verd = ctx.judge("trace/Trace_Format.tla", "trace/Trace.cfg", slim, shards=16)
    for rec in recs:
        v = verd[rec["id"]][0]
        if "exc" in rec:
            ctx.reject(rec["id"], "annet raised: " + rec["exc"], rec, None)
        elif v != "ok":
            ctx.reject(rec["id"], v, rec, signature_of(rec, v))


def signature_of(rec, clause):
    return None
