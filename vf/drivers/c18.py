"""C18 — every known hardware model resolves to one vendor and a loadable rulebook.

MC   : spec/mc/MC_HwDb: vendors registered in every order (registration = action): the implementation's choice rule is order independent when the
       most specific match is unique; a tie (regression instance) makes it order dependent.
C2S  : for every sequence of devdb.json a model string is synthesised from its regex chain; HardwareView(model).match for every full sequence
       must equal the regex-chain truth (hits table via re.search, trusted); the vendor is taken from fresh Registry objects under permuted
       registration of the matching vendors; get_rulebook(hw) for every sequence x software-version shape must load, resolve every
       %logic/%diff_logic/%apply_logic, compile every row regex and be equal for two fresh providers.  Judge: spec/trace/Trace_HwDb.
Loadability is an exhaustive enumeration judged by TLC, not modelled (DESIGN.md C18).
"""
import itertools
import json
import re

from .. import core
from .. import annetenv as E
from .c20 import canon, digest

try:
    import re._parser as sre_parse      # python >= 3.11
except ImportError:                      # pragma: no cover
    import sre_parse


def sample(rx_src):
    """one string matched by a (simple) regular expression: literals, classes, \\d, groups, alternation, repeats"""
    def gen(parsed):
        out = []
        for op, arg in parsed:
            name = str(op)
            if name == "LITERAL":
                out.append(chr(arg))
            elif name == "IN":
                for o2, a2 in arg:
                    n2 = str(o2)
                    if n2 == "LITERAL":
                        out.append(chr(a2))
                        break
                    if n2 == "RANGE":
                        out.append(chr(a2[0]))
                        break
                    if n2 == "CATEGORY":
                        out.append("1" if "DIGIT" in str(a2) else "a")
                        break
                else:
                    out.append("x")
            elif name in ("MAX_REPEAT", "MIN_REPEAT"):
                lo, hi, sub = arg
                out.append(gen(sub) * max(lo, 1 if lo == 0 and False else lo))
            elif name == "SUBPATTERN":
                out.append(gen(arg[3]))
            elif name == "BRANCH":
                out.append(gen(arg[1][0]))
            elif name == "CATEGORY":
                out.append("1" if "DIGIT" in str(arg) else "a")
            elif name == "ANY":
                out.append("x")
            elif name == "AT":
                pass
            else:
                out.append("")
        return "".join(out)
    return gen(sre_parse.parse(rx_src))


def plugin_vendor(name, expr):
    from annet.vendors.base import AbstractVendor
    from annet.annlib.netdev.views.hardware import HardwareView
    from annet.annlib.tabparser import CommonFormatter

    class Plug(AbstractVendor):
        NAME = name

        def match(self):
            return [expr]

        @property
        def reverse(self):
            return "no"

        @property
        def exit(self):
            return "exit"

        @property
        def hardware(self):
            return HardwareView("")

        def make_formatter(self, **kwargs):
            return CommonFormatter(**kwargs)
    Plug.__name__ = "Plug_" + name
    return Plug


def variants(seq):
    return {seq[left:len(seq) - right] + (seq[-1],) for left in range(len(seq)) for right in range(1, len(seq) - left + 1)}


SOFT_SHAPES = ["", "8.180 (V200R005C10SPC800)", "VRP (R) software, Version 8.210", "7.0(3)I7(9)", "4.28.3M", "Cumulus Linux 4.4", "SwitchDev", "SONiC"]


def run(ctx):
    E.init()
    from annet.annlib.netdev.devdb import _prepare_db
    from annet.vendors.registry import Registry
    from annet.vendors import registry_connector
    from annet.rulebook import DefaultRulebookProvider
    from annet.rulebook.common import import_rulebook_function
    quick = ctx.tier == "quick"
    rnd = ctx.rng
    ctx.cov["rule"] = ("every sequence of devdb.json with a model string synthesised from its regex chain (plus the vendors' canonical hardware), crossed "
                       "with software-version shapes; non-trivial = distinct models for which at least two database nodes are true")
    ctx.assumptions += ["per-node regex hits are computed with re.search (trusted)", "model strings are synthesised by a regex sampler and kept only if "
                        "their whole chain matches", "registration permutations are taken over the vendors whose expressions match the model"]
    for cfg, expect in (("MC_HwDb.cfg", None), ("MC_HwDb_regress.cfg", "TieFreeChoice")):
        r = ctx.mc("mc/MC_HwDb.tla", "mc/" + cfg, workers=2, expect_ok=False)
        if expect is None and r.violated:
            ctx.reject("mc", "HwDb model: %s" % r.violated, {"tlc": r.out[-2000:]}, None)
        if expect and expect not in r.violated:
            raise core.Machinery("anti-vacuity: a tie no longer makes the choice order dependent in the model")
        if expect:
            ctx.cov["mc_runs"][-1]["expected"] = "TieFreeChoice violated (a tie is order dependent)"
    db = _prepare_db()
    seqs = sorted(db)
    models = {}
    for seq in seqs:
        parts = [sample(db[seq[:k]].pattern) for k in range(1, len(seq) + 1)]
        for joiner in ("", " "):
            cand = joiner.join(parts)
            if all(db[seq[:k]].search(cand) for k in range(1, len(seq) + 1)):
                models[seq] = cand
                break
        else:
            ctx.skip("no model string synthesised for %s" % ".".join(seq))
    allv = {}
    for q in seqs:
        for v in variants(q):
            allv[v] = allv.get(v, 0) + 1
    shared = {v for v, n in allv.items() if n > 1}
    ctx.cov["shared_short_spellings"] = sorted(".".join(v) for v in shared)
    reg = registry_connector.get()
    canon_models = {v: reg[v].hardware.model for v in reg}
    allm = [(".".join(s), m) for s, m in models.items()] + [("vendor:" + v, m) for v, m in canon_models.items() if m]
    allm += [("menu:" + v, m) for v, ms in E.MODELS.items() for m in ms]            # real model spellings per family
    allm += [("unknown", "Acme Router X1"), ("unknown", "")]                        # no database node is true: no vendor
    base_classes = {name: type(reg[name]) for name in reg}
    vendor_classes = base_classes
    recs = []
    for label, model in allm:
        hw = E.hwview(model, "")
        hits = [list(s) for s in seqs if db[s].search(model)]
        true_full = []
        for s in seqs:
            try:
                if hw.match(".".join(s)):
                    true_full.append(list(s))
            except AttributeError:
                pass
        # short spellings (input generation: every abbreviation of the true sequences, and every spelling two sequences share)
        spell = []
        for v in sorted(set().union(*[variants(tuple(q)) for q in true_full] or [set()]) | shared):
            try:
                ans = "true" if hw.match(".".join(v)) else "false"
            except AttributeError:
                ans = "refused"
            spell.append({"v": list(v), "ans": ans})
        cands = []
        matching = []
        for name in reg:
            for expr in reg[name].match():
                try:
                    if hw.match(expr):
                        cands.append({"v": name, "dots": expr.count(".")})
                        if name not in matching:
                            matching.append(name)
                except AttributeError:
                    pass
        # a site plug-in vendor for the deepest family of this model (vendors may be registered for any node of the database, e.g. one
        # model line below a shipped vendor's family): it is the most specific match wherever it stands in the registration order
        deep = max(true_full, key=len) if true_full else []
        if len(deep) >= 3 and len(recs) % 2 == 0 and not label.startswith("menu:"):
            pname = "plug_" + "_".join(deep).lower()
            vendor_classes = dict(base_classes)              # the plug-in exists for this model's registries only
            vendor_classes[pname] = plugin_vendor(pname, ".".join(deep))
            cands.append({"v": pname, "dots": len(deep) - 1})
            matching.append(pname)
        else:
            vendor_classes = base_classes
        choices = []
        others = [n for n in vendor_classes if n not in matching]
        perms = list(itertools.permutations(matching)) if len(matching) <= 4 else [tuple(matching), tuple(reversed(matching))]
        for perm in perms:
            for front in (True, False):
                r2 = Registry()
                order = (list(perm) + others) if front else (others + list(perm))
                for n in order:
                    r2.register(vendor_classes[n])
                got = r2.match(hw, None)
                choices.append(got.NAME if got is not None else "generic")
                # the same question asked with the model as a string, and without a default (no vendor = the generic vendor object)
                if front:
                    from annet.vendors.registry import GENERIC_VENDOR
                    g2 = r2.match(model, None)
                    choices.append(g2.NAME if g2 is not None else "generic")
                    g3 = r2.match(hw)
                    choices.append("generic" if g3 is GENERIC_VENDOR else getattr(g3, "NAME", "?"))
            # registration history with lookups in between: resolve after every single registration (the answer may only depend on
            # the set of vendors registered at that moment, so the last answer must be the one of the full registry)
            r3 = Registry()
            last = None
            for n in list(reversed(perm)) + others:
                r3.register(vendor_classes[n])
                last = r3.match(hw, None)
            choices.append(last.NAME if last is not None else "generic")
        recs.append({"id": "model-%d" % len(recs), "kind": "model", "label": label, "model": model, "hits": hits, "seqs": [list(s) for s in seqs],
                     "trueFull": true_full, "spell": spell, "cands": cands, "choices": choices,
                     "family": label[5:] if label.startswith("menu:") else ""})
        ctx.count()
        if len(true_full) >= 2:
            ctx.nontrivial(model)
    ctx.sample({"sequence": recs[5]["label"], "model": recs[5]["model"], "true": recs[5]["trueFull"], "vendor_choices": sorted(set(recs[5]["choices"]))})
    # ---- loadability: every model x software shape, two fresh providers
    shapes = SOFT_SHAPES if not quick else SOFT_SHAPES[:3]
    shared = DefaultRulebookProvider()          # one provider serving every model in turn (as a long-running process does)
    for label, model in allm:
        for soft in shapes:
            hw = E.hwview(model, soft)
            rec = {"id": "load-%d" % len(recs), "kind": "load", "label": label, "model": model, "soft": soft, "ok": True, "unresolved": 0, "badregex": 0,
                   "equalTwice": True, "shippedLoaded": True, "overlayEqual": True}
            if hw.vendor is None or hw.vendor not in reg:
                ctx.skip("model resolves to no registered vendor (no rulebook to load)")
                continue
            try:
                rb1 = DefaultRulebookProvider().get_rulebook(hw)
                rb2 = DefaultRulebookProvider().get_rulebook(hw)
                rec["equalTwice"] = digest(canon(rb1)) == digest(canon(rb2)) == digest(canon(shared.get_rulebook(hw)))
                rec["unresolved"], rec["badregex"] = audit(rb1)
                # the ordering / deploy rulebooks are the vendor's shipped files (rendered for this hardware), empty only when none is shipped
                rec["shippedLoaded"] = all(digest(canon(rb1[kind])) == digest(canon(shipped(kind, ext, hw)))
                                           for kind, ext in (("ordering", "order"), ("deploying", "deploy")))
                # a site overlay in front of the stock rulebooks (second texts directory, second root module) must not change what loads
                if soft == shapes[0]:
                    rec["overlayEqual"] = digest(canon(overlay_rulebook(ctx, hw))) == digest(canon(rb1))
            except Exception as e:
                rec["ok"] = False
                rec["exc"] = repr(e)
            recs.append(rec)
            ctx.count()
    slim = [{k: v for k, v in r.items() if k not in ("label", "model", "soft", "exc")} for r in recs]
    verd = ctx.judge("trace/Trace_HwDb.tla", "trace/Trace.cfg", slim, shards=8)
    for rec in recs:
        v = verd[rec["id"]][0]
        if v != "ok":
            small = {k: x for k, x in rec.items() if k != "seqs"}
            ctx.reject(rec["id"], v, small, signature_of(rec, v))


def shipped(kind, ext, hw):
    """the vendor's shipped <vendor>.order / <vendor>.deploy text rendered for this hardware and compiled with the public compilers"""
    import os
    import annet.rulebook as R
    from annet.annlib.lib import mako_render
    from annet.annlib.rbparser.ordering import compile_ordering_text
    from annet.rulebook.deploying import compile_deploying_text
    path = os.path.join(os.path.dirname(R.__file__), "texts", "%s.%s" % (hw.vendor, ext))
    text = mako_render(R.DefaultRulebookProvider._escape_mako(open(path).read()), hw=hw) if os.path.exists(path) else ""
    return (compile_ordering_text if kind == "ordering" else compile_deploying_text)(text, hw.vendor)


_OVERLAY = {}


def overlay_rulebook(ctx, hw):
    """get_rulebook through a provider that has an (empty) site package and texts directory in front of the stock ones"""
    import os
    import sys
    import annet.rulebook as R
    if "provider" not in _OVERLAY:
        root = os.path.join(ctx.scratch, "overlay")
        os.makedirs(os.path.join(root, "site_rb", "texts"), exist_ok=True)
        open(os.path.join(root, "site_rb", "__init__.py"), "w").write("")
        sys.path.insert(0, root)
        _OVERLAY["provider"] = R.DefaultRulebookProvider(root_dir=(os.path.join(root, "site_rb"), os.path.dirname(R.__file__)),
                                                         root_modules=("site_rb", "annet.rulebook"))
    conn = R.rulebook_provider_connector
    saved = getattr(conn, "_cache", None)
    conn._cache = _OVERLAY["provider"]          # logic functions are imported through the connector's provider
    from annet.rulebook.patching import compile_patching_text
    from annet.annlib.rbparser.ordering import compile_ordering_text
    from annet.rulebook.deploying import compile_deploying_text
    from annet.rulebook.common import import_rulebook_function
    caches = (compile_patching_text, compile_ordering_text, compile_deploying_text, import_rulebook_function)
    try:
        for fn in caches:
            fn.cache_clear()                    # compile and import for real (all of it was done before, under the stock provider)
        return _OVERLAY["provider"].get_rulebook(hw)
    finally:
        conn._cache = saved
        for fn in caches:
            fn.cache_clear()


def audit(rb):
    """every logic is a callable, every regex a compiled pattern (loading resolves them: count what is left unresolved)"""
    unresolved = badre = 0

    def walk(x):
        nonlocal unresolved, badre
        if isinstance(x, dict):
            for k, v in x.items():
                if k in ("logic", "diff_logic", "apply_logic") and not callable(v):
                    unresolved += 1
                elif k in ("regexp", "direct_regexp", "reverse_regexp") and not isinstance(v, re.Pattern):
                    badre += 1
                else:
                    walk(v)
    walk(rb)
    return unresolved, badre


def signature_of(rec, clause):
    if rec["kind"] == "model" and clause in ("vendor-depends-on-registration-order", "vendor-tie-between-equally-specific-matches"):
        names = sorted({c["v"] for c in rec["cands"]})
        if names == ["huawei", "optixtrans"]:
            return "OptiXtrans models match `OptiXtrans` (optixtrans) and `Huawei` (huawei) with equal specificity"
    return None
