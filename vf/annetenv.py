"""Shared set-up of the real annet (imported from /repo): connectors, vendor table, hardware views."""
import types
from collections import OrderedDict as od

_done = False


def init():
    global _done
    if _done:
        return
    from annet.hardware import hardware_connector, AnnetHardwareProvider
    from annet.rulebook import rulebook_provider_connector, DefaultRulebookProvider
    hardware_connector.set(AnnetHardwareProvider)
    rulebook_provider_connector.set(DefaultRulebookProvider)
    _done = True


# canonical hardware model strings per registered vendor (used to obtain hw objects; checked against the registry at start-up)
HW = {
    "huawei": "Huawei CE6870", "h3c": "H3C S6800", "optixtrans": "Huawei OptiXtrans DC908", "cisco": "Cisco Catalyst C3750",
    "nexus": "Cisco Nexus 9336", "iosxr": "Cisco ASR 9000", "arista": "Arista DCS-7368", "aruba": "Aruba AP-505",
    "b4com": "B4com CS4100", "juniper": "Juniper MX960", "ribbon": "Ribbon NPT", "nokia": "Nokia 7750",
    "routeros": "RouterOS RB4011", "pc": "PC",
}


def registry():
    init()
    from annet.vendors import registry_connector
    return registry_connector.get()


def vendor(name):
    return registry()[name]


def hwview(model, soft=None):
    init()
    from annet.annlib.netdev.views.hardware import HardwareView
    return HardwareView(model, soft)


def device(hw):
    return types.SimpleNamespace(hw=hw, hostname="vf-dev", fqdn="vf-dev.example", breed="x", id=1)


def plain(t):
    return {k: plain(v) for k, v in t.items()}


def cp(t):
    return od((k, cp(v)) for k, v in t.items())
