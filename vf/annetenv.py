"""Shared set-up of the real annet (imported from /repo): connectors, vendor table, hardware views."""
import types
from collections import OrderedDict as od

_done = False


def init():
    global _done
    if _done:
        return
    from annet.hardware import hardware_connector, AnnetHardwareProvider
    from annet.rulebook import rulebook_provider_connector, DefaultRulebookProvider
    hardware_connector.set(AnnetHardwareProvider)
    rulebook_provider_connector.set(DefaultRulebookProvider)
    _done = True


# canonical hardware model strings per registered vendor (used to obtain hw objects; checked against the registry at start-up)
HW = {
    "huawei": "Huawei CE6870", "h3c": "H3C S6800", "optixtrans": "Huawei OptiXtrans DC908", "cisco": "Cisco Catalyst C3750",
    "nexus": "Cisco Nexus 9336", "iosxr": "Cisco ASR 9000", "arista": "Arista DCS-7368", "aruba": "Aruba AP-505",
    "b4com": "B4com CS4100", "juniper": "Juniper MX960", "ribbon": "Ribbon NPT", "nokia": "Nokia 7750",
    "routeros": "RouterOS RB4011", "pc": "PC",
}

# model strings as inventories write them, per vendor family (real product names; harness knowledge: each of them IS a box of that family)
MODELS = {
    "huawei": ["Huawei CE6870", "Huawei CE12800", "Huawei NE40E-X8", "Huawei S5700", "Huawei Quidway S5328C", "Huawei NE20E-S2F", "Huawei NE9000"],
    "h3c": ["H3C S6800", "H3C S6850-56HF"], "optixtrans": ["Huawei OptiXtrans DC908"],
    "cisco": ["Cisco Catalyst C3750", "Cisco Catalyst 2960", "Cisco 3850"], "nexus": ["Cisco Nexus 9336", "Cisco Nexus 3172"],
    "iosxr": ["Cisco ASR 9000", "Cisco ASR9006", "Cisco ASR9K", "Cisco ASR-9001", "Cisco XRv 9000"],
    "arista": ["Arista DCS-7368", "Arista DCS-7050SX3"], "aruba": ["Aruba AP-505", "Aruba AP-315"], "b4com": ["B4com CS4100", "B4com 4148"],
    "juniper": ["Juniper MX960", "Juniper QFX5120", "Juniper EX4300"], "ribbon": ["Ribbon NPT", "Ribbon OPT9608"], "nokia": ["Nokia 7750", "Nokia SR-1s"],
    "routeros": ["RouterOS RB4011", "Mikrotik CCR1036"], "pc": ["PC", "PC Mellanox", "PC Whitebox"],
}


def registry():
    init()
    from annet.vendors import registry_connector
    return registry_connector.get()


def vendor(name):
    return registry()[name]


def hwview(model, soft=None):
    init()
    from annet.annlib.netdev.views.hardware import HardwareView
    return HardwareView(model, soft)


def device(hw):
    return types.SimpleNamespace(hw=hw, hostname="vf-dev", fqdn="vf-dev.example", breed="x", id=1)


def plain(t):
    return {k: plain(v) for k, v in t.items()}


def cp(t):
    return od((k, cp(v)) for k, v in t.items())
