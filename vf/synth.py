"""Random config trees over the words of the SHIPPED rulebooks: rows are synthesised from the rule lines with the C07 token lexer."""
from collections import OrderedDict as od

from .drivers import c07


def instances(raw, rnd, n=2):
    row, ign = c07.cut_params(raw)
    if ign or not row:
        return []
    try:
        toks, icase, alphabet = c07.lex_rule_row(row)
    except c07.Outside:
        return []
    out = []
    for r in c07.synth_rows(toks, alphabet, rnd, n)[0::2]:      # even positions are plain instances, odd ones near misses
        text = " ".join(r)
        if row.endswith("...") and not row.endswith(" ..."):
            text += rnd.choice(["1", "2", "x"])          # `name:...` style rules: give the open word a value
        out.append(text)
    return out


def vocabulary(rules, rnd, depth=0, max_depth=3):
    """[(row text, [child vocabulary])] for the local rules of one level of a compiled patching rulebook"""
    voc = []
    for raw, rule in rules["local"].items():
        if rule.get("type") == "ignore":
            continue
        kids = []
        if rule.get("children") and depth + 1 < max_depth:
            kids = vocabulary(rule["children"], rnd, depth + 1, max_depth)
        for inst in instances(raw, rnd):
            voc.append((inst, kids))
    return voc


def tree(voc, rnd, p=0.25, width=8):
    t = od()
    if not voc:
        return t
    for row, kids in rnd.sample(voc, min(len(voc), rnd.randint(1, width))):
        t[row] = tree(kids, rnd, p, 4) if kids and rnd.random() < 0.8 else od()
    return t
