------------------------------ MODULE RuleLang ------------------------------
(* C07.  The documented meaning of annet rule patterns (P-layer).  A pattern is a sequence of tokens
     [t |-> "lit",  w, wl]      a literal word (wl = its case-folded form, used under (?i) / %ignore_case)
     [t |-> "star"]             `*`        exactly one word, captured into the key
     [t |-> "set", S, cap]      `*/re/` (cap = TRUE), `<name>` (cap = TRUE), a regex-literal word or `abc...` (cap = FALSE):
                                exactly one word, which must be in S (S = the words of the alphabet the sub-regex accepts;
                                that table is computed outside, single-word regex matching is the trusted base)
     [t |-> "tilde"]            trailing `~`: one or more words, the key is the rest of the line
     [t |-> "more"]             trailing ` ...`: one or more words, not captured
   A row is a sequence of words; rowl its case-folded twin.
   Match = the row STARTS WITH the pattern's words at word boundaries (extra words may follow unless the
   pattern ends in tilde/more, which need at least one).                                              *)
EXTENDS Naturals, Sequences, FiniteSets, Trees

IsOpenEnd(p) == Len(p) > 0 /\ p[Len(p)].t \in {"tilde", "more"}
Core(p)      == IF IsOpenEnd(p) THEN SubSeq(p, 1, Len(p) - 1) ELSE p
SeqToSet(s)  == {s[k] : k \in DOMAIN s}

TokOK(tok, w, wl, icase) ==
  CASE tok.t = "lit"  -> IF icase THEN tok.wl = wl ELSE tok.w = w
    [] tok.t = "star" -> TRUE
    [] tok.t = "set"  -> w \in SeqToSet(tok.S) \/ (icase /\ wl \in SeqToSet(tok.S))      \* case folding applies to the sub-expression too
    [] OTHER          -> FALSE          \* tilde / more are legal in last position only

Match(p, row, rowl, icase) ==
  LET c == Core(p) IN
  /\ Len(row) >= Len(c) + (IF IsOpenEnd(p) THEN 1 ELSE 0)
  /\ \A i \in 1..Len(c) : TokOK(c[i], row[i], rowl[i], icase)

Captures(tok) == tok.t = "star" \/ (tok.t = "set" /\ tok.cap)

\* Key = one word-sequence per capturing token, in order; the trailing tilde captures the rest of the line.
Key(p, row) ==
  LET c == Core(p)
      caps == FlatSeq([i \in 1..Len(c) |-> IF Captures(c[i]) THEN << <<row[i]>> >> ELSE <<>>])
  IN caps \o (IF Len(p) > 0 /\ p[Len(p)].t = "tilde" THEN << SubSeq(row, Len(c) + 1, Len(row)) >> ELSE <<>>)

\* The negated pattern: the vendor's negation word is prepended, or removed if the rule already starts with it.
Lit(w) == [t |-> "lit", w |-> w, wl |-> w]
StartsWithPrefix(p, prefix) == Len(p) > 1 /\ p[1].t = "lit" /\ p[1].w = prefix
RevPattern(p, prefix) == IF StartsWithPrefix(p, prefix) THEN Tail(p) ELSE <<Lit(prefix)>> \o p

\* The removal command for a key: negated pattern with the key substituted for the placeholders.
\* (`more` contributes nothing; non-capturing set tokens have no single text and make the template undefined.)
RevDefined(p) == \A i \in DOMAIN p : p[i].t = "set" => p[i].cap
RECURSIVE Fill(_, _)
Fill(toks, key) ==
  IF toks = <<>> THEN <<>>
  ELSE LET tk == Head(toks) IN
       IF tk.t = "lit" THEN <<tk.w>> \o Fill(Tail(toks), key)
       ELSE IF tk.t = "more" THEN Fill(Tail(toks), key)
       ELSE (IF key = <<>> THEN <<>> ELSE Head(key)) \o Fill(Tail(toks), IF key = <<>> THEN <<>> ELSE Tail(key))
RevInst(p, prefix, key) == Fill(RevPattern(p, prefix), key)

\* Path-wise matching of a command path against a tree of rules [pat, kids]: the rule chain matching level by level.
\* Returns the sequence of rule indexes, or <<>> when some level has no matching rule (first match per level).
RECURSIVE FirstMatchIdx(_, _, _)
FirstMatchIdx(rules, row, k) ==
  IF k > Len(rules) THEN 0
  ELSE IF Match(rules[k].pat, row, row, FALSE) THEN k ELSE FirstMatchIdx(rules, row, k + 1)
RECURSIVE Chain(_, _)
Chain(rules, path) ==
  IF path = <<>> THEN <<>>
  ELSE LET k == FirstMatchIdx(rules, Head(path), 1) IN
       IF k = 0 THEN <<0>>
       ELSE <<k>> \o Chain(rules[k].kids, Tail(path))
=============================================================================
