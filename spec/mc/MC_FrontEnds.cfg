CONSTANTS
  MaxLen = 5
  StripFirst = FALSE
INIT Init
NEXT Next
INVARIANT Agree
CHECK_DEADLOCK FALSE
