------------------------------ MODULE MC_Retry ------------------------------
(* All task patterns of length MaxRetry + 2 over {ok, net, fatal} for every net_retry in 0..MaxRetry: the retry loop reaches the outcome
   the P-layer names, after the number of calls it names.  Every (net_retry, pattern) is emitted as a case for the real invoke_retry. *)
EXTENDS Retry, TLC, Json
EmitCase == calls = 0 => PrintT(<<"CASE", ToJson([n |-> netRetry, pat |-> pattern])>>)
=============================================================================
