CONSTANTS
  N = 3
  W = 2
  MaxTasks = 2
  Raises = {}
  Tolerate = TRUE
  Drain = TRUE
SPECIFICATION FairSpec
INVARIANT TypeOK
INVARIANT NoDup
INVARIANT OnlySubmitted
INVARIANT AllDelivered
INVARIANT RaiseJustified
INVARIANT NoSilentFailure
PROPERTY Terminates
