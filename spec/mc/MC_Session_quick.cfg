CONSTANTS
  MaxDepth = 2
  Emit = TRUE
  Rows0 <- Rows0Small
  Rows1 <- Rows1Small
INIT Init
NEXT Next
INVARIANT ShownDeterminesPaths
INVARIANT EveryItemOnce
INVARIANT EmitCase
