----------------------------- MODULE MC_Offside -----------------------------
(* MC + S2C for C05: texts grow one line per action; invariant A(text) = P(text) in every state.
   With Emit = TRUE every reached text is printed as a JSON case for replay into parse_to_tree. *)
EXTENDS Offside, TLC, Json
CONSTANTS MaxLines, Indents, Words, Emit
VARIABLES text, st
Comments == {"!", "#"}
LineSet == [ind : Indents, first : {"w"}, w : Words]
           \cup {[ind |-> 0, first |-> "", w |-> ""]}                 \* blank
           \cup [ind : {0, 2}, first : {"!"}, w : {"!c"}]             \* comment
           \cup [ind : {0, 2}, first : {"#"}, w : {"#c"}]             \* '#': section break at column 0, comment elsewhere
Init == text = <<>> /\ st = A0
Next == /\ Len(text) < MaxLines
        /\ \E ln \in LineSet : text' = Append(text, ln) /\ st' = AStep(st, ln, Comments)
AEqualsP == AResult(st) = P(text, Comments)
EmitCase == Emit => PrintT(<<"CASE", ToJson([lines |-> text])>>)
=============================================================================
