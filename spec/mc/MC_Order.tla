------------------------------ MODULE MC_Order ------------------------------
(* Emits the ordering catalogue and checks its domain assumption (pairwise disjoint sibling languages on the instance universe). *)
EXTENDS OrderCatalog, TLC, Json
VARIABLE k
Init == k = 0
Next == k < Len(Catalog) /\ k' = k + 1
SameLength == Len(OrdCatalog) = Len(Catalog)
DisjointSiblings == k > 0 => \A a \in DOMAIN OrdCatalog[k] : Disjoint(OrdCatalog[k][a], AllInst(Catalog[k].rules))
EmitCase == k = 0 => PrintT(<<"ORDERS", ToJson(OrdCatalog)>>)
=============================================================================
