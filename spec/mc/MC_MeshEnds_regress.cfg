CONSTANT SkipReverse = TRUE
INIT Init
NEXT Next
INVARIANT Mirrored
CHECK_DEADLOCK FALSE
