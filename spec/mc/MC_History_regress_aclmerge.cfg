CONSTANTS
  Jobs <- Menu
  FineRb = TRUE
  FineRe = TRUE
  ProtRb = TRUE
  ProtAcl = FALSE
  ProtOrd = TRUE
  MaxLen = 2
INIT Init
NEXT Next
CONSTRAINT Bound
INVARIANT ObsDeterminism
INVARIANT CacheFrame
