CONSTANTS
  MaxOps = 6
  Emit = FALSE
INIT Init
NEXT Next
INVARIANT AEqualsP
INVARIANT EmitCase
