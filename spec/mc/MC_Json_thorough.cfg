CONSTANTS
  Keys <- KeysFull
INIT Init
NEXT Next
INVARIANT MergeLawful
INVARIANT MergeIdempotent
