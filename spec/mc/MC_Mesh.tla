------------------------------- MODULE MC_Mesh -------------------------------
(* MC for C15: handlers of a menu are applied one by one in every possible order (application = action).  Invariant: whatever the order, after
   all of a chosen set have been applied the sequentially merged state equals the order-free combination, and a conflict is raised in every
   order or in none.                                                                                                                       *)
EXTENDS Mesh, TLC
KV(k, v) == [k |-> k, v |-> v]
Side(f, fam) == [f |-> f, fam |-> fam]
H(l, r, s) == [L |-> l, R |-> r, S |-> s]
A1 == KV("addr", "10.0.0.1/31")  A2 == KV("addr", "10.0.0.0/31")
Menu == << H(Side(<<A1, KV("asnum", "65001")>>, <<>>), Side(<<A2, KV("asnum", "65002")>>, <<>>), Side(<<KV("bfd", "1")>>, <<"v4">>)),
           H(Side(<<A1, KV("mtu", "9000")>>, <<>>), Side(<<A2>>, <<"v6">>), Side(<<>>, <<"v6">>)),
           H(Side(<<A1, KV("mtu", "1500")>>, <<>>), Side(<<A2>>, <<>>), Side(<<>>, <<>>)),
           H(Side(<<A1>>, <<>>), Side(<<A2>>, <<>>), Side(<<KV("asnum", "65001")>>, <<"v4">>)) >>
VARIABLES chosen, applied, left, right
Init == chosen \in SUBSET (DOMAIN Menu) /\ applied = <<>> /\ left = EmptySide /\ right = EmptySide
Next == \E i \in chosen : (\A k \in DOMAIN applied : applied[k] # i)
          /\ applied' = Append(applied, i)
          /\ left' = MergeSide(left, OneHandler(Menu[i], "L")) /\ right' = MergeSide(right, OneHandler(Menu[i], "R"))
          /\ UNCHANGED chosen
Done == Len(applied) = Cardinality(chosen)
Hs == [k \in DOMAIN applied |-> Menu[applied[k]]]
OrderFree == Done =>
   /\ (left.bad \/ right.bad) = Conflict(Hs)
   /\ (~Conflict(Hs) => /\ left.fam = Families(Hs, "L") /\ right.fam = Families(Hs, "R")
                         /\ \A a \in left.f : ValueOf(Hs, "L", a.k) = a.v)
=============================================================================
