CONSTANTS
  Dots <- DotsUnique
INIT Init
NEXT Next
INVARIANT OrderIndependent
