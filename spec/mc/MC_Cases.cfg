CONSTANTS
  Prefix = "undo"
INIT Init
NEXT Next
INVARIANT CatalogWF
INVARIANT EmitCase
