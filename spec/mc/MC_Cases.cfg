CONSTANTS
  Prefix = "undo"
  PrefixX = "undox"
INIT Init
NEXT Next
INVARIANT CatalogWF
INVARIANT EmitCase
