CONSTANTS
  N = 3
  W = 2
  MaxTasks = 1
  Raises = {2}
  Tolerate = TRUE
  Drain = TRUE
SPECIFICATION FairSpec
INVARIANT TypeOK
INVARIANT NoDup
INVARIANT OnlySubmitted
INVARIANT AllDelivered
INVARIANT RaiseJustified
INVARIANT NoSilentFailure
PROPERTY Terminates
