CONSTANTS
  Jobs <- Menu
  FineRb = TRUE
  FineRe = TRUE
  ProtRb = TRUE
  ProtAcl = TRUE
  ProtOrd = FALSE
  MaxLen = 2
INIT Init
NEXT Next
CONSTRAINT Bound
INVARIANT ObsDeterminism
INVARIANT CacheFrame
