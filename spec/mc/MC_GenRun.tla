------------------------------ MODULE MC_GenRun ------------------------------
(* MC + S2C for C10: programs grow one operation per action; invariant: parsing the indented lines TreeGenerator stores gives exactly
   the tree of yielded paths (A = P), for every program in bounds.  Programs are emitted as cases.                                  *)
EXTENDS GenRun, TLC, Json
CONSTANTS MaxOps, Emit
VARIABLES prog, depth
Blocks == {<<"blk", "1">>, <<"sub", "1">>}
RowsY == {<<"x", "1">>, <<"y">>, <<"blk", "1">>}
Ops == [op : {"y"}, row : RowsY] \cup [op : {"enter"}, row : Blocks] \cup [op : {"enterif"}, row : Blocks, cond : BOOLEAN]
       \cup {[op |-> "enterdef", row |-> <<"blk", "0">>, kinds |-> <<"w", "int">>], [op |-> "enterdef", row |-> <<"blk", "">>, kinds |-> <<"w", "none">>]}
       \cup {[op |-> "ym", rows |-> <<<<"x", "1">>, <<"y">>>>], [op |-> "menter", rows |-> <<<<"blk", "1">>, <<"sub", "1">>>>], [op |-> "leave"]}
       \cup {[op |-> "menterif", rows |-> <<<<"blk", "1">>, <<"sub", "1">>>>, cond |-> c, none |-> FALSE] : c \in {"true", "false", "default"}}
       \cup {[op |-> "menterif", rows |-> <<<<"blk", "2">>>>, cond |-> "default", none |-> TRUE]}
Init == prog = <<>> /\ depth = 0
Next == /\ Len(prog) < MaxOps
        /\ \E o \in Ops :
             /\ (o.op = "leave" => depth > 0)
             /\ prog' = Append(prog, o)
             /\ depth' = IF o.op \in {"enter", "enterif", "enterdef", "menter", "menterif"} THEN depth + 1 ELSE IF o.op = "leave" THEN depth - 1 ELSE depth
AEqualsP == LET a == AParsed(prog) IN ~a.err /\ a.tree = Tree(prog)
EmitCase == Emit => PrintT(<<"PROG", ToJson([p |-> prog])>>)
=============================================================================
