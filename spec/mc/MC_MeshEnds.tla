----------------------------- MODULE MC_MeshEnds -----------------------------
(* MC for C15, both ends of one session.  A rule has two name templates; it FITS a pair of devices in an orientation when the first template
   matches the device taken as left and the second the one taken as right.  Each end of the session looks the rule up on its own
   (lookup_direct / lookup_indirect: device = itself, neighbor = the other end) and tries BOTH orientations; every fitting orientation is one
   application of the handler, called as handler(left, right).  What a handler assigns is a function of (left, right): t12 when device 1 is
   left, t21 when device 2 is left (both written from device 1's side: L = device 1).
   Actions: one application on one end.  Invariant Mirrored: when both ends have applied everything they found, they hold the same session
   (same conflict verdict, same fields, same families).  SkipReverse = TRUE is the regression instance: an end that stops after the first
   fitting orientation sees another set of applications than its peer whenever the templates fit both ways (same-tier pairs).            *)
EXTENDS Mesh, TLC
CONSTANT SkipReverse
KV(k, v) == [k |-> k, v |-> v]
Side(f, fam) == [f |-> f, fam |-> fam]
H(l, r, s) == [L |-> l, R |-> r, S |-> s]
A1 == KV("addr", "10.0.0.1/31")  A2 == KV("addr", "10.0.0.0/31")
Base == H(Side(<<A1, KV("asnum", "65001")>>, <<>>), Side(<<A2, KV("asnum", "65002")>>, <<>>), Side(<<>>, <<"v4">>))
Rules == << [fitLR |-> TRUE, fitRL |-> FALSE, t12 |-> Base, t21 |-> Base],                                     \* asymmetric templates
            [fitLR |-> TRUE, fitRL |-> TRUE, t12 |-> Base, t21 |-> Base],                                      \* symmetric, orientation-blind handler
            [fitLR |-> TRUE, fitRL |-> TRUE, t12 |-> Base,                                                     \* symmetric, role-based family
             t21 |-> H(Base.L, Base.R, Side(<<>>, <<"v4", "evpn">>))],
            [fitLR |-> TRUE, fitRL |-> TRUE, t12 |-> Base,                                                     \* symmetric, role-based AS: a conflict
             t21 |-> H(Side(<<A1, KV("asnum", "65099")>>, <<>>), Base.R, Base.S)],
            [fitLR |-> FALSE, fitRL |-> TRUE, t12 |-> Base, t21 |-> H(Base.L, Base.R, Side(<<KV("bfd", "1")>>, <<>>))] >>
\* the applications end e (1 or 2) finds for rule r, in lookup order: first (device, neighbor), then (neighbor, device)
Found(e, r) == LET first == IF e = 1 THEN r.fitLR ELSE r.fitRL
                   second == IF e = 1 THEN r.fitRL ELSE r.fitLR
                   tFirst == IF e = 1 THEN r.t12 ELSE r.t21
                   tSecond == IF e = 1 THEN r.t21 ELSE r.t12
               IN (IF first THEN <<tFirst>> ELSE <<>>) \o (IF second /\ ~(SkipReverse /\ first) THEN <<tSecond>> ELSE <<>>)
VARIABLES chosen, todo, st
AllFound(e, ch) == LET RECURSIVE go(_)
                       go(k) == IF k > Len(Rules) THEN <<>> ELSE (IF k \in ch THEN Found(e, Rules[k]) ELSE <<>>) \o go(k + 1)
                   IN go(1)
Init == /\ chosen \in {c \in SUBSET (DOMAIN Rules) : Cardinality(c) \in 1..2}
        /\ todo = [e \in 1..2 |-> {k : k \in DOMAIN AllFound(e, chosen)}]
        /\ st = [e \in 1..2 |-> [l |-> EmptySide, r |-> EmptySide]]
Apply(e, k) == /\ k \in todo[e]
               /\ LET h == AllFound(e, chosen)[k] IN
                  st' = [st EXCEPT ![e] = [l |-> MergeSide(st[e].l, OneHandler(h, "L")), r |-> MergeSide(st[e].r, OneHandler(h, "R"))]]
               /\ todo' = [todo EXCEPT ![e] = @ \ {k}]
               /\ UNCHANGED chosen
Next == \E e \in 1..2 : \E k \in todo[e] : Apply(e, k)
Done == todo[1] = {} /\ todo[2] = {}
Bad(e) == st[e].l.bad \/ st[e].r.bad
Mirrored == Done => /\ Bad(1) = Bad(2)
                    /\ (~Bad(1) => st[1] = st[2])
=============================================================================
