------------------------------ MODULE MC_Format ------------------------------
(* MC + S2C for C04: all trees over a row alphabet (distinct sibling rows, depth <= MaxDepth, width <= 2): on the model the indented rendering
   parses back to the tree for indentation units 1, 2 and 4; every tree is emitted as a case for all registered vendors.                  *)
EXTENDS Formatter, TLC, Json
CONSTANTS MaxDepth, RowSet
RECURSIVE Trees(_)
Trees(depth) ==
  IF depth >= MaxDepth THEN {<<>>}
  ELSE LET sub == Trees(depth + 1)
           nodes == { [row |-> r, kids |-> k] : r \in RowSet, k \in sub }
       IN {<<>>} \cup { <<n>> : n \in nodes } \cup { p \in (nodes \X nodes) : p[1].row # p[2].row }
VARIABLE t
Init == t \in Trees(0)
Next == UNCHANGED t
RoundTrip == \A u \in {1, 2, 4} : RoundTripOnModel(t, u)
EmitCase == PrintT(<<"TREE", ToJson([t |-> t])>>)
RowsSmall == { <<"a">>, <<"b", "1">>, <<"c", "d", "e">> }
=============================================================================
