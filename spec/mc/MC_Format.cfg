CONSTANTS
  MaxDepth = 2
  RowSet <- RowsSmall
INIT Init
NEXT Next
INVARIANT RoundTrip
INVARIANT EmitCase
