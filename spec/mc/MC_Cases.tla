------------------------------ MODULE MC_Cases ------------------------------
(* S2C source for C01/C02/C03/C08/C09/C16/C20: TLC enumerates Configs(R) for every catalogue rulebook and emits the rulebook
   and each configuration as JSON.  The drivers form (old,new) pairs from exactly these sets.                         *)
EXTENDS RuleCatalog, TLC, Json
VARIABLES r, cfg
Init == r = 0 /\ cfg = <<>>
Next == r = 0 /\ r' \in DOMAIN Catalog /\ cfg' \in Configs(Catalog[r'])
CatalogWF == \A k \in DOMAIN Catalog : WF(Catalog[k].rules, <<>>)
EmitCase == /\ (r = 0 => PrintT(<<"CATALOG", ToJson(Catalog)>>))
            /\ (r # 0 => PrintT(<<"CFG", r, ToJson([t |-> cfg])>>))
=============================================================================
