CONSTANTS
  Jobs <- Menu
  FineRb = FALSE
  FineRe = TRUE
  ProtRb = TRUE
  ProtAcl = TRUE
  ProtOrd = TRUE
  MaxLen = 2
INIT Init
NEXT Next
CONSTRAINT Bound
INVARIANT ObsDeterminism
INVARIANT CacheFrame
