---------------------------- MODULE MC_HistorySeq ----------------------------
(* S2C for C20: all sequences of job indexes 1..NJobs up to MaxLen (the driver's job menu), emitted as cases. *)
EXTENDS Naturals, Sequences, TLC, Json
CONSTANTS MaxLen, NJobs
VARIABLE seq
Init == seq = <<>>
Next == Len(seq) < MaxLen /\ \E k \in 1..NJobs : seq' = Append(seq, k)
EmitSeq == Len(seq) > 0 => PrintT(<<"SEQ", ToJson([s |-> seq])>>)
=============================================================================
