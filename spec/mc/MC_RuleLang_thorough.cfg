CONSTANTS
  MaxTok = 4
  MaxWords = 5
  Prefix = "undo"
  PrefixX = "undox"
INIT Init
NEXT Next
INVARIANT ReverseRecognised
INVARIANT DoubleNegation
INVARIANT KeyArity
INVARIANT PrefixMonotone
INVARIANT WordBoundary
INVARIANT EmitCase
