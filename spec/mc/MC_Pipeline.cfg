CONSTANTS
  Prefix = "undo"
  PrefixX = "undox"
  Exit = "quit"
  Entry = 4
  CdDepth = 1
  Protect = TRUE
INIT Init
NEXT Next
INVARIANT Safe
INVARIANT CoveredPartConverges
