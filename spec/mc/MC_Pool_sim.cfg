CONSTANTS
  N = 4
  W = 2
  MaxTasks = 2
  Raises = {}
  Tolerate = TRUE
  Drain = TRUE
SPECIFICATION Spec
ACTION_CONSTRAINT Emit
