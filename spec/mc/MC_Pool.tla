------------------------------ MODULE MC_Pool ------------------------------
(* MC instance of Pool + the S2C emitter: under -simulate, ACTION_CONSTRAINT Emit prints every step of every behaviour
   as JSON (action name and argument inferred from the unprimed/primed state, and the abstract state after the step). *)
EXTENDS Pool, TLC, Json
Unlimited == 0
NoRaise == {}
ParentMoved == <<ppc, toCheck, retired, delivered>>' # <<ppc, toCheck, retired, delivered>>
Act == IF ParentMoved THEN
         CASE ppc = "get" -> <<"dget", 0>>
           [] ppc = "check" /\ toCheck # <<>> -> <<"exitcode", Head(toCheck)>>
           [] ppc = "check" -> <<"nocheck", 0>>
           [] ppc = "yield" -> <<"yield", got>>
           [] ppc = "raise" -> <<"raise", got>>
           [] ppc = "decide" /\ ppc' = "done" -> <<"break", 0>>
           [] ppc = "decide" /\ ppc' = "get" -> <<"loop", 0>>
           [] OTHER -> <<"start", CHOOSE x \in retired : x \notin retired'>>
       ELSE LET w == CHOOSE x \in Workers : ws[x] # ws'[x] IN
            CASE ws[w] = "idle" -> <<"tget", w>>
              [] ws[w] = "busy" -> <<"put", w>>
              [] OTHER -> <<"exit", w>>
Emit == PrintT(<<"ST", ToJson([lvl |-> TLCGet("level"), act |-> Act[1], arg |-> Act[2], taskQ |-> taskQ', doneQ |-> doneQ',
                               ws |-> ws', delivered |-> delivered', pool |-> SortedSeq(pool'), ppc |-> ppc'])>>)
=============================================================================
