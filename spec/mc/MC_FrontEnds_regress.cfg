CONSTANTS
  MaxLen = 5
  StripFirst = TRUE
INIT Init
NEXT Next
INVARIANT Agree
CHECK_DEADLOCK FALSE
