---------------------------- MODULE MC_Pipeline ----------------------------
(* Design-level check of the composed pipeline (Annet.tla) for ONE catalogue rulebook: every ACL of its family x every device
   configuration x every ACL-confined generator output.  The P-layers judge the outcome: C02's safety clauses, and C01's convergence of
   the covered part of the device (for ACLs without protected rules). *)
EXTENDS RuleCatalog, Annet
CONSTANTS Entry, Exit, CdDepth,
          Protect      \* FALSE = apply_acl_diff without its cant_delete branch (regression instance: Safe must fail)
VARIABLES phase, acl, old, new, dev
RECURSIVE CountRules(_)
CountRules(rules) == IF rules = <<>> THEN 0 ELSE 1 + CountRules(Head(rules).kids) + CountRules(Tail(rules))
RECURSIVE Numbered(_, _)
Numbered(rules, base) ==
  IF rules = <<>> THEN <<>>
  ELSE LET h == Head(rules) IN
       << [rk |-> base] @@ [h EXCEPT !.kids = Numbered(h.kids, base + 1)] >> \o Numbered(Tail(rules), base + 1 + CountRules(h.kids))
RB == [prefix |-> Prefix, exit |-> Exit, rules |-> Numbered(Catalog[Entry].rules, 1)]
CfgSet == Configs(Catalog[Entry])
Acls == AclFam(Catalog[Entry].rules, 1, CdDepth) \ {<<>>}

Init == phase = "acl" /\ acl = <<>> /\ old = <<>> /\ new = <<>> /\ dev = <<>>
PickAcl == phase = "acl" /\ acl' \in Acls /\ phase' = "old" /\ UNCHANGED <<old, new, dev>>
PickOld == phase = "old" /\ old' \in CfgSet /\ phase' = "new" /\ UNCHANGED <<acl, new, dev>>
PickNew == phase = "new" /\ new' \in {AApplyAcl(Prefix, c, acl, <<>>) : c \in CfgSet} /\ phase' = "deploy" /\ UNCHANGED <<acl, old, dev>>
Deploy == phase = "deploy" /\ dev' = ExecAll(RB, old, APipelineP(RB, acl, old, new, Protect)) /\ phase' = "done" /\ UNCHANGED <<acl, old, new>>
Next == PickAcl \/ PickOld \/ PickNew \/ Deploy

Safe == phase = "done" => SafetyVerdict(RB, acl, old, APipelineP(RB, acl, old, new, Protect)) = "ok"
CoveredPartConverges ==
  (phase = "done" /\ NoProtected(acl)) =>
     Conv(AApplyAcl(Prefix, dev, acl, <<>>), new, AApplyAcl(Prefix, old, acl, <<>>), RB.rules, <<>>)
=============================================================================
