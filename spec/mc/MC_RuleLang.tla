---------------------------- MODULE MC_RuleLang ----------------------------
(* MC + S2C for C07: TLC enumerates every pattern up to MaxTok tokens and every row up to MaxWords words,
   checks the algebraic laws of the rule language on every (pattern,row) pair, and emits the patterns and the
   rows as cases; the driver replays the full product into annet's real rule compiler.                  *)
EXTENDS RuleLang, TLC, Json
CONSTANTS MaxTok, MaxWords, Prefix, PrefixX      \* PrefixX: a word that merely begins with the negation word (`notify` for `no`)
Words == {"a", "b", "ab", Prefix, PrefixX}
Toks  == {Lit("a"), Lit("b"), Lit(Prefix), Lit(PrefixX), [t |-> "star"], [t |-> "set", S |-> <<"a", "b">>, cap |-> TRUE]}
Cores(n) == UNION {[1..k -> Toks] : k \in 0..n}
Patterns == {c \in Cores(MaxTok) : Len(c) > 0} \cup {c \o <<[t |-> "tilde"]>> : c \in Cores(MaxTok - 1)}
RowsSet  == UNION {[1..k -> Words] : k \in 1..MaxWords}
VARIABLES phase, p, row
Init == phase = 0 /\ p = <<>> /\ row = <<>>
Next == \/ phase = 0 /\ p' \in Patterns /\ phase' = 1 /\ row' = row
        \/ phase = 1 /\ row' \in RowsSet /\ phase' = 2 /\ p' = p
\* ---- laws (checked on every pair)
M(pp, r) == Match(pp, r, r, FALSE)
ReverseRecognised ==      \* the removal command is matched by the negated pattern and carries the same key
  phase = 2 /\ M(p, row) =>
     LET rp == RevPattern(p, Prefix) ri == RevInst(p, Prefix, Key(p, row)) IN M(rp, ri) /\ Key(rp, ri) = Key(p, row)
\* negating twice gives the rule back (a rule that spells the negation word twice in a row, `undo undo x`, is the one exception:
\* its negation `undo x` is itself read as a negated rule -- noted in DESIGN.md, the code behaves the same way)
Doubled(pp) == StartsWithPrefix(pp, Prefix) /\ StartsWithPrefix(Tail(pp), Prefix)
DoubleNegation == phase >= 1 /\ ~Doubled(p) => RevPattern(RevPattern(p, Prefix), Prefix) = p
KeyArity == phase = 2 /\ M(p, row) =>
     Len(Key(p, row)) = Cardinality({i \in DOMAIN p : Captures(p[i]) \/ p[i].t = "tilde"})
PrefixMonotone == phase = 2 /\ M(p, row) /\ ~IsOpenEnd(p) => \A w \in Words : M(p, Append(row, w))
WordBoundary == phase = 2 /\ M(p, row) => \A i \in 1..Len(Core(p)) : Core(p)[i].t = "lit" => row[i] = Core(p)[i].w
EmitCase == /\ (phase = 1 => PrintT(<<"PAT", ToJson([p |-> p])>>))
            /\ (phase = 2 /\ p = <<Lit("a")>> => PrintT(<<"ROW", ToJson([row |-> row])>>))
=============================================================================
