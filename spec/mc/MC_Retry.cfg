CONSTANTS
  MaxRetry = 3
INIT Init
NEXT Next
INVARIANT OutcomeRight
INVARIANT Decided
INVARIANT EmitCase
