----------------------------- MODULE MC_History -----------------------------
(* MC + S2C for C20: all job sequences up to MaxLen over a job menu; with the protections on, every observed result equals the fresh one;
   each protection switched off is a regression instance that must violate ObsDeterminism. *)
EXTENDS History, TLC, Json
CONSTANTS MaxLen
Menu == { [hw |-> "ce", vendor |-> "huawei", mutates |-> FALSE], [hw |-> "ne", vendor |-> "huawei", mutates |-> FALSE],
          [hw |-> "cat", vendor |-> "cisco", mutates |-> TRUE], [hw |-> "cat2", vendor |-> "cisco", mutates |-> FALSE] }
Bound == Len(hist) <= MaxLen
=============================================================================
