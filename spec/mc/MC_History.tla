----------------------------- MODULE MC_History -----------------------------
(* MC for C20: all job sequences up to MaxLen over a job menu; with the protections on, every observed result equals the fresh one and
   no cached object is written to; each protection switched off is a regression instance that must violate one of the two.            *)
EXTENDS History, TLC, Json
CONSTANTS MaxLen
K(rb, re, acl, ord) == [rb |-> rb, re |-> re, acl |-> acl, ord |-> ord]
None == <<"-", "-">>
Menu == {
  \* two hardware models of one vendor over the same configuration (their rulebooks are rendered per hardware)
  [id |-> "ce",  key |-> K(<<"ce", "huawei">>, <<"huawei rows", "huawei rows">>, None, <<"huawei.order", "huawei.order">>), reads |-> {"rb", "ord"}, writes |-> {}],
  [id |-> "ne",  key |-> K(<<"ne", "huawei">>, <<"huawei rows", "huawei rows">>, None, <<"huawei.order", "huawei.order">>), reads |-> {"rb", "ord"}, writes |-> {}],
  \* a rule whose logic writes to its rule argument
  [id |-> "cat", key |-> K(<<"cat", "cisco">>, None, None, None), reads |-> {"rb"}, writes |-> {"rb"}],
  [id |-> "cat2", key |-> K(<<"cat", "cisco">>, None, None, None), reads |-> {"rb"}, writes |-> {}],
  \* one row text compiled case-insensitively by a rulebook and case-sensitively by an ACL
  [id |-> "icase-rule", key |-> K(<<"ce", "huawei">>, <<"row/i", "row">>, None, None), reads |-> {"rb", "re"}, writes |-> {}],
  [id |-> "icase-acl",  key |-> K(<<"ce", "huawei">>, <<"row/plain", "row">>, <<"aclB", "aclB">>, None), reads |-> {"re", "acl"}, writes |-> {}],
  \* one compiled ACL shared by jobs: a row matched by two rules merges their children, a row matched by one of them reads them
  [id |-> "acl-both",  key |-> K(<<"ce", "huawei">>, None, <<"aclA", "aclA">>, None), reads |-> {"acl"}, writes |-> {"acl"}],
  [id |-> "acl-first", key |-> K(<<"ce", "huawei">>, None, <<"aclA", "aclA">>, None), reads |-> {"acl"}, writes |-> {}],
  \* an Orderer that extends its ordering (overlapping rules with children, reference tracking), then a job ordered by the same rulebook
  [id |-> "reftrack", key |-> K(<<"ce", "huawei">>, None, None, <<"huawei.order", "huawei.order">>), reads |-> {"ord"}, writes |-> {"ord"}] }
Bound == Len(hist) <= MaxLen
=============================================================================
