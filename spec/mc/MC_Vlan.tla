------------------------------- MODULE MC_Vlan -------------------------------
(* MC for C11: every pair of configurations of one key over a small universe, each split into up to MaxLines disjoint lines (so that some
   lines are unchanged between old and new); invariant: the A-layer patch takes the old set to the new set and never drops a common VLAN.
   A configuration is given by a labelling f : U -> 0..MaxLines (0 = VLAN absent, k = VLAN listed on line k).                         *)
EXTENDS Vlan, TLC
CONSTANTS U, MaxLines, Guard
LinesOf(f) == {{u \in U : f[u] = k} : k \in 1..MaxLines} \ {{}}
Labelings == [U -> 0..MaxLines]
VARIABLES fo, fn, ph
Init == ph = 0 /\ fo \in Labelings /\ fn = fo
Next == ph = 0 /\ fn' \in Labelings /\ ph' = 1 /\ fo' = fo
Exact == ph = 1 => \A ma \in BOOLEAN :
            LET old == LinesOf(fo) new == LinesOf(fn)
                cmds == HuaweiPatch(old, new, ma, Guard)
                res == AbsRun(UNION old, cmds, (UNION old) \cap (UNION new))
            IN res[1] = UNION new /\ res[2]
=============================================================================
