CONSTANTS
  MaxDepth = 2
  Emit = TRUE
  Rows0 <- Rows0Full
  Rows1 <- Rows1Full
INIT Init
NEXT Next
INVARIANT ShownDeterminesPaths
INVARIANT EveryItemOnce
INVARIANT EmitCase
