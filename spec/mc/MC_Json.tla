------------------------------- MODULE MC_Json -------------------------------
(* MC for C13: over all documents of one small schema, all fragments and a menu of glob pointer lists, the operational definition of the
   fragment merge (JsonDoc!Merge, the shape of apply_json_fragment) satisfies the declarative clauses of FragmentVerdict and is idempotent. *)
EXTENDS JsonDoc, TLC
CONSTANT Keys
KeysSmall == << <<"a">>, <<"b">> >>
KeysFull == << <<"a">>, <<"b">>, <<"a", "/", "b">> >>
Scal == {[t |-> "s", x |-> "1"], [t |-> "s", x |-> "2"]}
Obj(ks, vs) == [t |-> "o", k |-> ks, v |-> vs]
Inner == {Obj(<<>>, <<>>)} \cup {Obj(<< <<"c">> >>, <<s>>) : s \in Scal}
Vals == Scal \cup Inner
RECURSIVE Docs(_)
Docs(ks) == IF ks = <<>> THEN {Obj(<<>>, <<>>)}
            ELSE LET rest == Docs(Tail(ks)) IN
                 rest \cup {Obj(<<Head(ks)>> \o d.k, <<v>> \o d.v) : d \in rest, v \in Vals}
AllDocs == Docs(Keys)
Acls == { << << <<"a">> >> >>, << << <<"*">> >> >>, << << <<"a">>, <<"*">> >> >>, << << <<"b">>, <<"c">> >> >>, << << <<"a", "*">> >> >>,
          << << <<"a">>, <<"c">> >>, << <<"b">> >> >>, << << <<"?">> >>, << <<"a">> >> >>, << << <<"a", "/", "b">> >> >> }
VARIABLES old, f, acl, ph
Init == ph = 0 /\ old \in AllDocs /\ f = old /\ acl = <<>>
Next == ph = 0 /\ f' \in AllDocs /\ acl' \in Acls /\ ph' = 1 /\ old' = old
MergeLawful == ph = 1 => LET r == Merge(old, f, acl) IN FragmentVerdict(old, f, acl, r) = "ok"
MergeIdempotent == ph = 1 => LET r == Merge(old, f, acl) IN DocEq(Merge(r, f, acl), r)
=============================================================================
