CONSTANTS
  MaxOps = 4
  Emit = TRUE
INIT Init
NEXT Next
INVARIANT AEqualsP
INVARIANT EmitCase
