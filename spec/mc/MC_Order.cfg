CONSTANTS
  Prefix = "undo"
  PrefixX = "undox"
INIT Init
NEXT Next
INVARIANT SameLength
INVARIANT DisjointSiblings
INVARIANT EmitCase
