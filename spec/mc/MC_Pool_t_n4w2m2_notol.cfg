CONSTANTS
  N = 4
  W = 2
  MaxTasks = 2
  Raises = {1,4}
  Tolerate = FALSE
  Drain = TRUE
SPECIFICATION FairSpec
INVARIANT TypeOK
INVARIANT NoDup
INVARIANT OnlySubmitted
INVARIANT AllDelivered
INVARIANT RaiseJustified
INVARIANT NoSilentFailure
PROPERTY Terminates
