CONSTANTS
  U = {2, 3, 4, 6, 7}
  MaxLines = 3
  Guard = TRUE
INIT Init
NEXT Next
INVARIANT Exact
