CONSTANTS
  Jobs <- Menu
  KeyByHw = TRUE
  CopyAttrs = TRUE
  MaxLen = 3
INIT Init
NEXT Next
CONSTRAINT Bound
INVARIANT ObsDeterminism
INVARIANT CacheFrame
