CONSTANTS
  Jobs <- Menu
  FineRb = TRUE
  FineRe = TRUE
  ProtRb = TRUE
  ProtAcl = TRUE
  ProtOrd = TRUE
  MaxLen = 3
INIT Init
NEXT Next
CONSTRAINT Bound
INVARIANT ObsDeterminism
INVARIANT CacheFrame
