CONSTANTS
  N = 3
  W = 2
  MaxTasks = 0
  Raises = {2}
  Tolerate = FALSE
  Drain = TRUE
SPECIFICATION FairSpec
INVARIANT TypeOK
INVARIANT NoDup
INVARIANT OnlySubmitted
INVARIANT AllDelivered
INVARIANT RaiseJustified
INVARIANT NoSilentFailure
PROPERTY Terminates
