------------------------------- MODULE MC_HwDb -------------------------------
(* MC for C18: vendors are registered one by one in every possible order (registration = action).  Invariant: once all are registered,
   the vendor chosen by the implementation's rule (stable sort, first) is the same for every order IF AND ONLY IF the most specific match
   is unique -- i.e. a tie is exactly what makes the choice order dependent.  The shipped defect (OptiXtrans vs Huawei, both 0 dots) is a tie. *)
EXTENDS HwDb, TLC
CONSTANT Dots          \* function vendor -> dots of its matching expression
VARIABLES reg
Vendors == DOMAIN Dots
Init == reg = <<>>
Next == \E v \in Vendors : (\A i \in DOMAIN reg : reg[i].v # v) /\ reg' = Append(reg, [v |-> v, dots |-> Dots[v]])
Full == Len(reg) = Cardinality(Vendors)
Canonical == CHOOSE v \in Vendors : \A w \in Vendors : Dots[w] <= Dots[v]
DotsUnique == [v \in {"huawei", "cisco", "nexus", "iosxr"} |-> CASE v = "nexus" -> 1 [] v = "iosxr" -> 2 [] OTHER -> 0]   \* unique maximum
DotsTie == [v \in {"huawei", "optixtrans", "pc"} |-> 0]
\* regression instance: with a tie the choice is NOT the same for all orders (this invariant must be violated)
TieFreeChoice == Full => Choice(reg) = Canonical
OrderIndependent == Full /\ Unambiguous(reg) => Choice(reg) = Canonical
=============================================================================
