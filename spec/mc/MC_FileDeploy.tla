---------------------------- MODULE MC_FileDeploy ----------------------------
(* MC for C19: for every listing order of every generator set in bounds, the sequential selection (A-layer) equals the order-free
   winner (P-layer).                                                                                                             *)
EXTENDS FileDeploy, TLC
Paths == {"/etc/a", "/etc/b"}
Outs == {"x", "y"}
G(p, pr, o) == [path |-> p, prio |-> pr, out |-> o, reload |-> "r", safe |-> TRUE]
VARIABLES gens
Init == gens = <<>>
Next == /\ Len(gens) < 3
        /\ \E p \in Paths, pr \in 1..3, o \in Outs :
             /\ \A i \in DOMAIN gens : gens[i].path = p => gens[i].prio # pr
             /\ gens' = Append(gens, G(p, pr, o))
OrderFree == Fold(gens, Empty) = Planned(gens)
=============================================================================
