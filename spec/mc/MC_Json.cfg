CONSTANTS
  Keys <- KeysSmall
INIT Init
NEXT Next
INVARIANT MergeLawful
INVARIANT MergeIdempotent
