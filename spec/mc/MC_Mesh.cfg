INIT Init
NEXT Next
INVARIANT OrderFree
