CONSTANTS
  MaxLines = 6
  Indents = {0, 1, 2, 3, 4}
  Words = {"a", "b"}
  Emit = FALSE
INIT Init
NEXT Next
INVARIANT AEqualsP
