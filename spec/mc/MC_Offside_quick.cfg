CONSTANTS
  MaxLines = 4
  Indents = {0, 1, 2, 3}
  Words = {"a", "b"}
  Emit = TRUE
INIT Init
NEXT Next
INVARIANT AEqualsP
INVARIANT EmitCase
