CONSTANTS
  Dots <- DotsTie
INIT Init
NEXT Next
INVARIANT TieFreeChoice
