CONSTANT SkipReverse = FALSE
INIT Init
NEXT Next
INVARIANT Mirrored
CHECK_DEADLOCK FALSE
