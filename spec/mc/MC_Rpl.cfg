CONSTANTS
  NC = 14
  NA = 16
INIT Init
NEXT Next
INVARIANT MachineMeansIt
INVARIANT EmitCase
