---------------------------- MODULE MC_Converge ----------------------------
(* Design-level check of C01 (and of the diff laws of C03) on the A-layer: for ONE catalogue rulebook, every (old,new) of
   Configs(R) x Configs(R): the transcription of annet's algorithm (Patcher.tla) produces a command list; the P-layer device
   (Device.tla) executes it starting from old; the result must have converged to new (contract-aware), the second diff and patch
   taken on the device must be empty where convergence is strict, and the diff must satisfy the P-layer laws of Differ.tla.
   With Hop = TRUE one more target is deployed from the reached device state (chains of successive targets).
   The choice of old and new is split over two steps: TLC enumerates initial states sequentially, successor states in parallel. *)
EXTENDS RuleCatalog, Patcher
CONSTANTS Entry,        \* index into Catalog
          Exit,         \* the vendor's block-exit word
          RankRev,      \* FALSE: raw-rule rank = catalogue position; TRUE: reversed (the sort key's last component must not matter)
          Hop
VARIABLES phase, old, new, dev, hops

RECURSIVE CountRules(_)
CountRules(rules) == IF rules = <<>> THEN 0 ELSE 1 + CountRules(Head(rules).kids) + CountRules(Tail(rules))
RECURSIVE Numbered(_, _)
Numbered(rules, base) ==
  IF rules = <<>> THEN <<>>
  ELSE LET h == Head(rules) IN
       << [rk |-> IF RankRev THEN 9999 - base ELSE base] @@ [h EXCEPT !.kids = Numbered(h.kids, base + 1)] >>
         \o Numbered(Tail(rules), base + 1 + CountRules(h.kids))
RB == [prefix |-> Prefix, exit |-> Exit, rules |-> Numbered(Catalog[Entry].rules, 1)]
CfgSet == Configs(Catalog[Entry])

vars == <<phase, old, new, dev, hops>>
Init == phase = "old" /\ old = <<>> /\ new = <<>> /\ dev = <<>> /\ hops = 0
PickOld == phase = "old" /\ old' \in CfgSet /\ phase' = "new" /\ UNCHANGED <<new, dev, hops>>
PickNew == phase = "new" /\ new' \in CfgSet /\ phase' = "deploy" /\ UNCHANGED <<old, dev, hops>>
Deploy  == phase = "deploy" /\ dev' = ExecAll(RB, old, ACmds(RB, old, new)) /\ phase' = "done" /\ UNCHANGED <<old, new, hops>>
Retarget == Hop /\ phase = "done" /\ hops = 0 /\ Same(dev, new, RB.rules, <<>>)
            /\ old' = dev /\ phase' = "new" /\ hops' = 1 /\ UNCHANGED <<new, dev>>
Next == PickOld \/ PickNew \/ Deploy \/ Retarget

Converges == phase = "done" => Conv(dev, new, old, RB.rules, <<>>)
SecondEmpty == (phase = "done" /\ Same(dev, new, RB.rules, <<>>)) =>
                  /\ Strip(Bare(AMakeDiff(RB, dev, new))) = <<>>
                  /\ ACmds(RB, dev, new) = <<>>
DiffFaithful == phase = "deploy" =>
                  LET d == Bare(AMakeDiff(RB, old, new)) IN
                  Faithful(d, Restrict(old, RB.rules, <<>>), Restrict(new, RB.rules, <<>>), RB.rules, <<>>, "affected") = "ok"
SelfDiffSilent == phase = "new" => NoChange(Bare(AMakeDiff(RB, old, old)))
=============================================================================
