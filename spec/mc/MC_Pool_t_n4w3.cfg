CONSTANTS
  N = 4
  W = 3
  MaxTasks = 0
  Raises = {3}
  Tolerate = TRUE
  Drain = TRUE
SPECIFICATION FairSpec
INVARIANT TypeOK
INVARIANT NoDup
INVARIANT OnlySubmitted
INVARIANT AllDelivered
INVARIANT RaiseJustified
INVARIANT NoSilentFailure
PROPERTY Terminates
