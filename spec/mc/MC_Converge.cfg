CONSTANTS
  Prefix = "undo"
  PrefixX = "undox"
  Exit = "quit"
  Entry = 2
  RankRev = FALSE
  Hop = FALSE
INIT Init
NEXT Next
INVARIANT Converges
INVARIANT SecondEmpty
INVARIANT DiffFaithful
INVARIANT SelfDiffSilent
