------------------------------- MODULE MC_Rpl -------------------------------
(* MC + S2C for C14: TLC enumerates abstract route-map programs (one statement, <= 2 conditions from a catalogue of NC condition shapes,
   <= 2 actions from a catalogue of NA action shapes) and emits them; it also checks the error-before-emit machine on all event words
   up to length 5 against its declarative reading (an "error" never follows an "emit" within one start..end bracket).                     *)
EXTENDS Rpl, TLC, Json
CONSTANTS NC, NA
VARIABLES conds, acts, evs, mode
Init == \/ mode = "prog" /\ conds \in {s \in UNION {[1..k -> 1..NC] : k \in 0..2} : TRUE} /\ acts \in UNION {[1..k -> 1..NA] : k \in 0..2} /\ evs = <<>>
        \/ mode = "mach" /\ conds = <<>> /\ acts = <<>> /\ evs = <<>>
Next == mode = "mach" /\ Len(evs) < 5 /\ \E e \in {"start", "emit", "error", "end"} : evs' = Append(evs, e) /\ UNCHANGED <<conds, acts, mode>>
\* declarative reading of clause 4
Bad(w) == \E a, b \in DOMAIN w : a < b /\ w[a] = "emit" /\ w[b] = "error"
             /\ (\E s \in DOMAIN w : s < a /\ w[s] = "start" /\ \A k \in s + 1 .. b - 1 : w[k] \notin {"start", "end", "error"})
WellFormed(w) == Machine(w, "idle") \notin {"nested-start", "unknown-event"}
MachineMeansIt == mode = "mach" /\ WellFormed(evs) => ((Machine(evs, "idle") = "error-after-lines-were-emitted") = Bad(evs))
EmitCase == mode = "prog" => PrintT(<<"PROG", ToJson([c |-> conds, a |-> acts])>>)
=============================================================================
