----------------------------- MODULE MC_Session -----------------------------
(* MC + S2C for C09: TLC enumerates every patch tree over a row alphabet (distinct sibling rows, depth <= MaxDepth, width <= 2)
   and checks on the model that the displayed lines determine the command paths (nesting is consistent) for every vendor class;
   each tree is emitted as a case.                                                                                          *)
EXTENDS DeploySession, TLC, Json
CONSTANTS MaxDepth, Emit, Rows0, Rows1
Rows0Small == { <<"interface", "x">>, <<"xpl", "route-filter", "F">>, <<"address-family", "ipv4">> }
Rows1Small == { <<"b", "1">>, <<"if", "c", "then">>, <<"undo", "d">> }
Rows0Full == Rows0Small \cup { <<"undo", "a">>, <<"route-policy", "R">> }
Rows1Full == Rows1Small \cup { <<"else">> }
RowsAt(depth) == IF depth = 0 THEN Rows0 ELSE Rows1
RECURSIVE Trees(_)
Items(depth) == [row : RowsAt(depth), block : BOOLEAN, kids : {<<>>}]
Trees(depth) ==
  IF depth >= MaxDepth THEN {<<>>}
  ELSE LET sub == Trees(depth + 1)
           one == { [row |-> r, block |-> b, kids |-> k] : r \in RowsAt(depth), b \in BOOLEAN, k \in sub }
           ok(n) == n.block \/ n.kids = <<>>
           nodes == { n \in one : ok(n) }
           \* an `else` closes the if-chain it follows: it is never the first of two siblings (and two chain ends give two `endif` lines
           \* under one parent, which is the equal-sibling-commands case recorded as a finding for shipped rulebooks, not a new one)
       IN {<<>>} \cup { <<n>> : n \in nodes } \cup { p \in (nodes \X nodes) : p[1].row # p[2].row /\ p[1].row # <<"else">> }
Vendors == {"common", "huawei", "cisco", "asr", "exit"}
VARIABLES pt
Init == pt \in Trees(0)
Next == UNCHANGED pt
ShownDeterminesPaths == \A v \in Vendors : LET ls == Flatten(v, pt, 0, <<>>) IN NestingOK(ls) /\ Len(PathsOf(ls, <<>>)) = Len(ls)
EveryItemOnce == \A v \in Vendors : LET ls == Flatten(v, pt, 0, <<>>) IN
                    Cardinality({k \in DOMAIN ls : ls[k].d = 0 /\ \E n \in DOMAIN pt : pt[n].row = ls[k].row}) = Len(pt)
EmitCase == Emit => PrintT(<<"PT", ToJson([pt |-> pt])>>)
=============================================================================
