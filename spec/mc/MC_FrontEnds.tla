---------------------------- MODULE MC_FrontEnds ----------------------------
(* MC for C16: every diff level of up to MaxLen entries over two keys (rows distinct per entry); the two front ends agree on the commands
   and on what is shown.  MC_FrontEnds_regress.cfg (StripFirst = TRUE, the composition before repair 28efb2a) must violate Agree.      *)
EXTENDS FrontEnds, TLC
CONSTANTS MaxLen, StripFirst
VARIABLE d
Ops == {"unchanged", "added", "removed"}
Init == d = <<>>
Next == /\ Len(d) < MaxLen
        /\ \E k \in {"k1", "k2"}, op \in Ops : d' = Append(d, [key |-> k, op |-> op, row |-> Len(d) + 1])
Agree == DeviceMode(d) = FileMode(d, StripFirst)
=============================================================================
