CONSTANTS
  MaxLen = 2
  NJobs = 12
INIT Init
NEXT Next
INVARIANT EmitSeq
