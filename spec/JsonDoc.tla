------------------------------- MODULE JsonDoc -------------------------------
(* C13.  JSON documents, glob pointers, fragment merge and RFC 6902 patch application.
   Tagged documents (the driver only re-encodes real JSON, no semantics):
     [t |-> "o", k |-> Seq(key), v |-> Seq(doc)]   object (compared as a map)     [t |-> "a", v |-> Seq(doc)]   array
     [t |-> "s", x |-> string]                      scalar (rendered by json.dumps)
   A key is a sequence of one-character strings (so that glob patterns can be matched inside the spec).
   A pointer is a sequence of segments [s |-> key, n |-> Int] (n = array index, -1 not numeric, -2 for "-").              *)
EXTENDS Naturals, Integers, Sequences, FiniteSets
ERR == [t |-> "ERR"]
IsErr(d) == d.t = "ERR"
KeyIdx(o, key) == LET S == {i \in DOMAIN o.k : o.k[i] = key} IN IF S = {} THEN 0 ELSE CHOOSE i \in S : TRUE
RECURSIVE DocEq(_, _)
DocEq(a, b) ==
  /\ a.t = b.t
  /\ CASE a.t = "s" -> a.x = b.x
       [] a.t = "a" -> Len(a.v) = Len(b.v) /\ \A i \in DOMAIN a.v : DocEq(a.v[i], b.v[i])
       [] a.t = "o" -> /\ {a.k[i] : i \in DOMAIN a.k} = {b.k[i] : i \in DOMAIN b.k}
                       /\ \A i \in DOMAIN a.k : DocEq(a.v[i], b.v[KeyIdx(b, a.k[i])])
       [] OTHER -> FALSE
CutAt(s, i) == SubSeq(s, 1, i - 1) \o SubSeq(s, i + 1, Len(s))
InsAt(s, i, x) == SubSeq(s, 1, i - 1) \o <<x>> \o SubSeq(s, i, Len(s))
RECURSIVE Get(_, _)
Get(d, p) == IF p = <<>> THEN d
             ELSE IF d.t = "o" THEN LET i == KeyIdx(d, p[1].s) IN IF i = 0 THEN ERR ELSE Get(d.v[i], Tail(p))
             ELSE IF d.t = "a" THEN IF p[1].n >= 0 /\ p[1].n < Len(d.v) THEN Get(d.v[p[1].n + 1], Tail(p)) ELSE ERR
             ELSE ERR
(* --------------------------- RFC 6902: one action per operation --------------------------- *)
RECURSIVE Upd(_, _, _, _)
Upd(d, p, mode, val) ==
  IF IsErr(d) THEN ERR
  ELSE IF p = <<>> THEN (IF mode = "remove" THEN ERR ELSE val)
  ELSE IF Len(p) = 1 THEN
    IF d.t = "o" THEN
      LET i == KeyIdx(d, p[1].s) IN
      CASE mode = "add"     -> IF i = 0 THEN [d EXCEPT !.k = Append(@, p[1].s), !.v = Append(@, val)] ELSE [d EXCEPT !.v[i] = val]
        [] mode = "replace" -> IF i = 0 THEN ERR ELSE [d EXCEPT !.v[i] = val]
        [] mode = "remove"  -> IF i = 0 THEN ERR ELSE [d EXCEPT !.k = CutAt(@, i), !.v = CutAt(@, i)]
    ELSE IF d.t = "a" THEN
      LET n == p[1].n IN
      CASE mode = "add"     -> IF n = -2 THEN [d EXCEPT !.v = Append(@, val)]
                               ELSE IF n >= 0 /\ n <= Len(d.v) THEN [d EXCEPT !.v = InsAt(@, n + 1, val)] ELSE ERR
        [] mode = "replace" -> IF n >= 0 /\ n < Len(d.v) THEN [d EXCEPT !.v[n + 1] = val] ELSE ERR
        [] mode = "remove"  -> IF n >= 0 /\ n < Len(d.v) THEN [d EXCEPT !.v = CutAt(@, n + 1)] ELSE ERR
    ELSE ERR
  ELSE IF d.t = "o" THEN
      LET i == KeyIdx(d, p[1].s) IN IF i = 0 THEN ERR
      ELSE LET c == Upd(d.v[i], Tail(p), mode, val) IN IF IsErr(c) THEN ERR ELSE [d EXCEPT !.v[i] = c]
  ELSE IF d.t = "a" THEN
      IF p[1].n >= 0 /\ p[1].n < Len(d.v)
      THEN LET c == Upd(d.v[p[1].n + 1], Tail(p), mode, val) IN IF IsErr(c) THEN ERR ELSE [d EXCEPT !.v[p[1].n + 1] = c]
      ELSE ERR
  ELSE ERR
ApplyOp(d, op) ==
  IF IsErr(d) THEN ERR ELSE
  CASE op.op = "add"     -> Upd(d, op.path, "add", op.value)
    [] op.op = "replace" -> Upd(d, op.path, "replace", op.value)
    [] op.op = "remove"  -> Upd(d, op.path, "remove", ERR)
    [] op.op = "move"    -> LET x == Get(d, op.from) IN IF IsErr(x) THEN ERR ELSE Upd(Upd(d, op.from, "remove", ERR), op.path, "add", x)
    [] op.op = "copy"    -> LET x == Get(d, op.from) IN IF IsErr(x) THEN ERR ELSE Upd(d, op.path, "add", x)
    [] op.op = "test"    -> LET x == Get(d, op.path) IN IF IsErr(x) \/ ~DocEq(x, op.value) THEN ERR ELSE d
    [] OTHER -> ERR
RECURSIVE ApplyAll(_, _)
ApplyAll(d, ops) == IF ops = <<>> THEN d ELSE ApplyAll(ApplyOp(d, Head(ops)), Tail(ops))

(* --------------------------- glob pointers --------------------------- *)
\* pattern and text are sequences of 1-char strings; `*` any run, `?` any one character, `[abc]` one of the listed characters, `[!abc]` any
\* other one (inside the brackets `*` and `?` are ordinary characters; ranges are not used by the drivers); a `[` without `]` is itself
CloseAt(p) == LET S == {k \in 3..Len(p) : p[k] = "]"} IN IF S = {} THEN 0 ELSE CHOOSE k \in S : \A j \in S : k <= j
RECURSIVE Glob(_, _)
Glob(p, s) ==
  IF p = <<>> THEN s = <<>>
  ELSE IF Head(p) = "*" THEN Glob(Tail(p), s) \/ (s # <<>> /\ Glob(p, Tail(s)))
  ELSE IF Head(p) = "[" /\ CloseAt(p) # 0 THEN
       LET c == CloseAt(p)
           neg == p[2] = "!"
           body == {p[k] : k \in (IF neg THEN 3 ELSE 2)..(c - 1)}
       IN s # <<>> /\ ((Head(s) \in body) # neg) /\ Glob(SubSeq(p, c + 1, Len(p)), Tail(s))
  ELSE s # <<>> /\ (Head(p) = "?" \/ Head(p) = Head(s)) /\ Glob(Tail(p), Tail(s))
\* concrete pointers (sequences of keys) of the object part of doc selected by a pattern (sequence of glob segments)
RECURSIVE Select(_, _)
Select(d, pat) ==
  IF pat = <<>> THEN {<<>>}
  ELSE IF d.t # "o" THEN {}
  ELSE UNION { { <<d.k[i]>> \o q : q \in Select(d.v[i], Tail(pat)) } : i \in {j \in DOMAIN d.k : Glob(Head(pat), d.k[j])} }
SelectAll(d, acl) == UNION {Select(d, acl[i]) : i \in DOMAIN acl}
Ptr(keys) == [i \in DOMAIN keys |-> [s |-> keys[i], n |-> -1]]
GetK(d, keys) == Get(d, Ptr(keys))
IsPrefix(a, b) == Len(a) <= Len(b) /\ SubSeq(b, 1, Len(a)) = a
\* all key paths of the object skeleton of a document (objects are descended, arrays and scalars are leaves)
RECURSIVE KeyPaths(_)
KeyPaths(d) == IF d.t # "o" THEN {} ELSE UNION { {<<d.k[i]>>} \cup {<<d.k[i]>> \o q : q \in KeyPaths(d.v[i])} : i \in DOMAIN d.k }

(* P-layer of the fragment merge r = apply_json_fragment(old, f, acl) *)
FragmentVerdict(old, f, acl, r) ==
  LET sf == SelectAll(f, acl)  so == SelectAll(old, acl)
      touched(p) == \E q \in sf \cup so : IsPrefix(q, p) \/ IsPrefix(p, q)
  IN IF \E p \in sf : IsErr(GetK(r, p)) \/ ~DocEq(GetK(r, p), GetK(f, p)) THEN "selected-part-differs-from-fragment"
     ELSE IF \E p \in so : (\A q \in sf : ~IsPrefix(q, p) /\ ~IsPrefix(p, q)) /\ ~IsErr(GetK(r, p)) THEN "selected-key-absent-from-fragment-kept"
     ELSE IF \E p \in KeyPaths(old) : ~touched(p) /\ (IsErr(GetK(r, p)) \/ ~DocEq(GetK(r, p), GetK(old, p))) THEN "unselected-part-changed"
     ELSE IF \E p \in KeyPaths(r) : ~touched(p) /\ IsErr(GetK(old, p)) THEN "unselected-part-appeared"
     ELSE "ok"
\* sub-document: every key path of the filtered document exists in the original with the same leaf / an object
RECURSIVE SubDoc(_, _)
SubDoc(a, b) == IF a.t = "o" THEN b.t = "o" /\ \A i \in DOMAIN a.k : KeyIdx(b, a.k[i]) # 0 /\ SubDoc(a.v[i], b.v[KeyIdx(b, a.k[i])])
                ELSE DocEq(a, b)

(* operational definition of the merge (used by MC_Json to show that it satisfies the declarative clauses above) *)
RECURSIVE SetK(_, _, _)
SetK(d, keys, val) ==
  IF keys = <<>> THEN val
  ELSE LET base == IF d.t = "o" THEN d ELSE [t |-> "o", k |-> <<>>, v |-> <<>>]
           i == KeyIdx(base, Head(keys))
       IN IF i = 0 THEN [base EXCEPT !.k = Append(@, Head(keys)), !.v = Append(@, SetK([t |-> "o", k |-> <<>>, v |-> <<>>], Tail(keys), val))]
          ELSE [base EXCEPT !.v[i] = SetK(@, Tail(keys), val)]
RECURSIVE DelK(_, _)
DelK(d, keys) ==
  IF d.t # "o" THEN d
  ELSE LET i == KeyIdx(d, Head(keys)) IN
       IF i = 0 THEN d
       ELSE IF Len(keys) = 1 THEN [d EXCEPT !.k = CutAt(@, i), !.v = CutAt(@, i)]
       ELSE [d EXCEPT !.v[i] = DelK(@, Tail(keys))]
RECURSIVE FoldSet(_, _, _)
FoldSet(d, f, S) == IF S = {} THEN d ELSE LET p == CHOOSE p \in S : \A q \in S : Len(p) <= Len(q) IN FoldSet(SetK(d, p, GetK(f, p)), f, S \ {p})
RECURSIVE FoldDel(_, _)
FoldDel(d, S) == IF S = {} THEN d ELSE LET p == CHOOSE p \in S : TRUE IN FoldDel(DelK(d, p), S \ {p})
RECURSIVE Merge(_, _, _)
Merge(old, f, acl) ==
  IF acl = <<>> THEN old
  ELSE LET n == Select(f, Head(acl)) o == Select(old, Head(acl)) IN
       Merge(FoldDel(FoldSet(old, f, n), o \ n), f, Tail(acl))
=============================================================================
