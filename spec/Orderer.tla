------------------------------- MODULE Orderer -------------------------------
(* C08.  An ordering rulebook is a sequence of rules [pat, kids, glob, orev] (orev = %order_reverse: the rule's own text is a
   negated command pinned to this position).  P-layer:
     Rank(rules, row) =  +i  if the row matches rule i directly (for an orev rule: the pinned negated command),
                         -i  if it matches rule i only through its negated form,
                          0  (unranked) otherwise; claims are made only between ranked siblings.
   The statement's domain: sibling rules have pairwise disjoint languages, so at most one rule (and one form) matches.     *)
EXTENDS Rulebook

NegMatch(prefix, p, row) == M(RevPattern(p, prefix), row)
DirectIdx(rules, row) == {i \in DOMAIN rules : M(rules[i].pat, row)}
NegIdx(prefix, rules, row) == {i \in DOMAIN rules : ~rules[i].orev /\ NegMatch(prefix, rules[i].pat, row)}
Rank(prefix, rules, row) ==
  LET D == DirectIdx(rules, row) N == NegIdx(prefix, rules, row) IN
  IF D # {} THEN (CHOOSE i \in D : \A j \in D : i <= j)
  ELSE IF N # {} THEN 0 - (CHOOSE i \in N : \A j \in N : i <= j)
  ELSE 0
Ambiguous(prefix, rules, row) == Cardinality(DirectIdx(rules, row) \cup NegIdx(prefix, rules, row)) > 1
(* Ordering rules that govern the children of a row.  A level's rules are one sequence `vis` in TEXT order.  Below a row, the rules are
   again in text order: every %global entry of `vis` stays where it was declared, and the children of the rule that ranks the row are
   spliced in at that rule's position.  So a %global entry declared before a block rule ranks before the block's own child rules, one
   declared after it ranks after them ("a command matched by an earlier rule comes before one matched by a later rule" reads the
   rule text top to bottom at every depth).  An unranked row hands down the %global entries only.                                  *)
\* an ordering rule may be limited to a scope (%scope=patch): it takes part only when the caller orders in that scope -- patches are
\* ordered in scope "patch", generated configurations (order_config) in no scope, where scoped rules do not exist
RECURSIVE InScope(_, _)
InScope(rules, scope) == LET keep == SelectSeq(rules, LAMBDA r : r.scope = "" \/ r.scope = scope) IN
                         [k \in DOMAIN keep |-> [keep[k] EXCEPT !.kids = InScope(@, scope)]]
Splice(vis, k) == FlatSeq([i \in DOMAIN vis |-> (IF vis[i].glob THEN <<vis[i]>> ELSE <<>>) \o (IF i = k THEN vis[i].kids ELSE <<>>)])
OrdKids(prefix, vis, row) == LET r == Rank(prefix, vis, row) IN Splice(vis, IF r > 0 THEN r ELSE 0 - r)

(* items: Seq([row, block, kids]) as in DeploySession.  "ok" or the first violated clause, at every depth. *)
RECURSIVE RankOrdered(_, _, _)
RankOrdered(prefix, items, vis) ==
  LET rk(i) == Rank(prefix, vis, items[i].row)
      bad == {i \in DOMAIN items : \E j \in DOMAIN items : i < j /\ rk(i) # 0 /\ rk(j) # 0 /\ rk(j) < rk(i)
                                                               /\ ~Ambiguous(prefix, vis, items[i].row) /\ ~Ambiguous(prefix, vis, items[j].row)}
      kidbad == {i \in DOMAIN items : RankOrdered(prefix, items[i].kids, OrdKids(prefix, vis, items[i].row)) # "ok"}
  IN IF bad # {} THEN "later-rule-before-earlier-rule"
     ELSE IF kidbad # {} THEN "later-rule-before-earlier-rule"
     ELSE "ok"

\* removal before re-creation of one patching rule and key (patching rules RB): among siblings
RECURSIVE RemovalFirst(_, _, _, _)
RemovalFirst(RB, items, loc, glo) ==
  LET vis == Visible(loc, glo)
      bad == {i \in DOMAIN items : \E j \in DOMAIN items : i < j /\
                LET k == RuleIdx(vis, items[i].row) IN
                k # 0 /\ RevDefined(vis[k].pat)
                /\ items[j].row = RevInst(vis[k].pat, RB.prefix, Key(vis[k].pat, items[i].row))}
  IN bad = {} /\ \A i \in DOMAIN items : RemovalFirst(RB, items[i].kids, KidRules(vis, items[i].row), InheritDown(loc, glo))

RECURSIVE BagI(_)
BagI(items) == LET E == {<<items[i].row, items[i].block, BagI(items[i].kids)>> : i \in DOMAIN items} IN
               {<<e, Cardinality({i \in DOMAIN items : <<items[i].row, items[i].block, BagI(items[i].kids)>> = e})>> : e \in E}

\* config trees (order_config): rows no rule mentions keep their relative order
RECURSIVE UnrankedStable(_, _, _, _)
UnrankedStable(prefix, inp, out, vis) ==
  LET \* Reading: unmentioned rows keep their relative order among rows of the same polarity; an unmentioned row that itself starts
      \* with the negation word is a "removal" for the orderer and goes in front of the unmentioned plain rows (as in patches).
      neg(r) == Len(r) > 1 /\ r[1] = prefix
      un(t, b) == SelectSeq([i \in DOMAIN t |-> t[i].row], LAMBDA r : Rank(prefix, vis, r) = 0 /\ neg(r) = b)
  IN /\ un(inp, TRUE) = un(out, TRUE) /\ un(inp, FALSE) = un(out, FALSE)
     /\ \A i \in DOMAIN inp : UnrankedStable(prefix, inp[i].kids, KidsOf(out, inp[i].row), OrdKids(prefix, vis, inp[i].row))
RECURSIVE AsItems(_)
AsItems(t) == [i \in DOMAIN t |-> [row |-> t[i].row, block |-> t[i].kids # <<>>, kids |-> AsItems(t[i].kids)]]
=============================================================================
