------------------------------- MODULE Device -------------------------------
(* P-layer of C01/C02/C17: the CLI device "that holds one line per rulebook rule and key" as a state machine
   whose single action is the execution of one command path (DESIGN.md 2.2).
   Exec(tree, loc, glo, path): path = <<block header, ..., command>> exactly as one key of formatter.cmd_paths.
   Priority at the command's level:
     1. the vendor's block-exit word                         -> no change
     2. the command is the negated form of existing line(s)  -> those lines and their subtrees are removed
     3. the command matches a rule                            -> it replaces the line in the same slot (children kept) or is
                                                                 appended; re-sending the header of an existing block clears the
                                                                 children governed by a %rewrite rule
     4. anything else                                         -> no change                                                  *)
EXTENDS Rulebook

RECURSIVE Exec(_, _, _, _, _)
Exec(RB, tree, loc, glo, path) ==
  LET vis == Visible(loc, glo)
      row == Head(path)
      kidloc == KidRules(vis, row)
      kidglo == InheritDown(loc, glo)
  IN
  IF Len(path) > 1 THEN                                 \* entering a block (creates it if absent)
     LET i == IdxOf(tree, row) IN
     IF i # 0 THEN [tree EXCEPT ![i].kids = Exec(RB, tree[i].kids, kidloc, kidglo, Tail(path))]
     ELSE Append(tree, [row |-> row, kids |-> Exec(RB, <<>>, kidloc, kidglo, Tail(path))])
  ELSE IF RB.exit # "" /\ row = <<RB.exit>> THEN tree
  ELSE
     LET revhits == {i \in DOMAIN tree :
                       LET j == RuleIdx(vis, tree[i].row) IN
                       j # 0 /\ RevInst(vis[j].pat, RB.prefix, Key(vis[j].pat, tree[i].row)) = row}
         mi == RuleIdx(vis, row)
     IN IF revhits # {} THEN DropAt(tree, revhits)
        ELSE IF mi = 0 THEN tree
        ELSE LET same == {i \in DOMAIN tree : Slot(vis, tree[i].row) = Slot(vis, row)} IN
             IF same = {} THEN Append(tree, [row |-> row, kids |-> <<>>])
             ELSE LET i == CHOOSE i \in same : TRUE IN
                  IF tree[i].row = row
                  THEN [tree EXCEPT ![i].kids = SelectSeq(@, LAMBDA n :
                            LET kv == Visible(kidloc, kidglo) k == RuleIdx(kv, n.row) IN k = 0 \/ kv[k].logic # "rewrite")]
                  ELSE [tree EXCEPT ![i] = [row |-> row, kids |-> tree[i].kids]]

RECURSIVE PresentPath(_, _)        \* the path of rows exists in the tree
PresentPath(tree, path) == IF path = <<>> THEN TRUE
                           ELSE LET i == IdxOf(tree, Head(path)) IN i # 0 /\ PresentPath(tree[i].kids, Tail(path))
RECURSIVE KidsAt(_, _)             \* children of the node at an existing path
KidsAt(tree, path) == IF Len(path) = 1 THEN KidsOf(tree, path[1]) ELSE KidsAt(KidsOf(tree, Head(path)), Tail(path))
RECURSIVE ExecAll(_, _, _)
ExecAll(RB, tree, cmds) == IF cmds = <<>> THEN tree ELSE ExecAll(RB, Exec(RB, tree, RB.rules, <<>>, Head(cmds)), Tail(cmds))

(* ---- flattening vendors (Junos style): one command is one line `set <words>` / `<negation word> <words>`, the words being the rows of the
   path written one after the other.  The device segments the words with its schema -- here the rulebook: at each level the first rule
   matching the remaining words governs; a rule with children rules takes exactly its pattern's words as the block header (headers are
   key-determined), any other rule takes all remaining words as a leaf row.                                                         *)
RECURSIVE Unflatten(_, _, _)
Unflatten(words, loc, glo) ==
  IF words = <<>> THEN <<>>
  ELSE LET vis == Visible(loc, glo)
           k == RuleIdx(vis, words)
       IN IF k = 0 THEN << words >>
          ELSE LET n == Len(Core(vis[k].pat))
                   hdr == SubSeq(words, 1, n)
                   kl == KidRules(vis, hdr) IN
               IF kl # <<>> /\ Len(words) > n /\ ~vis[k].glob
               THEN << hdr >> \o Unflatten(SubSeq(words, n + 1, Len(words)), kl, InheritDown(loc, glo))
               ELSE << words >>
\* `set a b c` inserts / replaces; `delete a b c` is the negated form of the last row of the path
FlatPath(RB, cmd) ==
  LET op == cmd[1]
      path == Unflatten(Tail(cmd), RB.rules, <<>>)
  IN IF op = RB.prefix /\ path # <<>> THEN SubSeq(path, 1, Len(path) - 1) \o << <<RB.prefix>> \o path[Len(path)] >> ELSE path
RECURSIVE ExecAllFlat(_, _, _)
ExecAllFlat(RB, tree, cmds) ==
  IF cmds = <<>> THEN tree
  ELSE ExecAllFlat(RB, IF Head(cmds)[1][1] \in {"set", RB.prefix} THEN Exec(RB, tree, RB.rules, <<>>, FlatPath(RB, Head(cmds)[1])) ELSE tree, Tail(cmds))
\* every command list of every vendor: flat ones carry the flag in the rulebook record
Run(RB, tree, cmds) == IF "flat" \in DOMAIN RB /\ RB.flat THEN ExecAllFlat(RB, tree, cmds) ELSE ExecAll(RB, tree, cmds)

(* Contract-aware convergence (C01 Reading): slot-wise equality of the device with the target, except that
   - a `permanent` slot absent from the target may remain (with its old row; its children must have converged to nothing),
   - an `ignore_changes` slot present in old and target with different rows keeps the old row.                              *)
RECURSIVE Conv(_, _, _, _, _)
Conv(dev, new, old, loc, glo) ==
  LET vis == Visible(loc, glo)
      known(t) == SelectSeq(t, LAMBDA n : Known(vis, n.row))
      d0 == known(dev) n0 == known(new) o0 == known(old)
      slots == {Slot(vis, d0[i].row) : i \in DOMAIN d0} \cup {Slot(vis, n0[i].row) : i \in DOMAIN n0}
      pick(t, s) == LET I == {i \in DOMAIN t : Slot(vis, t[i].row) = s} IN IF I = {} THEN <<>> ELSE <<t[CHOOSE i \in I : TRUE]>>
      one(t, s) == Cardinality({i \in DOMAIN t : Slot(vis, t[i].row) = s}) <= 1
  IN \A s \in slots :
       LET d == pick(d0, s) n == pick(n0, s) o == pick(o0, s) rule == vis[s[1]]
           kl == KidRules(vis, IF d # <<>> THEN d[1].row ELSE n[1].row)  kg == InheritDown(loc, glo) IN
       /\ one(d0, s)
       /\ CASE rule.logic = "permanent" /\ n = <<>> ->
                 d # <<>> => (o # <<>> /\ d[1].row = o[1].row /\ Conv(d[1].kids, <<>>, o[1].kids, kl, kg))
            [] rule.logic = "ignore_changes" /\ n # <<>> /\ o # <<>> /\ n[1].row # o[1].row ->
                 d # <<>> /\ d[1].row = o[1].row
            [] OTHER -> \/ (d # <<>> /\ n # <<>> /\ d[1].row = n[1].row
                            /\ Conv(d[1].kids, n[1].kids, IF o = <<>> THEN <<>> ELSE o[1].kids, kl, kg))
                        \/ (d = <<>> /\ n = <<>>)
\* strict convergence: no contract exception was needed anywhere
RECURSIVE Same(_, _, _, _)
Same(dev, new, loc, glo) ==
  LET vis == Visible(loc, glo)
      known(t) == SelectSeq(t, LAMBDA n : Known(vis, n.row))
      d0 == known(dev) n0 == known(new)
  IN /\ {d0[i].row : i \in DOMAIN d0} = {n0[i].row : i \in DOMAIN n0}
     /\ Len(d0) = Len(n0)
     /\ \A i \in DOMAIN d0 : Same(d0[i].kids, KidsOf(n0, d0[i].row), KidRules(vis, d0[i].row), InheritDown(loc, glo))
=============================================================================
