---------------------------- MODULE OrderCatalog ----------------------------
(* Ordering rulebooks for the patching catalogue: OrdCatalog[k] is a sequence of alternative ordering rulebooks for patching
   entry k.  Sibling rules have pairwise disjoint languages (at every depth, inherited %global entries included). *)
EXTENDS RuleCatalog, Orderer
O(pat, kids) == [pat |-> pat, kids |-> kids, glob |-> FALSE, orev |-> FALSE, scope |-> ""]
OG(pat) == [pat |-> pat, kids |-> <<>>, glob |-> TRUE, orev |-> FALSE, scope |-> ""]
OR(pat) == [pat |-> pat, kids |-> <<>>, glob |-> FALSE, orev |-> TRUE, scope |-> ""]
OS(pat) == [pat |-> pat, kids |-> <<>>, glob |-> FALSE, orev |-> FALSE, scope |-> "patch"]      \* %scope=patch
OrdCatalog == <<
  \* flat: c first, then a, b; removal of m pinned between them; PrefixX unmentioned
  << << O(<<T("c"), TT>>, <<>>), OR(<<T(Prefix), T("m"), TT>>), O(<<T(PrefixX), ST>>, <<>>), O(<<T("a"), ST>>, <<>>), O(<<T("b")>>, <<>>) >>,
     \* b between c and a, but only when a patch is ordered: for order_config `b` is a row no rule mentions
     << O(<<T("c"), TT>>, <<>>), OS(<<T("b")>>), O(<<T("a"), ST>>, <<>>) >> >>,
  \* nest: blk before a; inside: y, sub{z}, x
  << << O(<<T("blk"), ST>>, << O(<<T("y")>>, <<>>), O(<<T("sub"), ST>>, << O(<<T("z"), ST>>, <<>>) >>), O(<<T("x"), ST>>, <<>>) >>), O(<<T("a"), ST>>, <<>>) >> >>,
  \* logics: p, s, i, b
  << << O(<<T("p"), ST>>, << O(<<T("q"), ST>>, <<>>) >>), O(<<T("s"), ST>>, <<>>), O(<<T("i")>>, <<>>), O(<<T("b")>>, <<>>) >> >>,
  \* logics-nested
  << << O(<<T("blk"), ST>>, << O(<<T("p"), ST>>, <<>>), O(<<T("i")>>, <<>>), O(<<T("b")>>, <<>>) >>), O(<<T("a"), ST>>, <<>>) >> >>,
  \* ordered: d before rules
  << << O(<<T("acl"), ST>>, << O(<<T("d")>>, <<>>), O(<<T("rule"), ST>>, <<>>) >>) >> >>,
  << << O(<<T("pm"), ST>>, << O(<<T("class"), ST>>, << O(<<T("bw"), ST>>, <<>>) >>) >>) >> >>,
  << << O(<<T("rp"), ST>>, <<>>), O(<<T("a"), ST>>, <<>>) >> >>,
  << << O(<<T("blk"), ST>>, <<>>), O(<<T("a"), ST>>, <<>>) >>,
     \* catch-all: the configuration line `<Prefix> n 1` is itself a negated statement, so its removal command is the positive text `n 1`:
     \* an %order_reverse rule need not begin with the negation word to pin a removal (`portswitch %order_reverse` in huawei.order)
     << O(<<T("blk"), ST>>, <<>>), OR(<<T("n"), TT>>), O(<<T("a"), ST>>, <<>>) >> >>,
  \* shared-prefix: ONE ordering rule (the first one) covers three patching rules
  << << O(<<T("ip"), TT>>, <<>>) >> >>,
  \* global-desc: the %global entry declared BEFORE the block rule ranks before the block's child rules at every depth; declared AFTER it, after them
  << << OG(<<T("description")>>), O(<<T("bgp")>>, << O(<<T("peer"), ST>>, << O(<<T("as"), ST>>, <<>>) >>) >>) >>,
     << O(<<T("bgp")>>, << O(<<T("peer"), ST>>, << O(<<T("as"), ST>>, <<>>) >>) >>), OG(<<T("description")>>) >> >>,
  << << O(<<T("ps"), ST>>, << O(<<T("term"), ST>>, <<>>) >>) >> >>,
  << << O(<<T("interfaces")>>, <<>>), O(<<T("interface"), ST>>, << O(<<T("shutdown")>>, <<>>), O(<<T("mtu")>>, <<>>) >>), O(<<T("a"), ST>>, <<>>) >> >>,
  << << O(<<T("a"), ST>>, <<>>), O(<<T("rv"), ST>>, <<>>) >> >>,
  << << O(<<T("blk"), ST>>, << O(<<T("y")>>, <<>>), O(<<T("x"), ST>>, <<>>) >>) >> >>,
  << << O(<<T("rd"), ST>>, <<>>) >> >>,
  << << O(<<T("blk"), ST>>, << O(<<T("x"), ST>>, <<>>), O(<<T("ic"), ST>>, <<>>) >>), O(<<T("top"), ST>>, <<>>) >> >>,
  << << O(<<T("blk"), ST>>, <<>>), O(<<T("ip"), TT>>, <<>>) >> >>,
  \* rewrite-sandwich
  << << O(<<T("rs"), ST>>, << O(<<T("term"), ST>>, << O(<<T("then")>>, <<>>), O(<<T("from")>>, <<>>) >>) >>) >> >>,
  \* slash-key
  << << O(<<T("a"), ST>>, <<>>), O(<<T("port"), ST>>, <<>>) >> >>,
  \* negated-form
  << << O(<<T("blk"), ST>>, <<>>), O(<<T("a"), ST>>, <<>>) >>,
     \* an ordinary ordering rule written in the negated form (`<Prefix> nx *`, no %order_reverse): the line `<Prefix> nx 1` ranks there
     \* directly, and its removal `nx 1` (the negation of a negated rule is the plain rule) through the reverse form.  Limited to patches:
     \* order_config reads the polarity of a row off its text, so a line that begins with the negation word is a "removal" there
     << O(<<T("blk"), ST>>, <<>>), OS(<<T(Prefix), T("nx"), ST>>), O(<<T("a"), ST>>, <<>>) >> >>
>>
\* disjointness of sibling languages over the instance universe of the patching catalogue (domain assumption of C08)
RECURSIVE AllInst(_)
AllInst(rules) == UNION { UNION { {r.inst[g][v] : v \in DOMAIN r.inst[g]} : g \in DOMAIN r.inst } \cup AllInst(r.kids) : r \in {rules[k] : k \in DOMAIN rules} }
RECURSIVE Disjoint(_, _)
Disjoint(vis, U) == /\ \A row \in U : ~Ambiguous(Prefix, vis, row) /\ ~Ambiguous(Prefix, vis, <<Prefix>> \o row)
                    /\ \A k \in DOMAIN vis : vis[k].kids # <<>> => Disjoint(Splice(vis, k), U)
=============================================================================
