--------------------------------- MODULE Mesh ---------------------------------
(* C15.  Mesh handlers as data: a handler is [L, R, S] -- what it assigns to the left peer, the right peer and the session -- each a record
     [f : Seq([k, v])  single-valued fields (addr, asnum, mtu, bfd, ...) as key/value strings,   fam : Seq(family)  set-valued field]
   Handler application is an action (MC_Mesh explores every application order).
   P-layer (order-free): the data of all matching handlers is combined field by field; a single-valued field that receives two different
   values is a conflict (whatever the order); set-valued fields are united; a session field counts for both sides.                    *)
EXTENDS Naturals, Sequences, FiniteSets
ToSet(s) == {s[k] : k \in DOMAIN s}
\* all <<key, value>> assignments a handler makes to one side, session included
SideAssign(h, side) == ToSet(IF side = "L" THEN h.L.f ELSE h.R.f) \cup ToSet(h.S.f)
SideFam(h, side) == ToSet(IF side = "L" THEN h.L.fam ELSE h.R.fam) \cup ToSet(h.S.fam)
AllAssign(hs, side) == UNION {SideAssign(hs[i], side) : i \in DOMAIN hs}
Conflict(hs) == \E side \in {"L", "R"} : \E a, b \in AllAssign(hs, side) : a.k = b.k /\ a.v # b.v
ValueOf(hs, side, key) == LET S == {a \in AllAssign(hs, side) : a.k = key} IN IF S = {} THEN "" ELSE (CHOOSE a \in S : TRUE).v
Families(hs, side) == UNION {SideFam(hs[i], side) : i \in DOMAIN hs}

(* A-layer: sequential merging in application order (merge(DTO, peer, session) per handler, then merge of pairs) *)
MergeSide(acc, new) ==      \* acc, new : [f : set of <<k,v>> records, fam : set, bad : BOOLEAN]
  [f |-> acc.f \cup new.f, fam |-> acc.fam \cup new.fam,
   bad |-> acc.bad \/ new.bad \/ \E a \in acc.f, b \in new.f : a.k = b.k /\ a.v # b.v]
OneHandler(h, side) == [f |-> SideAssign(h, side), fam |-> SideFam(h, side), bad |-> \E a, b \in SideAssign(h, side) : a.k = b.k /\ a.v # b.v]
EmptySide == [f |-> {}, fam |-> {}, bad |-> FALSE]

(* Model instances as data (the merge laws of the statement, "per declared merger").  An instance is a record of five sequences of
   [k, v] pairs, one per merger kind of its SET fields:
     s  single-valued fields (default merger ForbidChange): v a string
     c  Concat fields: v a sequence            u  Unite fields: v a sequence read as a set
     m  Merge fields: v an instance            d  DictMerge(Merge()) fields: v a sequence of [k, v: instance]
   MergeInst(a, b) = [bad, v]: bad iff somewhere a single-valued field is set to two different values; v the merged instance, in which
   an unset field never overrides a set one, Concat keeps a's elements before b's, and keys of a precede new keys of b.                *)
Keys(ps) == {ps[i].k : i \in DOMAIN ps}
Get(ps, key) == ps[CHOOSE i \in DOMAIN ps : ps[i].k = key].v
OnlyB(pa, pb) == SelectSeq(pb, LAMBDA p : p.k \notin Keys(pa))
RECURSIVE MergeInst(_, _)
RECURSIVE MergeDict(_, _)
MergeDict(da, db) ==
  LET both == [i \in DOMAIN da |-> IF da[i].k \in Keys(db) THEN [k |-> da[i].k, r |-> MergeInst(da[i].v, Get(db, da[i].k))]
                                     ELSE [k |-> da[i].k, r |-> [bad |-> FALSE, v |-> da[i].v]]]
  IN [bad |-> \E i \in DOMAIN both : both[i].r.bad,
      v |-> [i \in DOMAIN both |-> [k |-> both[i].k, v |-> both[i].r.v]] \o OnlyB(da, db)]
MergeInst(a, b) ==
  LET sc == [i \in DOMAIN a.s |-> a.s[i]] \o OnlyB(a.s, b.s)
      sbad == \E i \in DOMAIN a.s : a.s[i].k \in Keys(b.s) /\ Get(b.s, a.s[i].k) # a.s[i].v
      cc == [i \in DOMAIN a.c |-> IF a.c[i].k \in Keys(b.c) THEN [k |-> a.c[i].k, v |-> a.c[i].v \o Get(b.c, a.c[i].k)] ELSE a.c[i]] \o OnlyB(a.c, b.c)
      uu == [i \in DOMAIN a.u |-> IF a.u[i].k \in Keys(b.u) THEN [k |-> a.u[i].k, v |-> a.u[i].v \o Get(b.u, a.u[i].k)] ELSE a.u[i]] \o OnlyB(a.u, b.u)
      mm == [i \in DOMAIN a.m |-> IF a.m[i].k \in Keys(b.m) THEN [k |-> a.m[i].k, r |-> MergeInst(a.m[i].v, Get(b.m, a.m[i].k))]
                                    ELSE [k |-> a.m[i].k, r |-> [bad |-> FALSE, v |-> a.m[i].v]]]
      dd == [i \in DOMAIN a.d |-> IF a.d[i].k \in Keys(b.d) THEN [k |-> a.d[i].k, r |-> MergeDict(a.d[i].v, Get(b.d, a.d[i].k))]
                                    ELSE [k |-> a.d[i].k, r |-> [bad |-> FALSE, v |-> a.d[i].v]]]
  IN [bad |-> sbad \/ (\E i \in DOMAIN mm : mm[i].r.bad) \/ (\E i \in DOMAIN dd : dd[i].r.bad),
      v |-> [s |-> sc, c |-> cc, u |-> uu,
             m |-> [i \in DOMAIN mm |-> [k |-> mm[i].k, v |-> mm[i].r.v]] \o OnlyB(a.m, b.m),
             d |-> [i \in DOMAIN dd |-> [k |-> dd[i].k, v |-> dd[i].r.v]] \o OnlyB(a.d, b.d)]]
\* equality of instances up to the order of fields / dictionary keys and the element order of Unite fields
RECURSIVE NormI(_)
NormI(x) == [s |-> {<<x.s[i].k, x.s[i].v>> : i \in DOMAIN x.s}, c |-> {<<x.c[i].k, x.c[i].v>> : i \in DOMAIN x.c},
             u |-> {<<x.u[i].k, ToSet(x.u[i].v)>> : i \in DOMAIN x.u}, m |-> {<<x.m[i].k, NormI(x.m[i].v)>> : i \in DOMAIN x.m},
             d |-> {<<x.d[i].k, {<<x.d[i].v[j].k, NormI(x.d[i].v[j].v)>> : j \in DOMAIN x.d[i].v}>> : i \in DOMAIN x.d}]
=============================================================================
