--------------------------------- MODULE Mesh ---------------------------------
(* C15.  Mesh handlers as data: a handler is [L, R, S] -- what it assigns to the left peer, the right peer and the session -- each a record
     [f : Seq([k, v])  single-valued fields (addr, asnum, mtu, bfd, ...) as key/value strings,   fam : Seq(family)  set-valued field]
   Handler application is an action (MC_Mesh explores every application order).
   P-layer (order-free): the data of all matching handlers is combined field by field; a single-valued field that receives two different
   values is a conflict (whatever the order); set-valued fields are united; a session field counts for both sides.                    *)
EXTENDS Naturals, Sequences, FiniteSets
ToSet(s) == {s[k] : k \in DOMAIN s}
\* all <<key, value>> assignments a handler makes to one side, session included
SideAssign(h, side) == ToSet(IF side = "L" THEN h.L.f ELSE h.R.f) \cup ToSet(h.S.f)
SideFam(h, side) == ToSet(IF side = "L" THEN h.L.fam ELSE h.R.fam) \cup ToSet(h.S.fam)
AllAssign(hs, side) == UNION {SideAssign(hs[i], side) : i \in DOMAIN hs}
Conflict(hs) == \E side \in {"L", "R"} : \E a, b \in AllAssign(hs, side) : a.k = b.k /\ a.v # b.v
ValueOf(hs, side, key) == LET S == {a \in AllAssign(hs, side) : a.k = key} IN IF S = {} THEN "" ELSE (CHOOSE a \in S : TRUE).v
Families(hs, side) == UNION {SideFam(hs[i], side) : i \in DOMAIN hs}

(* A-layer: sequential merging in application order (merge(DTO, peer, session) per handler, then merge of pairs) *)
MergeSide(acc, new) ==      \* acc, new : [f : set of <<k,v>> records, fam : set, bad : BOOLEAN]
  [f |-> acc.f \cup new.f, fam |-> acc.fam \cup new.fam,
   bad |-> acc.bad \/ new.bad \/ \E a \in acc.f, b \in new.f : a.k = b.k /\ a.v # b.v]
OneHandler(h, side) == [f |-> SideAssign(h, side), fam |-> SideFam(h, side), bad |-> \E a, b \in SideAssign(h, side) : a.k = b.k /\ a.v # b.v]
EmptySide == [f |-> {}, fam |-> {}, bad |-> FALSE]
=============================================================================
