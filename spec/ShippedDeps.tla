----------------------------- MODULE ShippedDeps -----------------------------
(* C08, shipped ordering rulebooks.  The statement quantifies over ordering rulebooks; the shipped *.order texts are the rulebooks users
   actually run, and their own comments say WHY a rule stands where it stands: an object is created before what refers to it and removed
   after it ("bfd is switched off after bgp but before vpn", "isis must come before the interfaces, else `isis enable 1` is impossible",
   "vlans are removed after vlanif/subif", "policy refers to behavior and classifier, those to the acls", ...).
   Each fact is such a documented dependency of the device, as two command rows of one patch: whenever both are in a patch, `first` is
   sent before `then`.  (Facts about the devices, written from the comments of huawei.order; not read off the rule positions.)       *)
EXTENDS Sequences, Naturals
W(a, b) == [first |-> a, then |-> b]
HuaweiDeps == <<
  W(<<"evpn-overlay", "enable">>, <<"ip", "vpn-instance", "V">>),                         \* evpn-overlay is declared before ip vpn-instance
  W(<<"undo", "bfd", "to_pe1">>, <<"undo", "ip", "vpn-instance", "V">>),                  \* bfd goes after bgp, but before the vpn
  W(<<"undo", "bgp">>, <<"undo", "bfd", "to_pe1">>),
  W(<<"isis", "1">>, <<"interface", "10GE1/0/1">>),                                        \* before the interfaces, else no `isis enable 1`
  W(<<"diffserv", "domain", "D">>, <<"interface", "10GE1/0/1">>),                          \* the interface refers to the diffserv domain
  W(<<"interface", "10GE1/0/1">>, <<"interface", "10GE1/0/1.100">>),                      \* sub-interfaces after their ports
  W(<<"interface", "10GE1/0/1">>, <<"ip", "route-static", "10.0.0.0", "8", "10.1.1.1">>), \* routes after interfaces
  W(<<"undo", "interface", "Vlanif100">>, <<"undo", "vlan", "batch", "100">>),            \* vlans are removed after vlanif / subif
  W(<<"acl", "number", "3000">>, <<"traffic", "classifier", "C">>),                        \* classifier and behavior refer to acls,
  W(<<"traffic", "classifier", "C">>, <<"traffic", "policy", "P">>),                       \* the policy to both
  W(<<"traffic", "behavior", "B">>, <<"traffic", "policy", "P">>),
  W(<<"mpls">>, <<"interface", "10GE1/0/1">>),                                             \* mpls globally first, then on interfaces
  W(<<"undo", "interface", "Eth-Trunk1.100">>, <<"undo", "interface", "Eth-Trunk1">>),     \* sub-interfaces are removed first
  W(<<"interface", "10GE1/0/1">>, <<"undo", "interface", "Eth-Trunk1">>),                  \* an eth-trunk only after its members were cleaned
  W(<<"interface", "10GE1/0/1">>, <<"undo", "drop-profile", "DP">>)                        \* a drop-profile only after the references to it
>>
Pos(cmds, row) == LET S == {k \in DOMAIN cmds : cmds[k] = row} IN IF S = {} THEN 0 ELSE CHOOSE k \in S : \A j \in S : k <= j
\* cmds: the top-level commands of the patch, in the order sent
DepVerdict(fact, cmds) ==
  LET a == Pos(cmds, fact.first) b == Pos(cmds, fact.then) IN
  IF a = 0 \/ b = 0 THEN "fact-not-exercised" ELSE IF a < b THEN "ok" ELSE "documented-dependency-order-broken"
=============================================================================
