------------------------------ MODULE Implicit ------------------------------
(* C17.  Implicit defaults.  An implicit rule is [pat (RuleLang tokens of its row), row (the default line, a word sequence), ign, kids];
   `ign` rules (written `!row`) only select blocks to descend into, they add nothing.
   P-layer: completion of a tree t:   at every level, for every non-ign rule, the default line is added iff t has no line matching the
   rule's pattern there (and the line is not already present); a default block comes with its own defaults; every line matching a rule
   is completed recursively with that rule's children.  Explicit lines are never changed or dropped.                                    *)
EXTENDS Rulebook

RECURSIVE Defaults(_, _)            \* what completion ADDS below a level (a tree)
Defaults(tree, rules) ==
  FlatSeq([k \in DOMAIN rules |->
     LET r == rules[k]
         hit == {i \in DOMAIN tree : M(r.pat, tree[i].row)}
     IN (IF ~r.ign /\ hit = {} /\ IdxOf(tree, r.row) = 0
         THEN << [row |-> r.row, kids |-> Defaults(<<>>, r.kids)] >> ELSE <<>>)
        \o FlatSeq([i \in DOMAIN tree |-> IF i \in hit THEN << [row |-> tree[i].row, kids |-> Defaults(tree[i].kids, r.kids)] >> ELSE <<>>])])
\* union of trees, first-seen order
RECURSIVE MergeT(_, _)
MergeT(t1, t2) ==
  IF t2 = <<>> THEN t1
  ELSE LET n == Head(t2) k == IdxOf(t1, n.row) IN
       MergeT(IF k = 0 THEN Append(t1, n) ELSE [t1 EXCEPT ![k].kids = MergeT(@, n.kids)], Tail(t2))
Complete(tree, rules) == MergeT(tree, Defaults(tree, rules))

RECURSIVE SubT(_, _)
SubT(t1, t2) == \A i \in DOMAIN t1 : IdxOf(t2, t1[i].row) # 0 /\ SubT(t1[i].kids, KidsOf(t2, t1[i].row))
=============================================================================
