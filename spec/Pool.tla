-------------------------------- MODULE Pool --------------------------------
(* C12.  annet.parallel.Parallel.irun (multi-process branch) + pool_worker, one action per primitive that the
   code performs on shared state (queue operation, process exit, exit-code read, hand-over of a result to the consumer).
   A-layer: the transitions below follow the code line by line (annet/parallel.py 104-202, 339-451).
   P-layer: the delivery properties at the bottom, stated without reference to how the loop works.

   Deviation switch  Drain : FALSE = the parent leaves its loop as soon as its worker table is empty
                             (`if not pool: break`, the pinned commit);
                             TRUE  = ... and the done queue is drained (`if not pool and done_queue.empty()`, the repair).

   ws[w]:  "idle"   about to task_queue.get()          "busy"   task taken, about to done_queue.put()
           "leave0" saw STOP, about to return          "leave9" quota reached, about to sys.exit(9)
           "exit0"/"exit9" process ended, exit code visible to the parent     "gone" reaped and removed
           "killed" terminated by the parent on the tolerate_fails=False path
   ppc:    "get" -> "check" (one exitcode read per pool entry, in name order) -> "yield"|"raise" -> "decide" -> "get"|"done" *)
EXTENDS Naturals, Sequences, FiniteSets
CONSTANTS N,          \* number of submitted ids 1..N
          W,          \* pool size (number of worker slots); the code uses min(parallel, N), callers pass W <= N, W >= 2
          MaxTasks,   \* per-process task quota (0 = unlimited)
          Raises,     \* set of ids whose task raises
          Tolerate,   \* tolerate_fails
          Drain
Ids == 1..N
Workers == 1..W
STOP == 0
VARIABLES taskQ, doneQ, ws, cnt, cur, pool, delivered, ppc, got, retired, toCheck
vars == <<taskQ, doneQ, ws, cnt, cur, pool, delivered, ppc, got, retired, toCheck>>

RECURSIVE SortedSeq(_)
SortedSeq(S) == IF S = {} THEN <<>> ELSE LET m == CHOOSE x \in S : \A y \in S : x <= y IN <<m>> \o SortedSeq(S \ {m})
SeqSet(s) == {s[i] : i \in DOMAIN s}

Init == /\ taskQ = [i \in 1..(N + W) |-> IF i <= N THEN i ELSE STOP]    \* ids, then one STOP per slot
        /\ doneQ = <<>> /\ ws = [w \in Workers |-> "idle"] /\ cnt = [w \in Workers |-> 0] /\ cur = [w \in Workers |-> 0]
        /\ pool = Workers /\ delivered = <<>> /\ ppc = "get" /\ got = 0 /\ retired = {} /\ toCheck = <<>>

(* ------------------------------------------------ worker ------------------------------------------------ *)
WGet(w) == /\ ws[w] = "idle" /\ taskQ # <<>>                              \* task_queue.get()
           /\ LET t == Head(taskQ) IN
              /\ taskQ' = Tail(taskQ)
              /\ IF t = STOP THEN ws' = [ws EXCEPT ![w] = "leave0"] /\ cur' = cur
                 ELSE ws' = [ws EXCEPT ![w] = "busy"] /\ cur' = [cur EXCEPT ![w] = t]
           /\ UNCHANGED <<doneQ, cnt, pool, delivered, ppc, got, retired, toCheck>>
WPut(w) == /\ ws[w] = "busy"                                               \* func(id) ran (ok or raised); done_queue.put(...)
           /\ doneQ' = Append(doneQ, cur[w]) /\ cnt' = [cnt EXCEPT ![w] = @ + 1]
           /\ ws' = [ws EXCEPT ![w] = IF MaxTasks # 0 /\ cnt[w] + 1 >= MaxTasks THEN "leave9" ELSE "idle"]
           /\ UNCHANGED <<taskQ, cur, pool, delivered, ppc, got, retired, toCheck>>
WExit(w) == /\ ws[w] \in {"leave0", "leave9"}                              \* return / sys.exit(9): exit code becomes visible
            /\ ws' = [ws EXCEPT ![w] = IF ws[w] = "leave0" THEN "exit0" ELSE "exit9"]
            /\ UNCHANGED <<taskQ, doneQ, cnt, cur, pool, delivered, ppc, got, retired, toCheck>>
Worker(w) == WGet(w) \/ WPut(w) \/ WExit(w)

(* ------------------------------------------------ parent ------------------------------------------------ *)
PGet == /\ ppc = "get"                                                     \* done_queue.get(True, 1): item, or Empty on timeout
        /\ IF doneQ # <<>> THEN got' = Head(doneQ) /\ doneQ' = Tail(doneQ) ELSE got' = 0 /\ doneQ' = doneQ
        /\ ppc' = "check" /\ toCheck' = SortedSeq(pool) /\ retired' = {}
        /\ UNCHANGED <<taskQ, ws, cnt, cur, pool, delivered>>
AfterCheck == IF got # 0 /\ got \in Raises /\ ~Tolerate THEN "raise" ELSE IF got # 0 THEN "yield" ELSE "decide"
Without(q, w) == SelectSeq(q, LAMBDA x : x # w)
PCheckW(w) == /\ ppc = "check" /\ w \in SeqSet(toCheck)                  \* _check_children: one `.exitcode` read per entry
              /\ toCheck' = Without(toCheck, w)
              /\ CASE ws[w] = "exit9" -> retired' = retired \cup {w} /\ pool' = pool /\ ws' = ws
                   [] ws[w] = "exit0" -> pool' = pool \ {w} /\ retired' = retired /\ ws' = [ws EXCEPT ![w] = "gone"]
                   [] OTHER -> UNCHANGED <<pool, retired, ws>>
              /\ ppc' = IF Without(toCheck, w) = <<>> THEN AfterCheck ELSE "check"
              /\ UNCHANGED <<taskQ, doneQ, cnt, cur, delivered, got>>
PCheck == toCheck # <<>> /\ PCheckW(Head(toCheck))                        \* the code reads them in dict (= name) order
PCheckNone == /\ ppc = "check" /\ toCheck = <<>>                           \* empty worker table: nothing to read
              /\ ppc' = AfterCheck
              /\ UNCHANGED <<taskQ, doneQ, ws, cnt, cur, pool, delivered, got, retired, toCheck>>
PYield == /\ ppc = "yield" /\ delivered' = Append(delivered, got) /\ ppc' = "decide"   \* result handed to the consumer
          /\ UNCHANGED <<taskQ, doneQ, ws, cnt, cur, pool, got, retired, toCheck>>
PRaise == /\ ppc = "raise"                                                 \* tolerate_fails=False: terminate workers, raise
          /\ ws' = [w \in Workers |-> IF ws[w] \in {"idle", "busy", "leave0", "leave9"} THEN "killed" ELSE ws[w]]
          /\ ppc' = "raised"
          /\ UNCHANGED <<taskQ, doneQ, cnt, cur, pool, delivered, got, retired, toCheck>>
CanBreak == pool = {} /\ (~Drain \/ doneQ = <<>>)
PStartW(w) == /\ ppc = "decide" /\ ~CanBreak /\ w \in retired             \* mp.Process(name).start() for a retired name
              /\ ws' = [ws EXCEPT ![w] = "idle"] /\ cnt' = [cnt EXCEPT ![w] = 0] /\ retired' = retired \ {w}
              /\ UNCHANGED <<taskQ, doneQ, cur, pool, delivered, got, toCheck, ppc>>
PDecide == /\ ppc = "decide"                                               \* `if not pool [and drained]: break`, else restart retired
           /\ \/ CanBreak /\ ppc' = "done" /\ UNCHANGED <<taskQ, doneQ, ws, cnt, cur, pool, delivered, got, retired, toCheck>>
              \/ ~CanBreak /\ retired = {} /\ ppc' = "get"
                           /\ UNCHANGED <<taskQ, doneQ, ws, cnt, cur, pool, delivered, got, retired, toCheck>>
              \/ retired # {} /\ PStartW(CHOOSE x \in retired : \A y \in retired : x <= y)      \* name order
Parent == PGet \/ PCheck \/ PCheckNone \/ PYield \/ PRaise \/ PDecide

Next == Parent \/ \E w \in Workers : Worker(w)
Spec == Init /\ [][Next]_vars
FairSpec == Spec /\ WF_vars(Parent) /\ \A w \in Workers : WF_vars(Worker(w))

(* ------------------------------------------------ P-layer ------------------------------------------------ *)
TypeOK == /\ ppc \in {"get", "check", "yield", "raise", "decide", "done", "raised"}
          /\ SeqSet(delivered) \subseteq Ids /\ SeqSet(doneQ) \subseteq Ids /\ pool \subseteq Workers
NoDup == \A i, j \in DOMAIN delivered : i # j => delivered[i] # delivered[j]           \* at most one outcome per id
OnlySubmitted == SeqSet(delivered) \subseteq Ids
AllDelivered == ppc = "done" => SeqSet(delivered) = Ids                                 \* exactly one outcome per id at return
RaiseJustified == ppc \in {"raise", "raised"} => (~Tolerate /\ got \in Raises)         \* irun raises only for a real failure
NoSilentFailure == ppc = "done" /\ ~Tolerate => Raises = {}                             \* ... and never swallows one
Terminates == <>(ppc \in {"done", "raised"})
=============================================================================
