-------------------------------- MODULE Annet --------------------------------
(* The composed per-device pipeline: annet's own algorithm (A-layers) run on the property oracles (P-layers).

     generators' output `new` (confined to the ACL: C10)          old = the device's configuration
        |                                                           |
        +--> apply_acl(new, acl)        apply_acl(old, acl) <-------+            AApplyAcl        (Acl.tla reading, one governing match)
                     \                     /
                      make_diff: apply_diff_rb, diff logics, apply_acl_diff, mark_unchanged        ADiff, AAclDiff, AMark   (Patcher.tla)
                                  |
                      make_pre, patch logics, make_patch (sorted), formatter.cmd_paths            APatch, APaths
                                  |
                      the device executes the command paths one by one                            ExecAll                   (Device.tla)

   ACL family of a rulebook R: sub-forests of R's own rule tree, every rule either deletable or protected (%cant_delete) -- slot-closed
   ACLs in which at most one rule matches a row, so the governing match is unique and the pipeline is a function.
   What must hold of the result is stated by the P-layers alone:
     C02: AclSafety.SafetyVerdict (commands inside the ACL, uncovered lines untouched, protected lines kept);
     C01 under an ACL: the covered part of the device converges to `new`, except for protected lines that `new` lacks.             *)
EXTENDS Patcher, AclSafety

\* the unique governing match of a row (ACL family: at most one rule matches)
AclGov(prefix, vis, row) == LET ms == Sel(prefix, vis, Matches(prefix, vis, row)) IN IF ms = {} THEN <<>> ELSE << CHOOSE m \in ms : TRUE >>
RECURSIVE AApplyAcl(_, _, _, _)
AApplyAcl(prefix, tree, loc, glo) ==                                              \* patching.apply_acl
  LET vis == AVisible(loc, glo) IN
  FlatSeq([i \in DOMAIN tree |->
     LET ms == Matches(prefix, vis, tree[i].row)  g == AclGov(prefix, vis, tree[i].row) IN
     IF g = <<>> \/ GovDrops(vis, g[1]) THEN <<>>
     ELSE << [row |-> tree[i].row, kids |-> AApplyAcl(prefix, tree[i].kids, GovDown(vis, ms, g[1]), InheritDown(loc, glo))] >>])
RECURSIVE AAclDiff(_, _, _, _, _)
AAclDiff(prefix, d, loc, glo, protect) ==                                         \* patching.apply_acl_diff (protect = FALSE: without its cant_delete branch)
  LET vis == AVisible(loc, glo) IN
  FlatSeq([i \in DOMAIN d |->
     LET ms == Matches(prefix, vis, d[i].row)  g == AclGov(prefix, vis, d[i].row) IN
     IF g = <<>> THEN <<>>
     ELSE << [d[i] EXCEPT !.op = IF @ = "removed" /\ vis[g[1][1]].cd /\ protect THEN "affected" ELSE @,
                          !.kids = AAclDiff(prefix, @, GovDown(vis, ms, g[1]), InheritDown(loc, glo), protect)] >>])

\* api._diff_and_patch with an ACL, followed by formatter.cmd_paths
APipelineP(RB, acl, old, new, protect) ==
  LET o == AApplyAcl(RB.prefix, old, acl, <<>>)
      n == AApplyAcl(RB.prefix, new, acl, <<>>)
      d == AMark(AAclDiff(RB.prefix, ADiff(o, n, RB.rules, <<>>, "affected", FALSE), acl, <<>>, protect))
  IN Dedup(APaths(RB.exit, APatch(RB.prefix, d), <<>>))
APipeline(RB, acl, old, new) == APipelineP(RB, acl, old, new, TRUE)

\* the ACL family of a rule tree; rules deeper than cdDepth are deletable
RECURSIVE AclFam(_, _, _)
AclFam(rules, depth, cdDepth) ==
  IF rules = <<>> THEN {<<>>}
  ELSE LET r == Head(rules)
           rest == AclFam(Tail(rules), depth, cdDepth)
           here == IF r.ign THEN {<<>>}
                   ELSE {<<>>} \cup { << [pat |-> r.pat, glob |-> r.glob, cd |-> c, gen |-> "g", kids |-> k] >> :
                                      c \in (IF depth <= cdDepth THEN BOOLEAN ELSE {FALSE}),
                                      k \in (IF r.glob THEN {<<>>} ELSE AclFam(r.kids, depth + 1, cdDepth)) }
       IN {h \o t : h \in here, t \in rest}
RECURSIVE NoProtected(_)
NoProtected(acl) == \A k \in DOMAIN acl : ~acl[k].cd /\ NoProtected(acl[k].kids)
=============================================================================
