------------------------------- MODULE Patcher -------------------------------
(* A-layer of C01/C02/C03: a transcription of annet's own algorithm, function by function, onto the data of Rulebook.tla:
     apply_diff_rb + call_diff_logic + base_diff / default_diff / ordered_diff / rewrite_diff + mark_unchanged   (ADiff, AMark)
     make_pre (grouping by raw rule and key)  +  the six patch logics of annlib/rulebook/common.py                  (AGroups, ALogic)
     make_patch (leaf/block decision, sort key (order, direct, raw_rule) with an empty ordering rulebook)          (APatch)
     formatter.cmd_paths of the block-exit formatters                                                                (ACmds)
   The transcription is NOT an oracle.  It has two uses:
     * MC_Converge executes it on the P-layer device (Device.tla) over full squares of Configs(R): the design converges;
     * Trace_Patcher compares it with what the real code emitted for the same inputs: a difference is reported as model drift
       (the code changed shape), never as a VIOLATION -- only the P-layer (Device/Differ) decides properties.
   A rule carries `rk`: the rank of its raw rule text (the last component of annet's sort key).  The drivers compute it from the
   rule text that annet compiled; inside TLC-only runs it is the catalogue position or its reverse (MC_Converge checks both). *)
EXTENDS Device, Differ, Integers, TLC

RECURSIVE DedupAcc(_, _)
DedupAcc(s, acc) == IF s = <<>> THEN acc
                    ELSE DedupAcc(Tail(s), IF \E i \in DOMAIN acc : acc[i] = Head(s) THEN acc ELSE Append(acc, Head(s)))
Dedup(s) == DedupAcc(s, <<>>)
\* stable sort of s by an integer key (K is a sequence of keys parallel to s)
ByKey(s, K) == LET idx == SortSeq([j \in DOMAIN s |-> j], LAMBDA a, b : K[a] < K[b] \/ (K[a] = K[b] /\ a < b))
               IN [j \in DOMAIN s |-> s[idx[j]]]

(* ------------------------------ _select_match ------------------------------ *)
\* children rules of a row: the children of EVERY matching local rule are merged (when the first match is a local rule);
\* a row governed by a %global rule has no local children rules
AKidLoc(loc, glo, row) ==
  LET vis == Visible(loc, glo)  k == RuleIdx(vis, row) IN
  IF k = 0 \/ vis[k].glob THEN <<>>
  ELSE FlatSeq([j \in DOMAIN vis |-> IF ~vis[j].glob /\ ~vis[j].ign /\ M(vis[j].pat, row) THEN vis[j].kids ELSE <<>>])

(* -------------------- make_diff: apply_diff_rb, call_diff_logic, base_diff -------------------- *)
OpRank(op) == CASE op = "added" -> 0 [] op = "affected" -> 1 [] op = "moved" -> 2 [] op = "removed" -> 3 [] OTHER -> 4
RECURSIVE ToMoved(_)
ToMoved(d) == [i \in DOMAIN d |-> [d[i] EXCEPT !.op = IF @ = "affected" THEN "moved" ELSE @, !.kids = ToMoved(@)]]

RECURSIVE ADiff(_, _, _, _, _, _)
RECURSIVE ABase(_, _, _, _, _, _, _)
\* call_diff_logic: rows are partitioned by the diff logic of their rule (first seen in old, then in new); each part is diffed alone
ADiff(old0, new0, loc, glo, pop, inRw) ==
  LET vis == Visible(loc, glo)
      old == SelectSeq(old0, LAMBDA n : Known(vis, n.row))          \* apply_diff_rb drops the rows no rule governs
      new == SelectSeq(new0, LAMBDA n : Known(vis, n.row))
      dl(n) == vis[RuleIdx(vis, n.row)].dl
      dls == Dedup([i \in DOMAIN old |-> dl(old[i])] \o [i \in DOMAIN new |-> dl(new[i])])
      part(t, g) == SelectSeq(t, LAMBDA n : dl(n) = g)
      one(g) == IF g = "rewrite"
                THEN LET d == ABase(part(old, g), part(new, g), loc, glo, pop, FALSE, TRUE) IN       \* rewrite_diff
                     IF inRw THEN d ELSE IF AllOp(d, "affected") THEN <<>> ELSE ToMoved(d)
                ELSE ABase(part(old, g), part(new, g), loc, glo, pop, g = "default", inRw)          \* default_diff / ordered_diff
  IN FlatSeq([j \in DOMAIN dls |-> one(dls[j])])

ABase(old, new, loc, glo, pop, m2a, inRw) ==
  LET vis == Visible(loc, glo)
      kg == InheritDown(loc, glo)
      item(op, row, kids) == LET k == RuleIdx(vis, row) IN
                             [op |-> op, row |-> row, kids |-> kids, rule |-> vis[k], key |-> Key(vis[k].pat, row)]
      rem == FlatSeq([i \in DOMAIN old |->
               IF old[i].row \in Rows(new) THEN <<>>
               ELSE << [k |-> (i - 1) * 8 + 3,
                        it |-> item("removed", old[i].row, ADiff(old[i].kids, <<>>, AKidLoc(loc, glo, old[i].row), kg, "removed", inRw))] >>])
      RECURSIVE Ops(_, _)                  \* block_in_disorder is sticky
      Ops(i, dis) == IF i > Len(new) THEN <<>> ELSE
                     LET row == new[i].row
                         isnew == row \notin Rows(old)
                         moved == ~isnew /\ (dis \/ IdxOf(old, row) # i)
                         op == IF isnew THEN "added" ELSE IF moved /\ ~m2a THEN "moved" ELSE pop
                     IN <<op>> \o Ops(i + 1, dis \/ isnew \/ moved)
      ops == Ops(1, FALSE)
      add == [i \in DOMAIN new |->
               [k |-> (i - 1) * 8 + OpRank(ops[i]),
                it |-> item(ops[i], new[i].row,
                            ADiff(KidsOf(old, new[i].row), new[i].kids, AKidLoc(loc, glo, new[i].row), kg, ops[i], inRw))]]
      all == rem \o add
      srt == ByKey(all, [j \in DOMAIN all |-> all[j].k])
  IN [j \in DOMAIN srt |-> srt[j].it]

RECURSIVE AMark(_)
AMark(d) == [i \in DOMAIN d |->
              IF d[i].op = "affected"
              THEN LET k == AMark(d[i].kids) IN
                   [d[i] EXCEPT !.kids = k, !.op = IF \A j \in DOMAIN k : k[j].op = "unchanged" THEN "unchanged" ELSE "affected"]
              ELSE d[i]]
AMakeDiff(RB, old, new) == AMark(ADiff(old, new, RB.rules, <<>>, "affected", FALSE))
\* the diff as the P-layer sees it (entries without the rule annotations)
RECURSIVE Bare(_)

Bare(d) == [i \in DOMAIN d |-> [op |-> d[i].op, row |-> d[i].row, kids |-> Bare(d[i].kids)]]

(* ------------------------------ the patch logics ------------------------------ *)
\* a yield of a logic function: [direct, row, sub] (sub = the children diff the row carries)
ADefault(prefix, rule, key, aff, add, mov, rem) ==
  IF aff # <<>> THEN << [direct |-> TRUE, row |-> aff[1].row, sub |-> aff[1].kids] >>
  ELSE IF add # <<>> THEN << [direct |-> TRUE, row |-> add[1].row, sub |-> add[1].kids] >>
  ELSE IF mov # <<>> THEN << [direct |-> TRUE, row |-> mov[1].row, sub |-> mov[1].kids] >>
  ELSE IF rem # <<>> THEN << [direct |-> FALSE, row |-> RevInst(rule.pat, prefix, key), sub |-> <<>>] >>
  ELSE <<>>
ALogic(prefix, rule, key, aff, add, mov, rem) ==
  CASE rule.logic = "ordered" ->
         (IF mov # <<>> THEN << [direct |-> FALSE, row |-> RevInst(rule.pat, prefix, key), sub |-> <<>>] >> ELSE <<>>)
           \o ADefault(prefix, rule, key, aff, add, mov, rem)
    [] rule.logic = "rewrite" ->
         IF rem = <<>> \/ add # <<>> \/ mov # <<>> \/ aff # <<>> THEN ADefault(prefix, rule, key, aff, add, mov, rem) ELSE <<>>
    [] rule.logic = "permanent" ->
         IF rem # <<>> THEN (IF rem[1].kids = <<>> THEN <<>> ELSE ADefault(prefix, rule, key, aff \o rem, add, mov, <<>>))
         ELSE ADefault(prefix, rule, key, aff, add, mov, rem)
    [] rule.logic = "ignore_changes" ->
         IF add # <<>> /\ rem # <<>> THEN <<>> ELSE ADefault(prefix, rule, key, aff, add, mov, rem)
    [] rule.logic = "undo_redo" ->
         IF add # <<>> /\ rem # <<>> /\ aff = <<>>
         THEN ADefault(prefix, rule, key, <<>>, <<>>, <<>>, rem) \o ADefault(prefix, rule, key, <<>>, add, <<>>, <<>>)
         ELSE ADefault(prefix, rule, key, aff, add, mov, rem)
    [] OTHER -> ADefault(prefix, rule, key, aff, add, mov, rem)

(* ------------------------------ make_pre + make_patch ------------------------------ *)
\* groups in the order of pre.items(): raw rules as first seen, inside a rule its keys as first seen
AGroups(d) ==
  LET rks == Dedup([i \in DOMAIN d |-> d[i].rule.rk])
      keysOf(rk) == LET es == SelectSeq(d, LAMBDA e : e.rule.rk = rk) IN Dedup([i \in DOMAIN es |-> es[i].key])
  IN FlatSeq([j \in DOMAIN rks |-> LET ks == keysOf(rks[j]) IN [m \in DOMAIN ks |-> <<rks[j], ks[m]>>]])

RECURSIVE APatch(_, _)
\* patch items [direct, row, block, kids]; sorted by (direct, raw rule) -- `order` is 0 throughout with an empty ordering rulebook
APatch(prefix, d) ==
  LET gs == AGroups(d)
      raw == FlatSeq([gi \in DOMAIN gs |->
               LET es == SelectSeq(d, LAMBDA e : e.rule.rk = gs[gi][1] /\ e.key = gs[gi][2])
                   rule == es[1].rule
                   b(op) == SelectSeq(es, LAMBDA e : e.op = op)
                   ys == ALogic(prefix, rule, gs[gi][2], b("affected"), b("added"), b("moved"), b("removed"))
               IN [j \in DOMAIN ys |->
                     LET kids == IF ys[j].sub = <<>> THEN <<>> ELSE APatch(prefix, ys[j].sub)
                         leaf == (kids = <<>> /\ rule.kids = <<>>) \/ ~ys[j].direct        \* attrs.parent = the rule has children
                     IN [direct |-> ys[j].direct, row |-> ys[j].row, block |-> ~leaf, kids |-> IF leaf THEN <<>> ELSE kids,
                         sk |-> (IF ys[j].direct THEN 100000 ELSE 0) + rule.rk]]])
  IN ByKey(raw, [j \in DOMAIN raw |-> raw[j].sk])

(* ------------------------------ formatter.cmd_paths ------------------------------ *)
RECURSIVE APaths(_, _, _)
APaths(exit, items, pfx) ==
  FlatSeq([i \in DOMAIN items |->
     << Append(pfx, items[i].row) >> \o
     (IF items[i].block
      THEN APaths(exit, items[i].kids, Append(pfx, items[i].row))
             \o (IF exit = "" THEN <<>> ELSE << pfx \o <<items[i].row, <<exit>>>> >>)
      ELSE <<>>)])
\* JuniperFormatter.cmd_paths: one flat line per leaf of the patch tree -- `set <path words>`, or `<negation word> <path words>` for a removal
\* (a block without children is a leaf too); a command is a path of ONE row holding all the words
RECURSIVE AFlat(_, _, _)
AFlat(prefix, items, prev) ==
  FlatSeq([i \in DOMAIN items |->
     IF items[i].block /\ items[i].kids # <<>> THEN AFlat(prefix, items[i].kids, prev \o items[i].row)
     ELSE LET row == items[i].row IN
          IF row[1] = prefix THEN << << <<prefix>> \o prev \o Tail(row) >> >> ELSE << << <<"set">> \o prev \o row >> >>])
IsFlat(RB) == "flat" \in DOMAIN RB /\ RB.flat
ACmdsOf(RB, d) == Dedup(IF IsFlat(RB) THEN AFlat(RB.prefix, APatch(RB.prefix, d), <<>>) ELSE APaths(RB.exit, APatch(RB.prefix, d), <<>>))
\* cmd_paths is a dict keyed by the path: a path sent twice is kept once, at its first position
ACmds(RB, old, new) == ACmdsOf(RB, AMakeDiff(RB, old, new))
=============================================================================
