---------------------------- MODULE DeploySession ----------------------------
(* C09.  A patch is a tree of items [row, block, kids] (block = the item opens a block, possibly empty).
   P-layer: the command stream handed to the deploy driver =  wrapper  +  body  +  wrapper, where the body is, command by
   command, in order and at the same nesting depth, what the operator was shown (block-exit commands included).
   A-layer: Flatten, a transcription of CommonFormatter / BlockExitFormatter.blocks_and_context with the vendor's exit words.  *)
EXTENDS Naturals, Sequences, FiniteSets, RuleLang

(* ------------------------------- A-layer: the formatter ------------------------------- *)
StartsW(row, ws) == Len(row) >= Len(ws) /\ SubSeq(row, 1, Len(ws)) = ws
\* exit word of a block (<<>> = none), by vendor class; prow = row of the enclosing block, isLast = the block is the last sibling
ExitOf(v, row, prow, isLast) ==
  CASE v = "common" -> <<>>
    [] v = "huawei" ->
         IF StartsW(row, <<"xpl", "route-filter">>) THEN <<"end-filter">>
         ELSE IF StartsW(row, <<"xpl">>) THEN <<"end-list">>
         ELSE IF StartsW(prow, <<"xpl", "route-filter">>) THEN
              (IF row[1] \in {"if", "elseif"} /\ row[Len(row)] = "then" /\ isLast THEN <<"endif">>
               ELSE IF row = <<"else">> THEN <<"endif">> ELSE <<>>)
         ELSE IF StartsW(row, <<"rsa", "peer-public-key">>) \/ StartsW(row, <<"dsa", "peer-public-key">>)
                 \/ StartsW(row, <<"public-key-code", "begin">>) THEN <<>>
         ELSE <<"quit">>
    [] v = "cisco" -> IF row[1] = "address-family" THEN <<"exit-address-family">> ELSE <<"exit">>
    [] v = "asr" ->
         IF row[1] \in {"prefix-set", "as-path-set", "community-set"} THEN <<"end-set">>
         ELSE IF row[1] = "if" /\ row[Len(row)] = "then" THEN <<"endif">>
         ELSE IF row[1] = "route-policy" THEN <<"end-policy">>
         ELSE <<"exit">>
    [] OTHER -> <<"exit">>          \* "exit": nexus, arista, aruba, b4com
\* note: inside an xpl route-filter the exit word is emitted at the depth of the block's siblings' children (block_wrapper is not used
\* for endif: it is yielded bare, i.e. at the depth of the block row itself)
ExitDepthBare(v, row, prow) == v = "huawei" /\ StartsW(prow, <<"xpl", "route-filter">>) /\ ~StartsW(row, <<"xpl">>)

RECURSIVE Flatten(_, _, _, _)
Flatten(v, items, depth, prow) ==
  FlatSeq([i \in DOMAIN items |->
     LET it == items[i] IN
     << [d |-> depth, row |-> it.row] >> \o
     (IF it.block THEN
        Flatten(v, it.kids, depth + 1, it.row) \o
        (LET e == ExitOf(v, it.row, prow, i = Len(items)) IN
         IF e = <<>> THEN <<>>
         ELSE << [d |-> IF ExitDepthBare(v, it.row, prow) THEN depth ELSE depth + 1, row |-> e] >>)
      ELSE <<>>)])

(* ------------------------------- P-layer ------------------------------- *)
\* command paths recovered from (depth,row) lines by the nesting they show
RECURSIVE PathsOf(_, _)
PathsOf(lines, stack) ==
  IF lines = <<>> THEN <<>>
  ELSE LET ln == Head(lines)
           st == SubSeq(stack, 1, ln.d) \o <<ln.row>>
       IN <<st>> \o PathsOf(Tail(lines), st)
NestingOK(lines) == /\ \A k \in DOMAIN lines : lines[k].d <= (IF k = 1 THEN 0 ELSE lines[k-1].d + 1)

\* body is embedded in sent, in order; returns the positions not used by the leftmost embedding (the wrapper positions) or <<-1>>
RECURSIVE Extra(_, _, _)
Extra(sent, body, k) ==
  IF body = <<>> THEN [j \in 1..(Len(sent) - k + 1) |-> k + j - 1]
  ELSE IF k > Len(sent) THEN <<0>>               \* 0 marks "body not embedded"
  ELSE IF sent[k].d = Head(body).d /\ sent[k].row = Head(body).row THEN Extra(sent, Tail(body), k + 1)
  ELSE <<k>> \o Extra(sent, body, k + 1)

EnterCmds  == {<<"system-view">>, <<"conf", "s">>, <<"configure", "exclusive">>, <<"conf", "t">>, <<"configure", "private">>, <<"etckeeper", "check">>}
CommitCmds == {<<"commit">>, <<"commit", "apply">>}
LeaveCmds  == {<<"q">>, <<"exit">>, <<"end">>, <<"abort">>}
SaveCmds   == {<<"save">>, <<"save", "force">>, <<"write", "memory">>, <<"write">>, <<"copy", "running-config", "startup-config">>}
WrapperCmds == EnterCmds \cup CommitCmds \cup LeaveCmds \cup SaveCmds
\* Device families that edit a CANDIDATE configuration (Huawei CE / NE on VRP8, Arista configure sessions, IOS-XR, Junos, Ribbon, Nokia,
\* Aruba Instant, OcNOS): what the session types takes effect only with the commit, so when committing is enabled the wrapper must hold a
\* commit command after the last command of the patch (a fact about the devices; which family a model belongs to is an input)
CommitSent(sent, extra, lastBody) == \E j \in DOMAIN extra : extra[j] > lastBody /\ sent[extra[j]].row \in CommitCmds

\* deploy rules: [pat, timeout, answers, kids]; the rule chain of a path, level by level (first = only match: disjoint siblings)
\* The clause is defined for paths whose every level is matched, and for top-level commands no rule matches (defaults); how an
\* unmatched intermediate level is treated is not fixed by the property (the code keeps matching against the same rule level).
\* A rule may be bound to contexts (%ifcontext=k:v,k:v,...): it applies to a command whose context (set by its patching rule) holds ANY of
\* the listed pairs; a rule that matches the row but not the context is passed over and the next rule of the level is tried.
CtxOK(rule, ctx) == rule.ifctx = <<>> \/ \E a \in DOMAIN rule.ifctx : \E b \in DOMAIN ctx : ctx[b] = rule.ifctx[a]
RECURSIVE FirstRuleCtx(_, _, _, _)
FirstRuleCtx(rules, row, ctx, k) == IF k > Len(rules) THEN 0
                                    ELSE IF Match(rules[k].pat, row, row, FALSE) /\ CtxOK(rules[k], ctx) THEN k ELSE FirstRuleCtx(rules, row, ctx, k + 1)
RECURSIVE ChainCtx(_, _, _)
ChainCtx(rules, path, ctx) == IF path = <<>> THEN <<>>
                              ELSE LET k == FirstRuleCtx(rules, Head(path), ctx, 1) IN
                                   IF k = 0 THEN <<0>> ELSE <<k>> \o ChainCtx(rules[k].kids, Tail(path), ctx)
ParamsDefined(rules, path, ctx) == LET ch == ChainCtx(rules, path, ctx) IN (\A k \in DOMAIN ch : ch[k] # 0) \/ Len(path) = 1
RuleFor(rules, path, ctx) ==
  LET ch == ChainCtx(rules, path, ctx) IN
  IF \E k \in DOMAIN ch : ch[k] = 0 THEN [timeout |-> 30, answers |-> <<>>]
  ELSE LET RECURSIVE Walk(_, _)
           Walk(rs, c) == IF Len(c) = 1 THEN rs[c[1]] ELSE Walk(rs[c[1]].kids, Tail(c))
           r == Walk(rules, ch)
       IN [timeout |-> r.timeout, answers |-> r.answers]
=============================================================================
