------------------------------ MODULE FrontEnds ------------------------------
(* C16.  The two front ends are two compositions of the same stages:
       device mode:  diff -> make_pre -> patch ; then strip_unchanged(diff) is what is shown
       file   mode:  diff -> strip_unchanged -> make_pre -> patch
   The property is an equality between the two outputs (P-layer: they must be equal, command by command and entry by entry).
   FirstDiff gives the position of the first difference for diagnostics / signatures.                                   *)
EXTENDS Naturals, Sequences
FirstDiff(a, b) ==
  LET n == IF Len(a) < Len(b) THEN Len(a) ELSE Len(b)
      D == {k \in 1..n : a[k] # b[k]}
  IN IF D # {} THEN CHOOSE k \in D : \A j \in D : k <= j
     ELSE IF Len(a) # Len(b) THEN n + 1 ELSE 0
(* The offline front end is reached through workers that READ THE TWO FILES (file_patch_worker): what they print for a pair of files must be
   the device-mode patch of the configurations those files hold NOW -- also when a file was rewritten in place since the last call --
   and an input on which one front end fails must make the other fail too (no front end turns an error into an empty patch).            *)
WorkerAgrees(workerLines, devLines) == workerLines = devLines
SameOutputs(fileCmds, devCmds, fileDiff, devDiff) == fileCmds = devCmds /\ fileDiff = devDiff

(* Design-level model of the two compositions (MC_FrontEnds).  A diff level is a sequence of entries [key, op, row] of ONE rule whose patch
   logic looks at the whole group of its key -- as the vendor logics for VLAN lists and prefix lists do: when the last line of a key goes
   away the logic sends one "remove the whole object" command, otherwise one command per changed line.
     Group(d, k)    the entries of key k (make_pre)
     Logic(g)       commands for one group
     Strip(d)       the entries that changed (strip_unchanged)
   Device mode groups the complete diff and strips afterwards for display; file mode must do the same.  StripFirst = TRUE is the
   composition file mode had before the repair (strip, then group): the logic no longer sees the unchanged lines of its key.         *)
Group(d, k) == SelectSeq(d, LAMBDA e : e.key = k)
KeysInOrder(d) == LET RECURSIVE go(_, _)
                      go(s, acc) == IF s = <<>> THEN acc
                                    ELSE go(Tail(s), IF \E i \in DOMAIN acc : acc[i] = Head(s).key THEN acc ELSE Append(acc, Head(s).key))
                  IN go(d, <<>>)
Strip(d) == SelectSeq(d, LAMBDA e : e.op # "unchanged")
Logic(g) ==
  LET rem == SelectSeq(g, LAMBDA e : e.op = "removed")  add == SelectSeq(g, LAMBDA e : e.op = "added")
      unch == SelectSeq(g, LAMBDA e : e.op = "unchanged")
  IN IF rem # <<>> /\ add = <<>> /\ unch = <<>> THEN << <<"undo-object", g[1].key>> >>
     ELSE [i \in DOMAIN rem |-> <<"undo-line", rem[i].key, rem[i].row>>] \o [i \in DOMAIN add |-> <<"line", add[i].key, add[i].row>>]
RECURSIVE CmdsOf(_, _)
CmdsOf(d, ks) == IF ks = <<>> THEN <<>> ELSE Logic(Group(d, Head(ks))) \o CmdsOf(d, Tail(ks))
DeviceMode(d) == [cmds |-> CmdsOf(d, KeysInOrder(d)), shown |-> Strip(d)]
FileMode(d, stripFirst) == LET g == IF stripFirst THEN Strip(d) ELSE d IN [cmds |-> CmdsOf(g, KeysInOrder(g)), shown |-> Strip(d)]
=============================================================================
