------------------------------ MODULE FrontEnds ------------------------------
(* C16.  The two front ends are two compositions of the same stages:
       device mode:  diff -> make_pre -> patch ; then strip_unchanged(diff) is what is shown
       file   mode:  diff -> strip_unchanged -> make_pre -> patch
   The property is an equality between the two outputs (P-layer: they must be equal, command by command and entry by entry).
   FirstDiff gives the position of the first difference for diagnostics / signatures.                                   *)
EXTENDS Naturals, Sequences
FirstDiff(a, b) ==
  LET n == IF Len(a) < Len(b) THEN Len(a) ELSE Len(b)
      D == {k \in 1..n : a[k] # b[k]}
  IN IF D # {} THEN CHOOSE k \in D : \A j \in D : k <= j
     ELSE IF Len(a) # Len(b) THEN n + 1 ELSE 0
(* The offline front end is reached through workers that READ THE TWO FILES (file_patch_worker): what they print for a pair of files must be
   the device-mode patch of the configurations those files hold NOW -- also when a file was rewritten in place since the last call --
   and an input on which one front end fails must make the other fail too (no front end turns an error into an empty patch).            *)
WorkerAgrees(workerLines, devLines) == workerLines = devLines
SameOutputs(fileCmds, devCmds, fileDiff, devDiff) == fileCmds = devCmds /\ fileDiff = devDiff
=============================================================================
