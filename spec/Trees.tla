------------------------------- MODULE Trees -------------------------------
(* Ordered configuration trees, the data model shared by every annet module (DESIGN.md 2.1).
   A tree is a sequence of nodes [row |-> R, kids |-> Tree]; the order of siblings is the order of
   annet's OrderedDict; rows are opaque values here (strings in Offside, word sequences elsewhere). *)
EXTENDS Naturals, Sequences, FiniteSets

Rows(tree) == {tree[i].row : i \in DOMAIN tree}

IdxOf(tree, row) ==      \* index of the node with that row, 0 if absent (rows are unique among siblings)
  LET S == {i \in DOMAIN tree : tree[i].row = row} IN IF S = {} THEN 0 ELSE CHOOSE i \in S : \A j \in S : i <= j

KidsOf(tree, row) == LET i == IdxOf(tree, row) IN IF i = 0 THEN <<>> ELSE tree[i].kids

\* Insert a path of rows; identical rows at the same place merge, new rows are appended (first-seen order).
RECURSIVE Insert(_, _)
Insert(tree, path) ==
  IF path = <<>> THEN tree
  ELSE LET r == Head(path)
           i == IdxOf(tree, r)
       IN IF i = 0 THEN Append(tree, [row |-> r, kids |-> Insert(<<>>, Tail(path))])
          ELSE [tree EXCEPT ![i].kids = Insert(@, Tail(path))]

\* Unordered view (set of <<row, unordered kids>>): equality "as unordered trees".
RECURSIVE Canon(_)
Canon(tree) == { <<tree[i].row, Canon(tree[i].kids)>> : i \in DOMAIN tree }

\* All root-to-node paths.
RECURSIVE Paths(_)
Paths(tree) ==
  UNION { {<<tree[i].row>>} \cup { <<tree[i].row>> \o p : p \in Paths(tree[i].kids) } : i \in DOMAIN tree }

RECURSIVE Size(_)
Size(tree) == IF tree = <<>> THEN 0 ELSE 1 + Size(Head(tree).kids) + Size(Tail(tree))

RECURSIVE Depth(_)
Depth(tree) == IF tree = <<>> THEN 0
               ELSE LET a == 1 + Depth(Head(tree).kids) b == Depth(Tail(tree)) IN IF a > b THEN a ELSE b

\* Sequence helpers (names chosen not to clash with CommunityModules)
DropAt(s, I) == LET keep == [i \in DOMAIN s |-> IF i \in I THEN <<>> ELSE <<s[i]>>]
                    F[k \in 0..Len(s)] == IF k = 0 THEN <<>> ELSE F[k-1] \o keep[k]
                IN F[Len(s)]
RECURSIVE FlatSeq(_)
FlatSeq(ss) == IF ss = <<>> THEN <<>> ELSE Head(ss) \o FlatSeq(Tail(ss))

\* t1 is an order-preserving subtree of t2
RECURSIVE IsSubseqTree(_, _)
IsSubseqTree(t1, t2) ==
  IF t1 = <<>> THEN TRUE
  ELSE IF t2 = <<>> THEN FALSE
  ELSE IF Head(t1).row = Head(t2).row
       THEN IsSubseqTree(Head(t1).kids, Head(t2).kids) /\ IsSubseqTree(Tail(t1), Tail(t2))
       ELSE IsSubseqTree(t1, Tail(t2))
=============================================================================
