---------------------------- MODULE RuleCatalog ----------------------------
(* The catalogue of synthetic rulebooks built from the rule language (property C01's quantifier) and the finite
   configuration domain Configs(R) of each.  A rule carries `inst`: a sequence of instance groups; a group is a sequence of
   alternative rows that all instantiate the rule with the SAME key (one slot on the device), so a configuration takes at most
   one row per group: "at most one row per (rule,key)".  `perm` asks for every sibling order of the chosen rows (%ordered).
   The catalogue is the single source: TLC emits it as JSON and the drivers render the rule text for annet from that.   *)
EXTENDS Rulebook
CONSTANTS Prefix,          \* the vendor's negation word (profile)
          PrefixX          \* a word that merely begins with it (`undox`, `notify`): must not be read as a negation

T(w) == Lit(w)
ST == [t |-> "star"]
TT == [t |-> "tilde"]
Rule(pat, logic, dl, inst, kids) ==
  [pat |-> pat, kids |-> kids, glob |-> FALSE, ign |-> FALSE, logic |-> logic, dl |-> dl, inst |-> inst, perm |-> FALSE, icase |-> FALSE]
Plain(pat, inst, kids) == Rule(pat, "default", "default", inst, kids)
Glob(r)  == [r EXCEPT !.glob = TRUE]
Ign(r)   == [r EXCEPT !.ign = TRUE]
Ord(r)   == [r EXCEPT !.logic = "ordered", !.dl = "ordered", !.perm = TRUE]
Rew(r)   == [r EXCEPT !.logic = "rewrite", !.dl = "rewrite", !.perm = TRUE]
Logic(r, l) == [r EXCEPT !.logic = l]
Icase(r) == [r EXCEPT !.icase = TRUE]      \* %ignore_case: concerns THIS rule's lines only (its instances here are lower-case, so folding changes nothing)

Catalog == <<
  [name |-> "flat", rules |-> <<
      Plain(<<T("a"), ST>>, << << <<"a","1">> >>, << <<"a","2">> >> >>, <<>>),
      Plain(<<T("b")>>, << << <<"b">>, <<"b","v1">>, <<"b","v2">> >> >>, <<>>),
      Plain(<<T("c"), TT>>, << << <<"c","p">> >>, << <<"c","p","q">> >> >>, <<>>),
      Plain(<<T("m"), ST, T("k"), ST>>, << << <<"m","1","k","1">> >>, << <<"m","1","k","2">>, <<"m","1","k","2","x">> >> >>, <<>>),
      Plain(<<T(PrefixX), ST>>, << << <<PrefixX,"1">> >> >>, <<>>) >>],
  [name |-> "nest", rules |-> <<
      Plain(<<T("a"), ST>>, << << <<"a","1">> >> >>, <<>>),
      Plain(<<T("blk"), ST>>, << << <<"blk","1">> >> >>, <<
          Plain(<<T("x"), ST>>, << << <<"x","1">>, <<"x","1","v1">> >>, << <<"x","2">> >> >>, <<>>),
          Plain(<<T("y")>>, << << <<"y">>, <<"y","w1">> >> >>, <<>>),
          Plain(<<T("sub"), ST>>, << << <<"sub","1">> >> >>, <<
              Plain(<<T("z"), ST>>, << << <<"z","1">> >>, << <<"z","2">> >> >>, <<>>) >>) >>) >>],
  [name |-> "logics", rules |-> <<
      Logic(Plain(<<T("b")>>, << << <<"b">>, <<"b","v1">>, <<"b","v2">> >> >>, <<>>), "undo_redo"),
      Logic(Plain(<<T("i")>>, << << <<"i">>, <<"i","v1">> >> >>, <<>>), "ignore_changes"),
      Logic(Plain(<<T("p"), ST>>, << << <<"p","1">> >> >>, <<
          Plain(<<T("q"), ST>>, << << <<"q","1">> >>, << <<"q","2">> >> >>, <<>>) >>), "permanent"),
      Logic(Plain(<<T("s"), ST>>, << << <<"s","1">> >>, << <<"s","2">> >> >>, <<>>), "permanent") >>],   \* permanent rows are key-determined (as `interface *`)
  [name |-> "logics-nested", rules |-> <<
      Plain(<<T("a"), ST>>, << << <<"a","1">> >> >>, <<>>),
      Plain(<<T("blk"), ST>>, << << <<"blk","1">> >> >>, <<
          Logic(Plain(<<T("b")>>, << << <<"b">>, <<"b","v1">> >> >>, <<>>), "undo_redo"),
          Logic(Plain(<<T("i")>>, << << <<"i">>, <<"i","v1">> >> >>, <<>>), "ignore_changes"),
          Logic(Plain(<<T("p"), ST>>, << << <<"p","1">> >> >>, <<
              Plain(<<T("q"), ST>>, << << <<"q","1">> >> >>, <<>>) >>), "permanent") >>) >>],
  [name |-> "ordered", rules |-> <<
      Plain(<<T("acl"), ST>>, << << <<"acl","1">> >> >>, <<
          Ord(Plain(<<T("rule"), ST>>, << << <<"rule","1">> >>, << <<"rule","2">> >>, << <<"rule","3">> >> >>, <<>>)),
          Plain(<<T("d")>>, << << <<"d">>, <<"d","v1">> >> >>, <<>>) >>) >>],
  [name |-> "ordered-blocks", rules |-> <<
      Plain(<<T("pm"), ST>>, << << <<"pm","1">> >> >>, <<
          Ord(Plain(<<T("class"), ST>>, << << <<"class","1">> >>, << <<"class","2">> >> >>, <<
              Plain(<<T("bw"), ST>>, << << <<"bw","1">>, <<"bw","1","x">> >>, << <<"bw","2">> >> >>, <<>>) >>)) >>) >>],
  [name |-> "rewrite", rules |-> <<
      Plain(<<T("a"), ST>>, << << <<"a","1">> >> >>, <<>>),
      Plain(<<T("rp"), ST>>, << << <<"rp","1">> >> >>, <<
          Glob(Rew(Plain(<<TT>>, << << <<"s1">> >>, << <<"s2">> >>, << <<"s3","t">> >> >>, <<>>))) >>) >>],
  [name |-> "catch-all", rules |-> <<
      Plain(<<T("a"), ST>>, << << <<"a","1">> >> >>, <<>>),
      Plain(<<T("blk"), ST>>, << << <<"blk","1">> >> >>, <<>>),
      Glob(Plain(<<T(Prefix), TT>>, << << <<Prefix,"n","1">> >> >>, <<>>)),
      Glob(Plain(<<TT>>, << << <<"g","1">> >>, << <<"g","2","k">> >> >>, <<>>)) >>],
  [name |-> "shared-prefix", rules |-> <<
      Plain(<<T("ip"), T("address"), ST>>, << << <<"ip","address","1">> >> >>, <<>>),
      Plain(<<T("ip"), T("route"), ST>>, << << <<"ip","route","1">> >>, << <<"ip","route","2">> >> >>, <<>>),
      Plain(<<T("ip"), T("mtu")>>, << << <<"ip","mtu">>, <<"ip","mtu","9">> >> >>, <<>>),
      Ign(Plain(<<T("ip"), T("secret"), TT>>, <<>>, <<>>)) >>],
  [name |-> "global-desc", rules |-> <<
      Glob(Plain(<<T("description")>>, << << <<"description">>, <<"description","foo">> >> >>, <<>>)),
      Plain(<<T("bgp")>>, << << <<"bgp">> >> >>, <<
          Plain(<<T("peer"), ST>>, << << <<"peer","1">> >> >>, <<
              Plain(<<T("as"), ST>>, << << <<"as","1">>, <<"as","1","x">> >> >>, <<>>) >>) >>) >>],
  [name |-> "ordered-rewrite", rules |-> <<
      Plain(<<T("ps"), ST>>, << << <<"ps","1">> >> >>, <<
          Ord(Plain(<<T("term"), ST>>, << << <<"term","a">> >>, << <<"term","b">> >> >>, <<
              Glob(Rew(Plain(<<TT>>, << << <<"s1">> >>, << <<"s2","t">> >> >>, <<>>))) >>)) >>) >>],
  [name |-> "iface", rules |-> <<                  \* rules protected by the built-in cant_delete default of ACLs (`interface...`)
      Plain(<<T("interface"), ST>>, << << <<"interface","1">> >>, << <<"interface","2">> >> >>, <<
          Plain(<<T("mtu")>>, << << <<"mtu">>, <<"mtu","9">> >> >>, <<>>),
          Plain(<<T("shutdown")>>, << << <<"shutdown">> >> >>, <<>>) >>),
      Plain(<<T("interfaces")>>, << << <<"interfaces">> >> >>, <<
          Plain(<<T("unit"), ST>>, << << <<"unit","0">> >>, << <<"unit","1">> >> >>, <<>>) >>),
      Plain(<<T("a"), ST>>, << << <<"a","1">> >> >>, <<>>) >>],
  [name |-> "rewrite-values", rules |-> <<         \* %rewrite lives inside a block (the block is what gets re-sent)
      Plain(<<T("rv"), ST>>, << << <<"rv","1">> >> >>, <<
          \* a re-sent block is governed by ONE %rewrite rule: rows of different rules are emitted in rule-text order, which an
          \* order-sensitive block cannot absorb (observation recorded in DESIGN.md)
          Rew(Plain(<<T("r"), ST>>, << << <<"r","1">>, <<"r","1","v1">> >>, << <<"r","2">> >>, << <<"r","3">> >> >>, <<>>)) >>),
      Plain(<<T("a"), ST>>, << << <<"a","1">> >> >>, <<>>) >>],
  [name |-> "overlap", rules |-> <<                \* one row described by a specific and by a general rule: their children rules unite
      Plain(<<T("blk"), T("1")>>, << << <<"blk","1">> >> >>, <<
          Plain(<<T("x"), ST>>, << << <<"x","1">> >>, << <<"x","2">> >> >>, <<>>) >>),
      Plain(<<T("blk"), ST>>, << << <<"blk","2">> >> >>, <<
          Plain(<<T("y")>>, << << <<"y">>, <<"y","w">> >> >>, <<>>),
          \* the general rule also has a rule for `x`, without a key: under `blk 1` the specific rule's keyed `x *` comes first and governs
          Plain(<<T("x")>>, <<>>, <<>>) >>) >>],
  [name |-> "rewrite-deep", rules |-> <<           \* a %rewrite rule over blocks: a change three levels down re-sends the whole block
      Plain(<<T("rd"), ST>>, << << <<"rd","1">> >> >>, <<
          Rew(Plain(<<T("r"), ST>>, << << <<"r","1">> >>, << <<"r","2">> >> >>, <<
              Plain(<<T("c"), ST>>, << << <<"c","1">> >> >>, <<
                  Plain(<<T("g"), ST>>, << << <<"g","1">> >>, << <<"g","2">> >> >>, <<>>) >>) >>)) >>) >>],
  [name |-> "icase-sibling", rules |-> <<          \* a case-insensitive rule next to an ordinary one whose lines differ in letter case only
      Plain(<<T("blk"), ST>>, << << <<"blk","1">> >> >>, <<
          Icase(Plain(<<T("ic"), ST>>, << << <<"ic","1">> >> >>, <<>>)),
          Plain(<<T("x"), ST>>, << << <<"x","A">> >>, << <<"x","a">> >>, << <<"x","b">> >> >>, <<>>) >>),
      Plain(<<T("top"), ST>>, << << <<"top","Q">> >>, << <<"top","q">> >> >>, <<>>) >>],
  [name |-> "ignore-exception", rules |-> <<       \* `!` exceptions written AFTER the general rule they carve out of, and a %global one above a local catch-all
      Plain(<<T("ip"), TT>>, << << <<"ip","a","1">> >>, << <<"ip","b">> >> >>, <<>>),
      Ign(Plain(<<T("ip"), T("secret"), TT>>, <<>>, <<>>)),
      Glob(Ign(Plain(<<T("secret"), TT>>, <<>>, <<>>))),
      Plain(<<T("blk"), ST>>, << << <<"blk","1">> >> >>, <<
          Plain(<<TT>>, << << <<"x","1">> >>, << <<"y">> >> >>, <<>>) >>) >>],
  [name |-> "rewrite-sandwich", rules |-> <<       \* %rewrite > ordinary rule > %rewrite again: the inner group is not the outermost rewrite
      Plain(<<T("rs"), ST>>, << << <<"rs","1">> >> >>, <<
          Rew(Plain(<<T("term"), ST>>, << << <<"term","1">> >> >>, <<
              Plain(<<T("from")>>, << << <<"from">>, <<"from","v1">> >> >>, <<>>),
              Plain(<<T("then")>>, << << <<"then">> >> >>, <<
                  Rew(Plain(<<T("set"), ST>>, << << <<"set","1">> >>, << <<"set","2">> >> >>, <<>>)) >>) >>)) >>) >>],
  [name |-> "slash-key", rules |-> <<              \* a placeholder with its own regex, `*/(e1/1|e1/2)/`: the regex (and the key) contain slashes
      Plain(<<T("port"), [t |-> "set", S |-> <<"e1/1", "e1/2">>, cap |-> TRUE]>>, << << <<"port","e1/1">> >>, << <<"port","e1/2">> >> >>, <<
          Plain(<<T("mtu")>>, << << <<"mtu">>, <<"mtu","9">> >> >>, <<>>) >>),
      Plain(<<T("a"), ST>>, << << <<"a","1">> >> >>, <<>>) >>],
  [name |-> "negated-form", rules |-> <<           \* rules written in the negated form whose next word begins with letters of the negation word
      Plain(<<T(Prefix), T("nx"), ST>>, << << <<Prefix,"nx","1">> >>, << <<Prefix,"nx","2">> >> >>, <<>>),      \* removal command: `nx 1`
      Plain(<<T("blk"), ST>>, << << <<"blk","1">> >> >>, <<
          Plain(<<T(Prefix), T("ox")>>, << << <<Prefix,"ox">> >> >>, <<>>) >>),
      Plain(<<T("a"), ST>>, << << <<"a","1">> >> >>, <<>>) >>]
>>

(* ------------------------------ Configs(R) ------------------------------ *)
Cat(A, B) == {a \o b : a \in A, b \in B}
RECURSIVE Perms(_)
Perms(s) == IF Len(s) <= 1 THEN {s}
            ELSE UNION { {<<s[i]>> \o p : p \in Perms(DropAt(s, {i}))} : i \in DOMAIN s }
RECURSIVE Level(_, _)
GroupOpts(rule, group, loc, glo) ==
  LET KidOpts(row) == IF rule.glob \/ Len(group) > 1 THEN {<<>>}     \* value-carrying rows and instances of %global rules are leaves here
                      ELSE LET kr == KidRules(Visible(loc, glo), row) IN      \* (block headers are key-determined)
                           IF kr = <<>> /\ InheritDown(loc, glo) = <<>> THEN {<<>>} ELSE Level(kr, InheritDown(loc, glo))
  IN {<<>>} \cup UNION { { <<[row |-> group[v], kids |-> kd]>> : kd \in KidOpts(group[v]) } : v \in DOMAIN group }
RECURSIVE GroupsOpts(_, _, _, _)
GroupsOpts(rule, groups, loc, glo) ==
  IF groups = <<>> THEN {<<>>} ELSE Cat(GroupOpts(rule, Head(groups), loc, glo), GroupsOpts(rule, Tail(groups), loc, glo))
RuleOpts(rule, loc, glo) ==
  LET base == GroupsOpts(rule, rule.inst, loc, glo) IN
  IF rule.perm THEN UNION {Perms(s) : s \in base} ELSE base
RECURSIVE LevelOf(_, _, _)
LevelOf(vis, loc, glo) == IF vis = <<>> THEN {<<>>} ELSE Cat(RuleOpts(Head(vis), loc, glo), LevelOf(Tail(vis), loc, glo))
\* rows of a block that holds inherited %global rules only appear where the block rule allows children (block rules with kids or none)
Level(loc, glo) == LevelOf(Visible(loc, glo), loc, glo)
Configs(R) == Level(R.rules, <<>>)

\* well-formedness of the catalogue itself (checked by MC_Cases as an ASSUME-like invariant)
RECURSIVE WF(_, _)
WF(loc, glo) ==
  LET vis == Visible(loc, glo) IN
  \A k \in DOMAIN vis : LET r == vis[k] IN
     /\ \A g \in DOMAIN r.inst : \A v \in DOMAIN r.inst[g] :
           /\ RuleIdx(vis, r.inst[g][v]) = k                                 \* the instance is governed by its own rule
           /\ Key(r.pat, r.inst[g][v]) = Key(r.pat, r.inst[g][1])            \* one group = one key
     /\ \A g, h \in DOMAIN r.inst : g # h => Key(r.pat, r.inst[g][1]) # Key(r.pat, r.inst[h][1])
     /\ (~r.glob => WF(r.kids, InheritDown(loc, glo)))
=============================================================================
