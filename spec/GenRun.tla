------------------------------- MODULE GenRun -------------------------------
(* C10.  A partial generator as a program: a sequence of operations
     [op |-> "y",  row]            yield one line (a string, or a tuple of tokens joined by blanks)
     [op |-> "ym", rows]           yield several lines in one multi-line string
     [op |-> "enter", row]         with self.block(...):
     [op |-> "enterif", row, cond] with self.block_if(..., condition=cond):       (cond false: no block, body still runs)
     [op |-> "enterdef", row, kinds] with self.block_if(t1, t2, ...): no explicit condition.  kinds[k] says what token k is:
                                   "w" a word, "int" a number (row[k] is its decimal text, e.g. unit 0), "none" None, "empty" "".
                                   The block is opened unless some token is None or the empty string -- a number, zero included,
                                   is a token like any other
     [op |-> "menter", rows]       with self.multiblock(b1, b2, ...):
     [op |-> "menterif", rows, cond, none]  with self.multiblock_if(b1, b2, ...[, condition=...]): cond = "true" / "false" (explicit) or
                                   "default" (no condition given: the blocks are opened unless one of them is None -- `none` says that
                                   a None stands among them); like block_if, a false condition runs the body without opening anything
     [op |-> "leave"]              end of the innermost with-statement
   P-layer: the MEANING of a program is the tree of yielded paths (block stack + line; a block header is a line of its own).
   A-layer: TreeGenerator's bookkeeping -- every line is stored with the concatenated indents of the open blocks, the text is then
   parsed with the offside rule (Offside.tla).                                                                                    *)
EXTENDS Offside, Acl

(* ------------------------------------ P ------------------------------------ *)
\* frames: stack of numbers = how many block levels the with-statement opened (0 for a false block_if)
Opens(o) == CASE o.op = "enterif" -> o.cond
             [] o.op = "enterdef" -> \A k \in DOMAIN o.kinds : o.kinds[k] \notin {"none", "empty"}
             [] o.op = "menterif" -> o.cond = "true" \/ (o.cond = "default" /\ ~o.none)
             [] OTHER -> TRUE
RECURSIVE Meaning(_, _, _, _)
Meaning(prog, stack, frames, tree) ==
  IF prog = <<>> THEN tree
  ELSE LET o == Head(prog) rest == Tail(prog) IN
    CASE o.op = "y"  -> Meaning(rest, stack, frames, Insert(tree, Append(stack, o.row)))
      [] o.op = "ym" -> LET RECURSIVE Ins(_, _)
                            Ins(t, rs) == IF rs = <<>> THEN t ELSE Ins(Insert(t, Append(stack, Head(rs))), Tail(rs))
                        IN Meaning(rest, stack, frames, Ins(tree, o.rows))
      [] o.op = "enter" -> Meaning(rest, Append(stack, o.row), Append(frames, 1), Insert(tree, Append(stack, o.row)))
      [] o.op \in {"enterif", "enterdef"} ->
           IF Opens(o) THEN Meaning(rest, Append(stack, o.row), Append(frames, 1), Insert(tree, Append(stack, o.row)))
           ELSE Meaning(rest, stack, Append(frames, 0), tree)
      [] o.op = "menterif" /\ ~Opens(o) -> Meaning(rest, stack, Append(frames, 0), tree)
      [] o.op \in {"menter", "menterif"} ->
           LET RECURSIVE Ins(_, _, _)
               Ins(t, st, rs) == IF rs = <<>> THEN <<t, st>> ELSE Ins(Insert(t, Append(st, Head(rs))), Append(st, Head(rs)), Tail(rs))
               r == Ins(tree, stack, o.rows)
           IN Meaning(rest, r[2], Append(frames, Len(o.rows)), r[1])
      [] OTHER -> \* leave
           IF frames = <<>> THEN Meaning(rest, stack, frames, tree)
           ELSE LET n == frames[Len(frames)] IN
                Meaning(rest, SubSeq(stack, 1, Len(stack) - n), SubSeq(frames, 1, Len(frames) - 1), tree)
Tree(prog) == Meaning(prog, <<>>, <<>>, <<>>)
\* a program is well bracketed: never leaves more than it entered (drivers close what is still open at the end)
RECURSIVE Balanced(_, _)
Balanced(prog, depth) == IF prog = <<>> THEN TRUE
                         ELSE LET o == Head(prog) IN
                              IF o.op \in {"enter", "enterif", "enterdef", "menter", "menterif"} THEN Balanced(Tail(prog), depth + 1)
                              ELSE IF o.op = "leave" THEN depth > 0 /\ Balanced(Tail(prog), depth - 1)
                              ELSE Balanced(Tail(prog), depth)

(* ------------------------------------ A ------------------------------------ *)
\* lines as TreeGenerator stores them: [ind, first, w]; indent unit 2 per open block
RECURSIVE Lines(_, _, _)
Lines(prog, ind, frames) ==
  IF prog = <<>> THEN <<>>
  ELSE LET o == Head(prog) rest == Tail(prog)
           L(r, i) == [ind |-> i, first |-> "x", w |-> r]
       IN
    CASE o.op = "y"  -> <<L(o.row, ind)>> \o Lines(rest, ind, frames)
      [] o.op = "ym" -> [k \in DOMAIN o.rows |-> L(o.rows[k], ind)] \o Lines(rest, ind, frames)
      [] o.op = "enter" -> <<L(o.row, ind)>> \o Lines(rest, ind + 2, Append(frames, 1))
      [] o.op \in {"enterif", "enterdef"} -> IF Opens(o) THEN <<L(o.row, ind)>> \o Lines(rest, ind + 2, Append(frames, 1))
                                              ELSE Lines(rest, ind, Append(frames, 0))
      [] o.op = "menterif" /\ ~Opens(o) -> Lines(rest, ind, Append(frames, 0))
      [] o.op \in {"menter", "menterif"} -> [k \in DOMAIN o.rows |-> L(o.rows[k], ind + 2 * (k - 1))] \o Lines(rest, ind + 2 * Len(o.rows), Append(frames, Len(o.rows)))
      [] OTHER -> IF frames = <<>> THEN Lines(rest, ind, frames)
                  ELSE Lines(rest, ind - 2 * frames[Len(frames)], SubSeq(frames, 1, Len(frames) - 1))
AParsed(prog) == P(Lines(prog, 0, <<>>), {"!", "#"})

(* ------------------------------ run of several generators ------------------------------ *)
\* union of trees, first-seen order (merge_dicts)
RECURSIVE Merge(_, _)
Merge(t1, t2) ==
  IF t2 = <<>> THEN t1
  ELSE LET n == Head(t2) k == IdxOf(t1, n.row) IN
       Merge(IF k = 0 THEN Append(t1, n) ELSE [t1 EXCEPT ![k].kids = Merge(@, n.kids)], Tail(t2))
RECURSIVE MergeAll(_)
MergeAll(ts) == IF ts = <<>> THEN <<>> ELSE Merge(Head(ts), MergeAll(Tail(ts)))
\* some row of the tree, at a place reached without competition, is deletable by two generators
RECURSIVE TwoOwners(_, _, _, _)
TwoOwners(prefix, tree, loc, glo) ==
  LET vis == AVisible(loc, glo) IN
  \E i \in DOMAIN tree :
     \/ Cardinality(Deleters(prefix, vis, tree[i].row)) > 1
     \* below a row the check goes on with the united children rules whenever EVERY match that may govern the row is a local rule matched
     \* directly (whichever of them governs, the row passes and hands down the children of all of them)
     \/ (LET ms == Matches(prefix, vis, tree[i].row) IN
         /\ ms # {}
         /\ \A m \in Sel(prefix, vis, ms) : m[2] = "direct" /\ ~vis[m[1]].glob
         /\ TwoOwners(prefix, tree[i].kids, MergedKids(vis, ms), InheritDown(loc, glo)))
RECURSIVE MaybeTwoOwners(_, _, _, _)      \* under the union of all children rules: if not even here, certainly no conflict
MaybeTwoOwners(prefix, tree, loc, glo) ==
  LET vis == AVisible(loc, glo) IN
  \E i \in DOMAIN tree :
     \/ Cardinality(Deleters(prefix, vis, tree[i].row)) > 1
     \/ MaybeTwoOwners(prefix, tree[i].kids, MergedKids(vis, Matches(prefix, vis, tree[i].row)), InheritDown(loc, glo))
=============================================================================
