------------------------------ MODULE Offside ------------------------------
(* C05.  Indented text -> tree.
   P-layer: the declarative offside rule.  A-layer: the indent-stack machine of
   annet.annlib.tabparser._filtered_lines/_stripped_indents/_stacked/parse_to_tree, one step per line.
   A *lexed line* is [ind |-> Nat, first |-> 1-char string or "", w |-> stripped text]; classification
   into row / skip (blank, comment) / reset ('#' in column 0 when '#' is a comment marker) is done HERE. *)
EXTENDS Naturals, Integers, Sequences, FiniteSets, Trees

Kind(ln, comments) ==
  IF "#" \in comments /\ ln.ind = 0 /\ ln.first = "#" THEN "reset"
  ELSE IF ln.first = "" \/ ln.first \in comments THEN "skip"
  ELSE "row"

(* ------------------------------- P: declarative rule -------------------------------
   chain = the lines [ind, w] on the path from the root to the previous content line (relative indents,
   strictly increasing).  A content line with relative indentation ind
     - is refused if ind < 0 (negative top indent),
     - is refused if it is a dedent (ind <= last) to a column no line of the chain started at,
     - otherwise its parent is the nearest preceding line with strictly smaller indentation:
       the chain is cut to the lines with indentation < ind and the line is appended.            *)
ERR == [err |-> TRUE, tree |-> <<>>]      \* outcome "ParserError"
RECURSIVE PParse(_, _, _, _, _)
PParse(lines, comments, base, chain, tree) ==
  IF lines = <<>> THEN [err |-> FALSE, tree |-> tree]
  ELSE LET ln == Head(lines) rest == Tail(lines) k == Kind(ln, comments) IN
    CASE k = "skip"  -> PParse(rest, comments, base, chain, tree)
      [] k = "reset" -> PParse(rest, comments, -1, <<>>, tree)
      [] OTHER ->
         LET b   == IF base = -1 THEN ln.ind ELSE base
             ind == ln.ind - b
         IN IF ind < 0 THEN ERR
            ELSE LET keep == SelectSeq(chain, LAMBDA c : c.ind < ind)
                     consistent == \/ chain = <<>>
                                   \/ ind > chain[Len(chain)].ind
                                   \/ \E j \in 1..Len(chain) : chain[j].ind = ind
                 IN IF ~consistent THEN ERR
                    ELSE LET nchain == Append(keep, [ind |-> ind, w |-> ln.w])
                         IN PParse(rest, comments, b, nchain, Insert(tree, [j \in 1..Len(nchain) |-> nchain[j].w]))
P(lines, comments) == PParse(lines, comments, -1, <<>>, <<>>)

(* ------------------------------- A: the code's machine -------------------------------
   state: indents (stack of increments), curr (current level), g (base or -1), stack (path), tree, err *)
RECURSIVE PopTo(_, _, _)
PopTo(indents, curr, level) ==   \* while curr_level > level and len(indents): curr_level -= indents.pop()
  IF curr > level /\ indents # <<>>
  THEN PopTo(SubSeq(indents, 1, Len(indents) - 1), curr - indents[Len(indents)], level)
  ELSE <<indents, curr>>

AStep(s, ln, comments) ==
  IF s.err THEN s
  ELSE LET k == Kind(ln, comments) IN
       CASE k = "skip"  -> s
         [] k = "reset" -> [s EXCEPT !.indents = <<>>, !.curr = 0, !.g = -1]
         [] OTHER ->
            LET g == IF s.g = -1 THEN ln.ind ELSE s.g
                level == ln.ind - g
            IN IF level < 0 THEN [s EXCEPT !.err = TRUE]
               ELSE LET r == IF level > s.curr THEN <<Append(s.indents, level - s.curr), level>>
                             ELSE IF level < s.curr THEN PopTo(s.indents, s.curr, level)
                             ELSE <<s.indents, s.curr>>
                    IN IF r[2] # level THEN [s EXCEPT !.err = TRUE]
                       ELSE LET lvl == Len(r[1]) + 1     \* _stacked: level += 1
                                stk == IF lvl > Len(s.stack) THEN Append(s.stack, ln.w)
                                       ELSE IF lvl = Len(s.stack) THEN [s.stack EXCEPT ![lvl] = ln.w]
                                       ELSE Append(SubSeq(s.stack, 1, lvl - 1), ln.w)
                            IN [s EXCEPT !.indents = r[1], !.curr = level, !.g = g, !.stack = stk,
                                         !.tree = Insert(s.tree, stk)]
A0 == [indents |-> <<>>, curr |-> 0, g |-> -1, stack |-> <<>>, tree |-> <<>>, err |-> FALSE]
AResult(s) == IF s.err THEN ERR ELSE [err |-> FALSE, tree |-> s.tree]
RECURSIVE ARun(_, _, _)
ARun(s, lines, comments) == IF lines = <<>> THEN s ELSE ARun(AStep(s, Head(lines), comments), Tail(lines), comments)
A(lines, comments) == AResult(ARun(A0, lines, comments))
=============================================================================
