--------------------------------- MODULE Rpl ---------------------------------
(* C14.  Shipped routing-policy generators.  P-layer clauses judged on the event stream / output of a real run:
   (1) every emitted line is covered by the generator's own ACL            (Acl.tla, in the trace spec)
   (2) the output text parses back to the block structure it was generated in (Offside.tla)
   (3) every named list a policy line refers to is defined, under the same name and kind, by the list generators fed the same inputs
       -- the vendor syntax (where a name sits in a referring line and in a defining line) is the table below
   (4) per condition/action: the machine  idle -> entered -> (emitted+ | error):  an error is legal only while nothing was emitted for it  *)
EXTENDS Naturals, Sequences, FiniteSets

StartsW(row, ws) == Len(row) >= Len(ws) /\ SubSeq(row, 1, Len(ws)) = ws
ToSet(s) == {s[k] : k \in DOMAIN s}
(* ---- clause 4: events are "start", "emit", "error", "end" ---- *)
RECURSIVE Machine(_, _)
Machine(evs, st) ==            \* st: "idle" | "clean" (entered, nothing emitted) | "dirty" (entered, emitted)
  IF evs = <<>> THEN "ok"
  ELSE LET e == Head(evs) IN
    CASE e = "start" -> IF st = "idle" THEN Machine(Tail(evs), "clean") ELSE "nested-start"
      [] e = "emit"  -> IF st = "idle" THEN Machine(Tail(evs), st) ELSE Machine(Tail(evs), "dirty")
      [] e = "end"   -> Machine(Tail(evs), "idle")
      [] e = "error" -> IF st = "dirty" THEN "error-after-lines-were-emitted" ELSE Machine(Tail(evs), "idle")
      [] OTHER -> "unknown-event"

(* ---- clause 3: reference / definition tables.  A table row: [pre (leading words), kind, skip (words between pre and the first name),
        many (all following words up to a stop word are names), stop (words that end the name list)] ---- *)
Tab(pre, kind, skip, many) == [pre |-> pre, kind |-> kind, skip |-> skip, many |-> many]
STOP == {"additive", "delete", "matches-all", "overwrite", "permit", "deny", "index", "regexp", "basic", "advanced", "seq"}
HuaweiRefs == << Tab(<<"if-match", "community-filter">>, "comm", 0, FALSE), Tab(<<"if-match", "extcommunity-filter">>, "ext", 0, FALSE),
                 Tab(<<"if-match", "extcommunity-list", "soo">>, "soo", 0, FALSE), Tab(<<"if-match", "large-community-filter">>, "large", 0, FALSE),
                 Tab(<<"if-match", "ip-prefix">>, "pl4", 0, FALSE), Tab(<<"if-match", "ipv6", "address", "prefix-list">>, "pl6", 0, FALSE),
                 Tab(<<"if-match", "as-path-filter">>, "asp", 0, FALSE), Tab(<<"if-match", "rd-filter">>, "rd", 0, FALSE),
                 Tab(<<"apply", "comm-filter">>, "comm", 0, FALSE), Tab(<<"apply", "extcommunity-filter", "rt">>, "ext", 0, FALSE) >>
HuaweiDefs == << Tab(<<"ip", "community-filter">>, "comm", 1, FALSE), Tab(<<"ip", "extcommunity-filter">>, "ext", 1, FALSE),
                 Tab(<<"ip", "extcommunity-list", "soo">>, "soo", 1, FALSE), Tab(<<"ip", "large-community-filter">>, "large", 1, FALSE),
                 Tab(<<"ip", "ip-prefix">>, "pl4", 0, FALSE), Tab(<<"ip", "ipv6-prefix">>, "pl6", 0, FALSE),
                 Tab(<<"ip", "as-path-filter">>, "asp", 0, FALSE), Tab(<<"ip", "rd-filter">>, "rd", 0, FALSE) >>
AristaRefs == << Tab(<<"match", "community">>, "comm", 0, TRUE), Tab(<<"match", "extcommunity">>, "ext", 0, TRUE),
                 Tab(<<"match", "large-community">>, "large", 0, TRUE),
                 Tab(<<"match", "ip", "address", "prefix-list">>, "pl4", 0, FALSE), Tab(<<"match", "ipv6", "address", "prefix-list">>, "pl6", 0, FALSE),
                 Tab(<<"match", "as-path">>, "asp", 0, FALSE),
                 Tab(<<"set", "community", "community-list">>, "comm", 0, TRUE), Tab(<<"set", "large-community", "large-community-list">>, "large", 0, TRUE) >>
AristaDefs == << Tab(<<"ip", "community-list">>, "comm", 0, FALSE), Tab(<<"ip", "extcommunity-list">>, "ext", 0, FALSE),
                 Tab(<<"ip", "large-community-list">>, "large", 0, FALSE),
                 Tab(<<"ip", "prefix-list">>, "pl4", 0, FALSE), Tab(<<"ipv6", "prefix-list">>, "pl6", 0, FALSE),
                 Tab(<<"ip", "as-path", "access-list">>, "asp", 0, FALSE) >>
\* FRR text of the cumulus generator (one stream: list definitions first, then route-maps whose body lines are indented by one blank)
CumulusRefs == << Tab(<<"match", "community">>, "comm", 0, FALSE), Tab(<<"match", "large-community-list">>, "large", 0, FALSE),
                  Tab(<<"match", "extcommunity">>, "ext", 0, FALSE),
                  Tab(<<"match", "ip", "address", "prefix-list">>, "pl4", 0, FALSE), Tab(<<"match", "ipv6", "address", "prefix-list">>, "pl6", 0, FALSE),
                  Tab(<<"match", "as-path">>, "asp", 0, FALSE), Tab(<<"set", "comm-list">>, "comm", 0, FALSE) >>
CumulusDefs == << Tab(<<"bgp", "community-list">>, "comm", 1, FALSE), Tab(<<"bgp", "extcommunity">>, "ext", 1, FALSE),
                  Tab(<<"bgp", "large-community-list">>, "large", 1, FALSE),
                  Tab(<<"ip", "prefix-list">>, "pl4", 0, FALSE), Tab(<<"ipv6", "prefix-list">>, "pl6", 0, FALSE),
                  Tab(<<"ip", "as-path", "access-list">>, "asp", 0, FALSE) >>
RefsOf(vendor) == CASE vendor = "huawei" -> HuaweiRefs [] vendor = "arista" -> AristaRefs [] OTHER -> CumulusRefs
DefsOf(vendor) == CASE vendor = "huawei" -> HuaweiDefs [] vendor = "arista" -> AristaDefs [] OTHER -> CumulusDefs
RECURSIVE NamesFrom(_, _)
NamesFrom(ws, many) == IF ws = <<>> \/ Head(ws) \in STOP THEN {} ELSE {Head(ws)} \cup (IF many THEN NamesFrom(Tail(ws), many) ELSE {})
\* `match as-path length ...` and `set as-path ...` are not references; `regexp` after a defining prefix is a modifier, not a name
Names(row, tab) ==
  UNION { IF StartsW(row, tab[k].pre) /\ Len(row) > Len(tab[k].pre) + tab[k].skip
          THEN LET rest == SubSeq(row, Len(tab[k].pre) + tab[k].skip + 1, Len(row))
                   rest2 == IF rest # <<>> /\ Head(rest) = "regexp" THEN Tail(rest) ELSE rest
               IN IF rest2 # <<>> /\ rest2[1] = "length" THEN {} ELSE { <<tab[k].kind, n>> : n \in NamesFrom(rest2, tab[k].many) }
          ELSE {} : k \in DOMAIN tab }
AllNames(rows, tab) == UNION {Names(rows[i], tab) : i \in DOMAIN rows}
=============================================================================
