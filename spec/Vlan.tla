--------------------------------- MODULE Vlan ---------------------------------
(* C11.  VLAN-list commands.  P-layer: the device holds a set S of VLAN ids; a command is [op, toks]
     op \in {"add", "del", "delall", "none", "set"}; toks = range tokens: numbers, with 0 between the two ends of a range (a 0 b = a..b).
   Executing the emitted commands on the old set must give exactly the new set, and no VLAN present in both sets may be missing at
   any intermediate moment.
   A-layer: annet.rulebook.huawei.vlandb._process_vlandb on lines abstracted to the sets they denote (buckets REMOVED / ADDED / UNCHANGED),
   with the switch Guard: FALSE = the pinned commit (the "removed, nothing added => undo ... all" shortcut ignores unchanged lines),
   TRUE = the repair (shortcut only when the key has no unchanged line).                                                             *)
EXTENDS Naturals, Integers, Sequences, FiniteSets

RECURSIVE Expand(_)
Expand(toks) ==
  IF toks = <<>> THEN {}
  ELSE IF Len(toks) >= 3 /\ toks[2] = 0 THEN (toks[1]..toks[3]) \cup Expand(SubSeq(toks, 4, Len(toks)))
  ELSE {toks[1]} \cup Expand(Tail(toks))
SetOf(lines) == UNION {Expand(lines[i]) : i \in DOMAIN lines}
Apply(S, c) == CASE c.op = "add" -> S \cup Expand(c.toks)
                 [] c.op = "del" -> S \ Expand(c.toks)
                 [] c.op = "delall" -> {}
                 [] c.op = "none" -> {}
                 [] c.op = "set" -> Expand(c.toks)
                 [] OTHER -> S
RECURSIVE Run(_, _, _)        \* <<final set, every intermediate set contains keep>>
Run(S, cmds, keep) == IF cmds = <<>> THEN <<S, TRUE>>
                      ELSE LET S2 == Apply(S, Head(cmds)) r == Run(S2, Tail(cmds), keep) IN <<r[1], (keep \subseteq S2) /\ r[2]>>
Judge(oldS, newS, cmds) ==
  LET res == Run(oldS, cmds, oldS \cap newS) IN
  IF res[1] # newS THEN "final-set-differs" ELSE IF ~res[2] THEN "common-vlan-removed-transiently" ELSE "ok"

(* ------------------------------- A-layer (huawei) on abstract lines ------------------------------- *)
\* a configuration of one key = a set of lines, each line the (non-empty) set of VLANs it lists; lines of one configuration are disjoint
AbsCmd(op, S) == [op |-> op, S |-> S]
AbsApply(S, c) == CASE c.op = "add" -> S \cup c.S [] c.op = "del" -> S \ c.S [] OTHER -> {}
HuaweiPatch(old, new, multiAll, Guard) ==
  LET removedL == old \ new  addedL == new \ old  unchangedL == old \cap new
      oldS == UNION removedL  newS == UNION addedL
      rem == oldS \ newS  add == newS \ oldS
  IN IF removedL # {} /\ addedL = {} /\ multiAll /\ (Guard => unchangedL = {}) THEN <<AbsCmd("delall", {})>>
     ELSE (IF rem # {} THEN <<AbsCmd("del", rem)>> ELSE <<>>) \o (IF add # {} THEN <<AbsCmd("add", add)>> ELSE <<>>)
RECURSIVE AbsRun(_, _, _)
AbsRun(S, cmds, keep) == IF cmds = <<>> THEN <<S, TRUE>>
                         ELSE LET S2 == AbsApply(S, Head(cmds)) r == AbsRun(S2, Tail(cmds), keep) IN <<r[1], (keep \subseteq S2) /\ r[2]>>
=============================================================================
