------------------------------- MODULE Differ -------------------------------
(* C03.  A diff is a sequence of entries [op, row, kids] with op \in {"added","removed","affected","moved","unchanged"}.
   P-layer: what "a faithful, lossless description of old versus new" means, stated on the diff alone.
   A-layer: transcription of apply_diff_rb / call_diff_logic / base_diff (default_diff, ordered_diff) / mark_unchanged. *)
EXTENDS Rulebook

(* ---------------------------------- P-layer ---------------------------------- *)
RECURSIVE ProjOld(_)
ProjOld(d) == FlatSeq([i \in DOMAIN d |-> IF d[i].op = "added" THEN <<>> ELSE << [row |-> d[i].row, kids |-> ProjOld(d[i].kids)] >>])
RECURSIVE ProjNew(_)
ProjNew(d) == FlatSeq([i \in DOMAIN d |-> IF d[i].op = "removed" THEN <<>> ELSE << [row |-> d[i].row, kids |-> ProjNew(d[i].kids)] >>])
RECURSIVE Strip(_)
Strip(d) == FlatSeq([i \in DOMAIN d |-> IF d[i].op = "unchanged" THEN <<>> ELSE << [d[i] EXCEPT !.kids = Strip(d[i].kids)] >>])
RECURSIVE AllOp(_, _)
AllOp(d, op) == \A i \in DOMAIN d : d[i].op = op /\ AllOp(d[i].kids, op)

DlOf(vis, row) == LET k == RuleIdx(vis, row) IN IF k = 0 THEN "none" ELSE vis[k].dl
SubseqDl(t, vis, dl) == SelectSeq([i \in DOMAIN t |-> t[i].row], LAMBDA r : DlOf(vis, r) = dl)

\* equality of two subtrees as the rulebook compares them: unordered, except that rows of %ordered rules keep their sequence
RECURSIVE SameTree(_, _, _, _)
SameTree(a, b, loc, glo) ==
  LET vis == Visible(loc, glo) IN
  /\ {a[i].row : i \in DOMAIN a} = {b[i].row : i \in DOMAIN b} /\ Len(a) = Len(b)
  /\ SubseqDl(a, vis, "ordered") = SubseqDl(b, vis, "ordered")
  /\ SubseqDl(a, vis, "rewrite") = SubseqDl(b, vis, "rewrite")
  /\ \A i \in DOMAIN a : SameTree(a[i].kids, KidsOf(b, a[i].row), KidRules(vis, a[i].row), InheritDown(loc, glo))

(* Faithful(d, old, new, loc, glo) returns "ok" or the name of the first violated clause.  old/new are the raw trees. *)
RECURSIVE Faithful(_, _, _, _, _, _)
Faithful(d, old0, new0, loc, glo, pop) ==      \* pop = op of the enclosing entry ("affected" at the top)
  LET vis == Visible(loc, glo)
      old == SelectSeq(old0, LAMBDA n : Known(vis, n.row))
      new == SelectSeq(new0, LAMBDA n : Known(vis, n.row))
      drows == {d[i].row : i \in DOMAIN d}
      \* a %rewrite group that did not change at all is reported not at all (the block is re-sent whole or not at all)
      rwOld == SelectSeq(old, LAMBDA n : DlOf(vis, n.row) = "rewrite")
      rwNew == SelectSeq(new, LAMBDA n : DlOf(vis, n.row) = "rewrite")
      \* -- but only inside a block that itself stays: under a moved/added/removed block the body must be listed
      rwSilent == /\ pop \in {"affected", "unchanged"}
                  /\ ~\E i \in DOMAIN d : DlOf(vis, d[i].row) = "rewrite"
                  /\ rwOld # <<>> /\ SameTree(rwOld, rwNew, loc, glo)
      oldX == IF rwSilent THEN SelectSeq(old, LAMBDA n : DlOf(vis, n.row) # "rewrite") ELSE old
      newX == IF rwSilent THEN SelectSeq(new, LAMBDA n : DlOf(vis, n.row) # "rewrite") ELSE new
      po == ProjOld(d)  pn == ProjNew(d)
      kidv(i) == LET kl == KidRules(vis, d[i].row) kg == InheritDown(loc, glo) IN
                 CASE d[i].op = "added"   -> IF AllOp(d[i].kids, "added") THEN Faithful(d[i].kids, <<>>, KidsOf(new, d[i].row), kl, kg, "added") ELSE "child-of-added-not-added"
                   [] d[i].op = "removed" -> IF AllOp(d[i].kids, "removed") THEN Faithful(d[i].kids, KidsOf(old, d[i].row), <<>>, kl, kg, "removed") ELSE "child-of-removed-not-removed"
                   [] OTHER -> Faithful(d[i].kids, KidsOf(old, d[i].row), KidsOf(new, d[i].row), kl, kg, d[i].op)
      badkids == {i \in DOMAIN d : kidv(i) # "ok"}
      \* MOVED clause, %ordered rules: present in both and its predecessors (within the ordered rows) changed
      oo == SubseqDl(old, vis, "ordered")  no == SubseqDl(new, vis, "ordered")
      Pos(s, r) == CHOOSE k \in DOMAIN s : s[k] = r
      movedRef(r) == SubSeq(no, 1, Pos(no, r) - 1) # SubSeq(oo, 1, Pos(oo, r) - 1)
      unchangedOK(i) == d[i].op = "unchanged" =>
                           /\ d[i].row \in Rows(old) /\ d[i].row \in Rows(new)
                           /\ SameTree(Restrict(KidsOf(old, d[i].row), KidRules(vis, d[i].row), InheritDown(loc, glo)),
                                       Restrict(KidsOf(new, d[i].row), KidRules(vis, d[i].row), InheritDown(loc, glo)),
                                       KidRules(vis, d[i].row), InheritDown(loc, glo))
  IN
  IF Cardinality(drows) # Len(d) THEN "duplicate-entry"
  ELSE IF \E i \in DOMAIN d : ~Known(vis, d[i].row) THEN "entry-for-unknown-row"
  ELSE IF \E i \in DOMAIN d : d[i].op = "added" /\ d[i].row \in Rows(old) THEN "added-but-present-in-old"
  ELSE IF \E i \in DOMAIN d : d[i].op = "removed" /\ d[i].row \in Rows(new) THEN "removed-but-present-in-new"
  ELSE IF {po[i].row : i \in DOMAIN po} # {oldX[i].row : i \in DOMAIN oldX} THEN "old-not-reconstructible"
  ELSE IF {pn[i].row : i \in DOMAIN pn} # {newX[i].row : i \in DOMAIN newX} THEN "new-not-reconstructible"
  ELSE IF SubseqDl(pn, vis, "ordered") # SubseqDl(newX, vis, "ordered") THEN "ordered-rows-out-of-order"
  ELSE IF SubseqDl(pn, vis, "rewrite") # SubseqDl(newX, vis, "rewrite") THEN "rewrite-rows-out-of-order"
  ELSE IF \E i \in DOMAIN d : ~unchangedOK(i) THEN "unchanged-but-differs"
  ELSE IF \E i \in DOMAIN d : DlOf(vis, d[i].row) = "ordered" /\ d[i].row \in Rows(old) /\ d[i].row \in Rows(new)
                               /\ ((d[i].op = "moved") # movedRef(d[i].row)) THEN "moved-flag-wrong"
  ELSE IF badkids # {} THEN kidv(CHOOSE i \in badkids : TRUE)
  ELSE "ok"

\* comparing a configuration with itself reports no change at any depth
RECURSIVE NoChange(_)
NoChange(d) == \A i \in DOMAIN d : d[i].op = "unchanged" /\ NoChange(d[i].kids)

(* signed text view: entry -> [sign, row]; lines are judged with the offside rule (Offside.tla) *)
Sign(op) == CASE op = "removed" -> "-" [] op = "added" -> "+" [] op = "moved" -> ">" [] OTHER -> " "
RECURSIVE Signed(_)
Signed(d) == [i \in DOMAIN d |-> [row |-> [sign |-> Sign(d[i].op), row |-> d[i].row], kids |-> Signed(d[i].kids)]]
RECURSIVE Bag(_)          \* per-level multiset view (sets of <<entry, count>>), nesting kept
Bag(t) == LET E == {<<t[i].row, Bag(t[i].kids)>> : i \in DOMAIN t} IN
          {<<e, Cardinality({i \in DOMAIN t : <<t[i].row, Bag(t[i].kids)>> = e})>> : e \in E}
=============================================================================
