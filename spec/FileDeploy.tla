----------------------------- MODULE FileDeploy -----------------------------
(* C19.  File-based devices.  An Entire generator is [path, prio, out, reload, safe]; prios of one path are distinct.
   P-layer (order-free): the content planned for a path comes from the highest-priority generator of that path; a file is uploaded
   exactly when that content differs from the device's content (or reload is forced); the uploaded bytes are the content; its reload
   command is attached only when reloads are enabled; the shown file diff is empty exactly when the contents are equal.
   A-layer: add_entire applied to the generators in listing order (keep the first, replace on greater prio).                        *)
EXTENDS Naturals, Sequences, FiniteSets

PathsOf(gens) == {gens[i].path : i \in DOMAIN gens}
Winner(gens, p) == CHOOSE i \in DOMAIN gens : gens[i].path = p /\ \A j \in DOMAIN gens : gens[j].path = p => gens[j].prio <= gens[i].prio
Planned(gens) == [p \in PathsOf(gens) |-> gens[Winner(gens, p)]]
\* the plan in safe mode: the winners that declare themselves safe (a path whose winner is not safe is not planned at all)
SafePaths(gens) == {p \in PathsOf(gens) : Planned(gens)[p].safe}
\* A generator may decline a device (supports_device(), a hook a subclass may override independently of path()): it then takes no part
\* in that device's plan, whatever path it names.  Records carry `supports`; the plan is made of the taking-part generators only.
Active(gens) == SelectSeq(gens, LAMBDA g : g.supports)
\* A-layer: sequential add_entire
RECURSIVE Fold(_, _)
Fold(gens, acc) ==
  IF gens = <<>> THEN acc
  ELSE LET g == Head(gens) IN
       Fold(Tail(gens), IF g.path \notin DOMAIN acc \/ g.prio > acc[g.path].prio
                        THEN [p \in (DOMAIN acc) \cup {g.path} |-> IF p = g.path THEN g ELSE acc[p]] ELSE acc)
Empty == [p \in {} |-> 0]
\* what must be uploaded: old = function path -> content for the files the device has
MustUpload(gens, old, force) == {p \in PathsOf(gens) : force \/ p \notin DOMAIN old \/ old[p] # Planned(gens)[p].out}
=============================================================================
