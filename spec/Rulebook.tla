------------------------------ MODULE Rulebook ------------------------------
(* Patching rulebooks as data (DESIGN.md 2.1) and the rule that governs a configuration row.
   RB   == [prefix |-> negation word, exit |-> block-exit word or "", rules |-> Seq(Rule)]
   Rule == [pat (RuleLang tokens), kids |-> Seq(Rule), glob, ign (a `!` rule), logic, dl (diff logic), ...]
   logic \in {"default","ordered","rewrite","undo_redo","permanent","ignore_changes"};  dl \in {"default","ordered","rewrite"} *)
EXTENDS RuleLang

M(p, row) == Match(p, row, row, FALSE)

Globals(rules) == SelectSeq(rules, LAMBDA r : r.glob)
Locals(rules)  == SelectSeq(rules, LAMBDA r : ~r.glob)
\* rules visible at a level: its own local rules, its own %global rules, then the %global rules inherited from above
Visible(loc, glo) == Locals(loc) \o Globals(loc) \o glo
InheritDown(loc, glo) == Globals(loc) \o glo

RECURSIVE FirstIdx(_, _, _)
FirstIdx(vis, row, k) == IF k > Len(vis) THEN 0 ELSE IF M(vis[k].pat, row) THEN k ELSE FirstIdx(vis, row, k + 1)
\* index (in vis) of the rule governing the row; 0 = the rulebook does not know the row (no rule, or an ignore rule matches)
RuleIdx(vis, row) ==
  IF \E k \in DOMAIN vis : vis[k].ign /\ M(vis[k].pat, row) THEN 0 ELSE FirstIdx(vis, row, 1)
Known(vis, row) == RuleIdx(vis, row) # 0
\* rules for the children of a row: when the governing rule is a local one, the children rules of EVERY local rule matching the row,
\* united in rule order (a row may be described by a specific and by a general rule at once); a %global rule hands down nothing of its own
KidRules(vis, row) ==
  LET k == RuleIdx(vis, row) IN
  IF k = 0 \/ vis[k].glob THEN <<>>
  ELSE FlatSeq([j \in DOMAIN vis |-> IF ~vis[j].glob /\ ~vis[j].ign /\ M(vis[j].pat, row) THEN vis[j].kids ELSE <<>>])
\* the slot a row occupies on a device that holds one line per rule and key
Slot(vis, row) == LET k == RuleIdx(vis, row) IN IF k = 0 THEN <<0>> ELSE <<k, Key(vis[k].pat, row)>>

\* restriction of a tree to the rows the rulebook knows (old|R of property C03)
RECURSIVE Restrict(_, _, _)
Restrict(tree, loc, glo) ==
  LET vis == Visible(loc, glo) IN
  FlatSeq([i \in DOMAIN tree |->
     IF Known(vis, tree[i].row)
     THEN << [row |-> tree[i].row, kids |-> Restrict(tree[i].kids, KidRules(vis, tree[i].row), InheritDown(loc, glo))] >>
     ELSE <<>>])
=============================================================================
