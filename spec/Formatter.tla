------------------------------ MODULE Formatter ------------------------------
(* C04.  Vendor text <-> configuration tree.
   P-layer: parse(join_v(t)) = t (same rows, nesting, order) and join_v(parse(s)) = s for s = join_v(t'): an identity between outputs of the
   implementation; TLA+ contributes the enumerated domain, the judge, and -- for the indentation family -- an independent oracle for the
   text itself: the offside parser of Offside.tla applied to the lexed lines of the REAL text must give t.
   A-layer (indentation family, CommonFormatter.join): pre-order listing, indentation = depth * unit.                                  *)
EXTENDS Offside
RECURSIVE IndentLines(_, _, _)
IndentLines(tree, depth, unit) ==
  FlatSeq([i \in DOMAIN tree |->
     << [ind |-> depth * unit, first |-> "x", w |-> tree[i].row] >> \o IndentLines(tree[i].kids, depth + 1, unit)])
RoundTripOnModel(tree, unit) == LET p == P(IndentLines(tree, 0, unit), {}) IN ~p.err /\ p.tree = tree
=============================================================================
