--------------------------------- MODULE Acl ---------------------------------
(* C02 / C06 / C10.  ACLs as data: a sequence of rules [pat, kids, glob, cd, gen]
     cd  = the rule's cant_delete flag (explicit, or the built-in default: first word is `interface`)
     gen = name of the generator the rule comes from (several generators' ACLs are simply concatenated)
   P-layer ("what covered means"), independent of how annet selects one governing rule:
     CoveredSome(path)  : some chain of rules (local or inherited %global, direct or negated form) matches level by level
     Upper(t)           : rows of t whose whole path is CoveredSome                     (nothing else may pass)
     Lower(t)           : rows whose path is covered with NO competition at any level   (these must pass)
   A %global rule covers the entire subtree below the row it matches: it is inherited by every level below.              *)
EXTENDS Rulebook

AM(prefix, r, row, form) == IF form = "direct" THEN M(r.pat, row) ELSE M(RevPattern(r.pat, prefix), row)
\* the matches of a row at a level: set of <<index in vis, form>>
Matches(prefix, vis, row) == {<<k, f>> \in (DOMAIN vis) \X {"direct", "reverse"} : AM(prefix, vis[k], row, f)}
AVisible(loc, glo) == Locals(loc) \o Globals(loc) \o glo
\* children rules below a match: only a LOCAL rule matched DIRECTLY hands its children down; %global rules are inherited anyway
ADownLoc(vis, m) == IF ~vis[m[1]].glob /\ m[2] = "direct" THEN vis[m[1]].kids ELSE <<>>

RECURSIVE CoveredSome(_, _, _, _)
CoveredSome(prefix, path, loc, glo) ==
  LET vis == AVisible(loc, glo) ms == Matches(prefix, vis, Head(path)) IN
  /\ ms # {}
  /\ (Len(path) > 1 => \E m \in ms : CoveredSome(prefix, Tail(path), ADownLoc(vis, m), InheritDown(loc, glo)))

\* rules with the same pattern and locality are one rule (annet unites them): competition = matches by really different rules / forms
SameRule(a, b) == a.pat = b.pat /\ a.glob = b.glob
Competing(prefix, vis, row) ==
  LET ms == Matches(prefix, vis, row) IN \E m, n \in ms : m[2] # n[2] \/ ~SameRule(vis[m[1]], vis[n[1]])
AllCantDelete(vis, ms) == \A m \in ms : vis[m[1]].cd
\* merged children of all same-rule direct local matches
MergedKids(vis, ms) == FlatSeq([k \in DOMAIN vis |-> IF \E m \in ms : m[1] = k /\ m[2] = "direct" /\ ~vis[k].glob THEN vis[k].kids ELSE <<>>])

RECURSIVE Upper(_, _, _, _)
Upper(prefix, tree, loc, glo) ==
  LET vis == AVisible(loc, glo) IN
  FlatSeq([i \in DOMAIN tree |->
     LET ms == Matches(prefix, vis, tree[i].row) IN
     IF ms = {} THEN <<>>
     ELSE << [row |-> tree[i].row, kids |-> Upper(prefix, tree[i].kids, MergedKids(vis, ms), InheritDown(loc, glo))] >>])
RECURSIVE Lower(_, _, _, _)
Lower(prefix, tree, loc, glo) ==
  LET vis == AVisible(loc, glo) IN
  FlatSeq([i \in DOMAIN tree |->
     LET ms == Matches(prefix, vis, tree[i].row) IN
     IF ms = {} \/ Competing(prefix, vis, tree[i].row) THEN <<>>
     ELSE IF (\A m \in ms : m[2] = "reverse") /\ AllCantDelete(vis, ms) THEN <<>>      \* negated form of a protected rule: not passed
     ELSE << [row |-> tree[i].row, kids |-> Lower(prefix, tree[i].kids, MergedKids(vis, ms), InheritDown(loc, glo))] >>])

\* t1 is an (unordered-position) subtree of t2: every path of t1 is a path of t2
RECURSIVE SubTree(_, _)
SubTree(t1, t2) == \A i \in DOMAIN t1 : IdxOf(t2, t1[i].row) # 0 /\ SubTree(t1[i].kids, KidsOf(t2, t1[i].row))
\* strict mode must raise: some row that is certainly visited (all its ancestors pass without competition) is matched by nothing
RECURSIVE HasUncovered(_, _, _, _)
HasUncovered(prefix, tree, loc, glo) ==
  LET vis == AVisible(loc, glo) IN
  \E i \in DOMAIN tree : LET ms == Matches(prefix, vis, tree[i].row) IN
       \/ ms = {}
       \/ /\ ~Competing(prefix, vis, tree[i].row)
          /\ ~((\A m \in ms : m[2] = "reverse") /\ AllCantDelete(vis, ms))
          /\ HasUncovered(prefix, tree[i].kids, MergedKids(vis, ms), InheritDown(loc, glo))
\* ... and certainly none when every row is in Lower
RECURSIVE AllInLower(_, _, _, _)
AllInLower(prefix, tree, loc, glo) == Size(Lower(prefix, tree, loc, glo)) = Size(tree)

\* exclusivity: two generators both allow deleting the same row (per generator: conjunction of its matching rules' cant_delete flags)
Deleters(prefix, vis, row) ==
  LET ms == Matches(prefix, vis, row)
      gens == {vis[m[1]].gen : m \in ms}
  IN {g \in gens : ~(\A m \in ms : vis[m[1]].gen = g => vis[m[1]].cd)}
=============================================================================
