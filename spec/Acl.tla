--------------------------------- MODULE Acl ---------------------------------
(* C02 / C06 / C10.  ACLs as data: a sequence of rules [pat, kids, glob, cd, gen]
     cd  = the rule's cant_delete flag (explicit, or the built-in default: first word is `interface`)
     gen = name of the generator the rule comes from (several generators' ACLs are simply concatenated)
   P-layer ("what covered means"), independent of how annet selects one governing rule:
     CoveredSome(path)  : some chain of rules (local or inherited %global, direct or negated form) matches level by level
     Upper(t)           : rows of t whose whole path is CoveredSome                     (nothing else may pass)
     Lower(t)           : rows whose path is covered with NO competition at any level   (these must pass)
   A %global rule covers the entire subtree below the row it matches: it is inherited by every level below.              *)
EXTENDS Rulebook

AM(prefix, r, row, form) == IF form = "direct" THEN M(r.pat, row) ELSE M(RevPattern(r.pat, prefix), row)
\* the matches of a row at a level: set of <<index in vis, form>>
Matches(prefix, vis, row) == {<<k, f>> \in (DOMAIN vis) \X {"direct", "reverse"} : AM(prefix, vis[k], row, f)}
AVisible(loc, glo) == Locals(loc) \o Globals(loc) \o glo
\* children rules below a match: only a LOCAL rule matched DIRECTLY hands its children down; %global rules are inherited anyway
ADownLoc(vis, m) == IF ~vis[m[1]].glob /\ m[2] = "direct" THEN vis[m[1]].kids ELSE <<>>

RECURSIVE CoveredSome(_, _, _, _)
CoveredSome(prefix, path, loc, glo) ==
  LET vis == AVisible(loc, glo) ms == Matches(prefix, vis, Head(path)) IN
  /\ ms # {}
  /\ (Len(path) > 1 => \E m \in ms : CoveredSome(prefix, Tail(path), ADownLoc(vis, m), InheritDown(loc, glo)))

\* rules with the same pattern and locality are one rule (annet unites them): competition = matches by really different rules / forms
SameRule(a, b) == a.pat = b.pat /\ a.glob = b.glob
Competing(prefix, vis, row) ==
  LET ms == Matches(prefix, vis, row) IN \E m, n \in ms : m[2] # n[2] \/ ~SameRule(vis[m[1]], vis[n[1]])
AllCantDelete(vis, ms) == \A m \in ms : vis[m[1]].cd
\* merged children of all same-rule direct local matches
MergedKids(vis, ms) == FlatSeq([k \in DOMAIN vis |-> IF \E m \in ms : m[1] = k /\ m[2] = "direct" /\ ~vis[k].glob THEN vis[k].kids ELSE <<>>])

RECURSIVE Upper(_, _, _, _)
Upper(prefix, tree, loc, glo) ==
  LET vis == AVisible(loc, glo) IN
  FlatSeq([i \in DOMAIN tree |->
     LET ms == Matches(prefix, vis, tree[i].row) IN
     IF ms = {} THEN <<>>
     ELSE << [row |-> tree[i].row, kids |-> Upper(prefix, tree[i].kids, MergedKids(vis, ms), InheritDown(loc, glo))] >>])
RECURSIVE Lower(_, _, _, _)
Lower(prefix, tree, loc, glo) ==
  LET vis == AVisible(loc, glo) IN
  FlatSeq([i \in DOMAIN tree |->
     LET ms == Matches(prefix, vis, tree[i].row) IN
     IF ms = {} \/ Competing(prefix, vis, tree[i].row) THEN <<>>
     ELSE IF (\A m \in ms : m[2] = "reverse") /\ AllCantDelete(vis, ms) THEN <<>>      \* negated form of a protected rule: not passed
     ELSE << [row |-> tree[i].row, kids |-> Lower(prefix, tree[i].kids, MergedKids(vis, ms), InheritDown(loc, glo))] >>])

\* t1 is an (unordered-position) subtree of t2: every path of t1 is a path of t2
RECURSIVE SubTree(_, _)
SubTree(t1, t2) == \A i \in DOMAIN t1 : IdxOf(t2, t1[i].row) # 0 /\ SubTree(t1[i].kids, KidsOf(t2, t1[i].row))
\* strict mode must raise: some row that is certainly visited (all its ancestors pass without competition) is matched by nothing
RECURSIVE HasUncovered(_, _, _, _)
HasUncovered(prefix, tree, loc, glo) ==
  LET vis == AVisible(loc, glo) IN
  \E i \in DOMAIN tree : LET ms == Matches(prefix, vis, tree[i].row) IN
       \/ ms = {}
       \/ /\ ~Competing(prefix, vis, tree[i].row)
          /\ ~((\A m \in ms : m[2] = "reverse") /\ AllCantDelete(vis, ms))
          /\ HasUncovered(prefix, tree[i].kids, MergedKids(vis, ms), InheritDown(loc, glo))
\* ... and certainly none when every row is in Lower
RECURSIVE AllInLower(_, _, _, _)
AllInLower(prefix, tree, loc, glo) == Size(Lower(prefix, tree, loc, glo)) = Size(tree)

(* ---- the exact reading: annet lets ONE of the matches govern a row -- which one is a heuristic (most specific by a character
   measure) that the property does not fix, except where the measure cannot tell two matches apart: matches whose effective patterns
   are identical are taken in the order direct before negated, local before %global, and a bare catch-all `~` yields to any match by a
   pattern with a literal word.  Whatever match governs, the consequences are fixed:
     - the negated form of a rule whose (united) lines are all cant_delete: the row is not passed;
     - a local rule matched directly: the row passes and the children rules of ALL directly matching local rules apply below it;
     - anything else (%global rule, negated form): the row passes, below it only inherited %global rules apply.
   RaiseSet(out, tree, rules...) (rules united, see Unite) = the strict-mode outcomes (TRUE = raises) of all choices of governing matches that explain `out`;
   empty when no choice explains `out`.                                                                                          *)
\* lines with the same rule text are ONE rule: %global if any of them says so (then it has no children rules), protected only if all
\* of them are, its children rules the union of theirs (united in turn); it stands where its first line stands
RECURSIVE AclDedupAcc(_, _)
AclDedupAcc(q, acc) == IF q = <<>> THEN acc ELSE AclDedupAcc(Tail(q), IF \E k \in DOMAIN acc : acc[k] = Head(q) THEN acc ELSE Append(acc, Head(q)))
RECURSIVE Unite(_)
Unite(rules) ==
  LET pats == AclDedupAcc([k \in DOMAIN rules |-> rules[k].pat], <<>>) IN
  [j \in DOMAIN pats |->
     LET mem == SelectSeq(rules, LAMBDA r : r.pat = pats[j])
         g == \E k \in DOMAIN mem : mem[k].glob
     IN [pat |-> pats[j], glob |-> g, cd |-> \A k \in DOMAIN mem : mem[k].cd, gen |-> mem[1].gen,
         kids |-> IF g THEN <<>> ELSE Unite(FlatSeq([k \in DOMAIN mem |-> mem[k].kids]))]]
EffPat(prefix, vis, m) == IF m[2] = "direct" THEN vis[m[1]].pat ELSE RevPattern(vis[m[1]].pat, prefix)
Prec(vis, m) == (IF m[2] = "direct" THEN 0 ELSE 2) + (IF vis[m[1]].glob THEN 1 ELSE 0)
\* ... and a bare catch-all (`~` alone, matching any line) never governs a row that a pattern with a literal word matches as well: the
\* specificity measure counts characters shared with the line, of which the catch-all's expression has none
IsCatchAll(p) == p = << [t |-> "tilde"] >>
HasLiteral(p) == \E k \in DOMAIN p : p[k].t = "lit"
Sel(prefix, vis, ms) == {m \in ms : /\ ~\E n \in ms : EffPat(prefix, vis, n) = EffPat(prefix, vis, m) /\ Prec(vis, n) < Prec(vis, m)
                                    /\ ~(IsCatchAll(EffPat(prefix, vis, m)) /\ \E n \in ms : HasLiteral(EffPat(prefix, vis, n)))}
GovDrops(vis, m) == m[2] = "reverse" /\ vis[m[1]].cd
GovDown(vis, ms, m) == IF m[2] = "direct" /\ ~vis[m[1]].glob THEN MergedKids(vis, ms) ELSE <<>>
RECURSIVE RaiseSet(_, _, _, _, _)
RaiseSet(prefix, out, tree, loc, glo) ==
  LET vis == AVisible(loc, glo)
      opts(i) == LET row == tree[i].row  ms == Matches(prefix, vis, row)  inout == IdxOf(out, row) # 0 IN
                 IF ms = {} THEN (IF inout THEN {} ELSE {TRUE})
                 ELSE UNION { IF GovDrops(vis, m) THEN (IF inout THEN {} ELSE {FALSE})
                              ELSE IF ~inout THEN {}
                              ELSE RaiseSet(prefix, KidsOf(out, row), tree[i].kids, GovDown(vis, ms, m), InheritDown(loc, glo))
                              : m \in Sel(prefix, vis, ms) }
  IN IF \E i \in DOMAIN tree : opts(i) = {} THEN {}
     ELSE (IF \E i \in DOMAIN tree : TRUE \in opts(i) THEN {TRUE} ELSE {}) \cup (IF \A i \in DOMAIN tree : FALSE \in opts(i) THEN {FALSE} ELSE {})

\* exclusivity: two generators both allow deleting the same row (per generator: conjunction of its matching rules' cant_delete flags)
Deleters(prefix, vis, row) ==
  LET ms == Matches(prefix, vis, row)
      gens == {vis[m[1]].gen : m \in ms}
  IN {g \in gens : ~(\A m \in ms : vis[m[1]].gen = g => vis[m[1]].cd)}
=============================================================================
