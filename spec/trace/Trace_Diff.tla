----------------------------- MODULE Trace_Diff -----------------------------
(* C2S judge for C03.  Aux file: [rbs |-> Seq(RB)].  Record = one real make_diff call and its views:
   [id, rb, old, new, diff, stripped, self (diff of old with itself), flines (formatter.diff(stripped) lexed: sign, ind, row),
    glines (gen_pre_as_diff(make_pre(stripped)) lexed the same way)]                                               *)
EXTENDS Differ, Offside, TLC, Json, IOUtils
Recs == ndJsonDeserialize(IOEnv.TRACE_FILE)
Aux == JsonDeserialize(IOEnv.AUX_FILE)
VARIABLE i
AsLines(ls) == [k \in DOMAIN ls |-> [ind |-> ls[k].ind, first |-> "x", w |-> [sign |-> ls[k].sign, row |-> ls[k].row]]]
Verdict(r) ==
  LET RB == Aux.rbs[r.rb]
      f == Faithful(r.diff, Restrict(r.old, RB.rules, <<>>), Restrict(r.new, RB.rules, <<>>), RB.rules, <<>>, "affected")
      ft == P(AsLines(r.flines), {})
      gt == P(AsLines(r.glines), {})
  IN IF f # "ok" THEN f
     ELSE IF r.stripped # Strip(r.diff) THEN "strip-unchanged-wrong"
     ELSE IF ~NoChange(r.self) THEN "self-diff-reports-change"
     ELSE IF ft.err \/ ft.tree # Signed(r.stripped) THEN "confirmation-view-differs"
     ELSE IF gt.err \/ Bag(gt.tree) # Bag(Signed(r.stripped)) THEN "annet-diff-view-differs"
     ELSE "ok"
Init == i = 0
Next == /\ i < Len(Recs) /\ i' = i + 1
        /\ PrintT(<<"V", Recs[i + 1].id, Verdict(Recs[i + 1])>>)
=============================================================================
