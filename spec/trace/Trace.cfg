INIT Init
NEXT Next
