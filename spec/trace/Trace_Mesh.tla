------------------------------ MODULE Trace_Mesh ------------------------------
(* C2S judge for C15.  kind "pair": [id, hs (handler tables in one canonical order), ipL, ipR (addresses without mask),
     runs: Seq([order, errA, errB, A: Seq(peer), B: Seq(peer)])]   one run per registration permutation; a peer is
     [addr, remote_as, local_as, mtu, bfd, fam (Seq), iface]
   kind "merge": [id, merger, a, b, out, raised, ...]  merge(a,b) on model instances, judged per declared merger.                          *)
EXTENDS Mesh, TLC, Json, IOUtils
Recs == ndJsonDeserialize(IOEnv.TRACE_FILE)
VARIABLE i
PeerView(p) == [addr |-> p.addr, remote_as |-> p.remote_as, local_as |-> p.local_as, mtu |-> p.mtu, bfd |-> p.bfd, fam |-> ToSet(p.fam), iface |-> p.iface]
RunView(r) == [errA |-> r.errA, errB |-> r.errB, A |-> {PeerView(r.A[k]) : k \in DOMAIN r.A}, B |-> {PeerView(r.B[k]) : k \in DOMAIN r.B}]
VerdictPair(r) ==
  LET views == {RunView(r.runs[k]) : k \in DOMAIN r.runs}
      one == RunView(r.runs[1])
      conflict == Conflict(r.hs)
      want(side, key) == ValueOf(r.hs, side, key)
  IN IF Cardinality(views) > 1 THEN "result-depends-on-registration-order"
     \* several parallel links in one port group and neither LAG nor SVI: no interface can be selected, the rule must be refused on both ends
     ELSE IF r.ambiguous THEN (IF one.errA /\ one.errB THEN "ok" ELSE "ambiguous-link-selection-not-refused")
     ELSE IF conflict /\ ~(one.errA /\ one.errB) THEN "conflicting-values-not-refused"
     ELSE IF ~conflict /\ (one.errA \/ one.errB) THEN "error-without-conflict"
     ELSE IF conflict THEN "ok"
     ELSE IF Cardinality(one.A) # 1 \/ Cardinality(one.B) # 1 THEN "peer-missing-or-duplicated"
     ELSE LET pa == CHOOSE p \in one.A : TRUE  pb == CHOOSE p \in one.B : TRUE IN
          IF pa.addr # r.ipR \/ pb.addr # r.ipL THEN "peer-address-not-mirrored"
          ELSE IF pa.remote_as # want("R", "asnum") \/ pb.remote_as # want("L", "asnum") THEN "remote-as-not-mirrored"
          ELSE IF pa.local_as # want("L", "asnum") \/ pb.local_as # want("R", "asnum") THEN "local-as-wrong"
          ELSE IF pa.mtu # want("L", "mtu") \/ pb.mtu # want("R", "mtu") \/ pa.bfd # want("L", "bfd") \/ pb.bfd # want("R", "bfd") THEN "option-lost-or-on-wrong-side"
          ELSE IF pa.fam # Families(r.hs, "R") \/ pb.fam # Families(r.hs, "L") THEN "families-not-united-or-not-mirrored"
          ELSE IF r.ifaceA # "" /\ (pa.iface # r.ifaceA \/ pb.iface # r.ifaceB) THEN "wrong-interface"
          ELSE "ok"
VerdictMerge(r) ==
  CASE r.merger = "forbidchange" -> IF r.a = r.b THEN (IF ~r.raised /\ r.out = r.a THEN "ok" ELSE "equal-values-refused-or-changed")
                                    ELSE (IF r.raised THEN "ok" ELSE "different-values-merged-silently")
    [] r.merger = "unite" -> IF ~r.raised /\ ToSet(r.out) = ToSet(r.a) \cup ToSet(r.b) /\ r.aAfter = r.a THEN "ok" ELSE "unite-is-not-set-union-or-mutates-its-input"
    [] r.merger = "concat" -> IF ~r.raised /\ r.out = r.a \o r.b THEN "ok" ELSE "concat-is-not-concatenation"
    [] r.merger = "unset" -> IF ~r.raised /\ r.out = r.a THEN "ok" ELSE "unset-field-overrode-a-set-one"
    [] OTHER -> "ok"
\* kind "inst": [id, a, b (instances as data, projected from the real objects), raised, out (projection of merge(a, b)), aAfter, bAfter
\*   (a and b projected again after the call), hasC, assocEq (merge(merge(a,b),c) and merge(a,merge(b,c)) agree: same instance or both refused)]
VerdictInst(r) ==
  LET want == MergeInst(r.a, r.b) IN
  IF want.bad # r.raised THEN (IF r.raised THEN "merge-refused-without-two-values" ELSE "different-values-merged-silently")
  ELSE IF NormI(r.aAfter) # NormI(r.a) \/ NormI(r.bAfter) # NormI(r.b) THEN "merge-changed-its-input"
  ELSE IF ~r.raised /\ NormI(r.out) # NormI(want.v) THEN "merged-instance-differs"
  ELSE IF r.hasC /\ ~r.assocEq THEN "merge-not-associative"
  ELSE "ok"
Init == i = 0
Next == /\ i < Len(Recs) /\ i' = i + 1
        /\ PrintT(<<"V", Recs[i + 1].id, IF Recs[i + 1].kind = "pair" THEN VerdictPair(Recs[i + 1]) ELSE IF Recs[i + 1].kind = "inst" THEN VerdictInst(Recs[i + 1]) ELSE VerdictMerge(Recs[i + 1])>>)
=============================================================================
