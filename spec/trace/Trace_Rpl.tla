------------------------------ MODULE Trace_Rpl ------------------------------
(* C2S judge for C14.  Record: [id, vendor, events (Seq of "start"|"emit"|"error"|"end"), raised (the generator run raised), aclError
   (_run_partial_generator with use_acl raised for the ACL), policyLines (flattened policy output, word sequences), defLines (outputs of
   the list generators), recLines (lines as recorded at generation time: ind = block depth, w = words), textLines (the output text lexed:
   ind = leading blanks / indent unit, w = words), headers (the policy entry header lines of the output)]                                                                                        *)
EXTENDS Rpl, Offside, TLC, Json, IOUtils
Recs == ndJsonDeserialize(IOEnv.TRACE_FILE)
VARIABLE i
AsL(ls) == [k \in DOMAIN ls |-> [ind |-> ls[k].ind, first |-> "x", w |-> ls[k].w]]
Verdict(r) ==
  LET m == Machine(r.events, "idle")
      refs == AllNames(r.policyLines, RefsOf(r.vendor))
      defs == AllNames(r.defLines, DefsOf(r.vendor))
  IN IF m # "ok" THEN m
     ELSE IF r.raised THEN "ok"                              \* refused cleanly: nothing else to judge
     ELSE IF r.aclError THEN "line-outside-the-generators-own-acl"
     ELSE IF r.listError THEN "list-generator-raised"
     ELSE IF LET a == P(AsL(r.recLines), {}) b == P(AsL(r.textLines), {}) IN a.err \/ b.err \/ a.tree # b.tree THEN "output-nesting-differs-from-generated-nesting"
     ELSE IF ~(refs \subseteq defs) THEN "referenced-list-not-defined"
     \* FRR keys a route-map entry by its header line (name, result, number): the cumulus back-end treats two statements under one number as a
     \* construct it cannot express -- it must be refused, not emitted twice (the huawei / arista back-ends make no such claim: observation)
     ELSE IF r.vendor = "cumulus" /\ \E a, b \in DOMAIN r.headers : a # b /\ r.headers[a][2] = r.headers[b][2] /\ r.headers[a][4] = r.headers[b][4]
          THEN "policy-entry-emitted-twice"
     ELSE "ok"
Init == i = 0
Next == /\ i < Len(Recs) /\ i' = i + 1
        /\ PrintT(<<"V", Recs[i + 1].id, Verdict(Recs[i + 1])>>)
=============================================================================
