----------------------------- MODULE Trace_Format -----------------------------
(* C2S judge for C04.  Record: [id, t (tree, rows as word sequences), t2 (parse of the real text), fixed (join(parse(text)) == text),
   indent (TRUE for the indentation family), lines (the real text lexed: ind, first, w = words)]                                     *)
EXTENDS Formatter, TLC, Json, IOUtils
Recs == ndJsonDeserialize(IOEnv.TRACE_FILE)
VARIABLE i
Verdict(r) ==
  IF r.t2 # r.t THEN (IF Canon(r.t2) = Canon(r.t) THEN "order-changed" ELSE "tree-differs-after-round-trip")
  ELSE IF ~r.fixed THEN "re-rendering-is-not-a-fixed-point"
  ELSE IF r.indent /\ (LET p == P(r.lines, {}) IN p.err \/ p.tree # r.t) THEN "text-nesting-differs-from-tree"
  ELSE "ok"
Init == i = 0
Next == /\ i < Len(Recs) /\ i' = i + 1
        /\ PrintT(<<"V", Recs[i + 1].id, Verdict(Recs[i + 1])>>)
=============================================================================
