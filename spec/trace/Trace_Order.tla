----------------------------- MODULE Trace_Order -----------------------------
(* C2S judge for C08.  Aux: [rbs |-> Seq(RB), ords |-> Seq(ordering rule trees)] (same index).
   kind "patch":  [id, rb, ord (index into Aux.ords), pt (sorted PatchTree as items), upt (the same patch built with sorting disabled)]
   kind "config": [id, rb, t (config tree), out (order_config(t)), out2 (order_config(out))]
   kind "indep":  [id, full (command paths of patch(old,new)), part (command paths after dropping an unrelated top-level row)]     *)
EXTENDS Orderer, ShippedDeps, TLC, Json, IOUtils
Recs == ndJsonDeserialize(IOEnv.TRACE_FILE)
Aux == JsonDeserialize(IOEnv.AUX_FILE)
VARIABLE i
RECURSIVE IsSubseq(_, _)
IsSubseq(a, b) == IF a = <<>> THEN TRUE ELSE IF b = <<>> THEN FALSE
                  ELSE IF Head(a) = Head(b) THEN IsSubseq(Tail(a), Tail(b)) ELSE IsSubseq(a, Tail(b))
VerdictPatch(r) ==
  LET RB == Aux.rbs[r.rb] ord == InScope(Aux.ords[r.ord], "patch") IN
  IF BagI(r.pt) # BagI(r.upt) THEN "sorting-lost-or-duplicated-commands"
  ELSE IF ~RemovalFirst(RB, r.pt, RB.rules, <<>>) THEN "re-creation-before-removal"
  ELSE RankOrdered(RB.prefix, r.pt, ord)
VerdictConfig(r) ==
  LET RB == Aux.rbs[r.rb] ord == InScope(Aux.ords[r.ord], "") IN
  IF BagI(AsItems(r.out)) # BagI(AsItems(r.t)) THEN "order-config-not-a-permutation"
  ELSE IF r.out2 # r.out THEN "order-config-not-idempotent"
  ELSE IF ~UnrankedStable(RB.prefix, r.t, r.out, ord) THEN "unmentioned-rows-reordered"
  ELSE RankOrdered(RB.prefix, AsItems(r.out), ord)
\* "unrelated": the dropped row shares its leading word with no command of the patch (plain or negated), and dropping it only removes commands
Lead(row, prefix) == IF Len(row) > 1 /\ row[1] = prefix THEN row[2] ELSE row[1]
VerdictIndep(r) ==
  IF /\ \A k \in DOMAIN r.full : Lead(r.full[k][1], r.prefix) # Lead(r.dropped, r.prefix)
     /\ {r.part[k] : k \in DOMAIN r.part} \subseteq {r.full[k] : k \in DOMAIN r.full} /\ ~IsSubseq(r.part, r.full)
  THEN "order-depends-on-unrelated-row" ELSE "ok"
\* kind "comments": [id, pt (sorted patch built without comments), ptc (the same patch built with add_comments, the comment text cut off each row)]:
\* a comment is decoration of the displayed line, it takes no part in ordering
VerdictComments(r) == IF r.ptc = r.pt THEN "ok" ELSE IF BagI(r.ptc) = BagI(r.pt) THEN "comments-change-the-order" ELSE "comments-change-the-patch"
\* kind "deps": [id, fact (index into HuaweiDeps), cmds (top-level commands of a real Huawei patch holding both commands of the fact)]
VerdictDeps(r) == DepVerdict(HuaweiDeps[r.fact], r.cmds)
Verdict(r) == CASE r.kind = "deps" -> VerdictDeps(r) [] r.kind = "patch" -> VerdictPatch(r) [] r.kind = "config" -> VerdictConfig(r) [] r.kind = "comments" -> VerdictComments(r) [] OTHER -> VerdictIndep(r)
Init == i = 0
Next == /\ i < Len(Recs) /\ i' = i + 1
        /\ PrintT(<<"V", Recs[i + 1].id, Verdict(Recs[i + 1])>>)
=============================================================================
