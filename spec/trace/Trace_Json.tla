------------------------------ MODULE Trace_Json ------------------------------
(* C2S judge for C13.
   kind "patch":    [id, old, new, ops (annet.jsontools.make_patch), libops (jsonpatch.make_patch, unsorted), applied (document returned by
                     jsontools.apply_patch on the real bytes), appliedOk]
   kind "fragment": [id, old, f, acl (list of glob patterns as key-segment lists), r, r2 (merge applied again), raised, inputsKept (old, f and the first result are as they were)]
   kind "filter":   [id, d, out, raised]                                                                                              *)
EXTENDS JsonDoc, TLC, Json, IOUtils
Recs == ndJsonDeserialize(IOEnv.TRACE_FILE)
VARIABLE i
VerdictPatch(r) ==
  LET fin == ApplyAll(r.old, r.ops)
      lib == ApplyAll(r.old, r.libops)
      libok == ~IsErr(lib) /\ DocEq(lib, r.new)
  IN IF IsErr(fin) \/ ~DocEq(fin, r.new)
        THEN <<"patch-does-not-reproduce-the-target", IF libok THEN "annet" ELSE "library">>
     ELSE IF ~r.appliedOk \/ ~DocEq(r.applied, r.new) THEN <<"apply-patch-result-differs", "">>
     ELSE <<"ok", "">>
VerdictFragment(r) ==
  IF r.raised THEN <<"merge-raised", "">>
  ELSE LET v == FragmentVerdict(r.old, r.f, r.acl, r.r) IN
       IF v # "ok" THEN <<v, "">>
       ELSE IF ~r.inputsKept THEN <<"merge-changed-a-document-of-its-caller", "">>
       ELSE IF ~DocEq(r.r2, r.r) THEN <<"merge-not-idempotent", "">>
       ELSE IF ~DocEq(r.r, Merge(r.old, r.f, r.acl)) THEN <<"ok", "drift">>
       ELSE <<"ok", "">>
VerdictFilter(r) == IF r.raised THEN <<"filter-raised", "">> ELSE IF SubDoc(r.out, r.d) THEN <<"ok", "">> ELSE <<"filter-result-not-a-subdocument", "">>
Verdict(r) == CASE r.kind = "patch" -> VerdictPatch(r) [] r.kind = "fragment" -> VerdictFragment(r) [] OTHER -> VerdictFilter(r)
Init == i = 0
Next == /\ i < Len(Recs) /\ i' = i + 1
        /\ LET v == Verdict(Recs[i + 1]) IN PrintT(<<"V", Recs[i + 1].id, v[1], v[2]>>)
=============================================================================
