---------------------------- MODULE Trace_History ----------------------------
(* C2S judge for C20.  Record: [id, seq (job indexes), got (result digests, one per position, computed in ONE process in that order),
   ref (digest of every job of the menu computed alone in a fresh process), again (digest of the last job repeated once more),
   frames (per position: inputs and compiled rulebook unchanged by the call)]                                                        *)
EXTENDS Naturals, Sequences, TLC, Json, IOUtils
Recs == ndJsonDeserialize(IOEnv.TRACE_FILE)
VARIABLE i
Verdict(r) ==
  LET bad == {k \in DOMAIN r.seq : r.got[k] # r.ref[r.seq[k]]} IN
  IF bad # {} THEN <<"result-depends-on-history", CHOOSE k \in bad : \A j \in bad : k <= j>>
  ELSE IF \E k \in DOMAIN r.frames : ~r.frames[k] THEN <<"input-or-rulebook-modified", CHOOSE k \in DOMAIN r.frames : ~r.frames[k]>>
  ELSE IF r.again # r.got[Len(r.got)] THEN <<"repeated-call-differs", Len(r.got)>>
  ELSE <<"ok", 0>>
Init == i = 0
Next == /\ i < Len(Recs) /\ i' = i + 1
        /\ LET v == Verdict(Recs[i + 1]) IN PrintT(<<"V", Recs[i + 1].id, v[1], v[2]>>)
=============================================================================
