---------------------------- MODULE Trace_Implicit ----------------------------
(* C2S judge for C17.  Record: [id, rules, prefix, t, u, mt, mt2, mu, cmds, independent (writing into one completed tree left the other completions alone)]
   mt = merge_dicts(t, implicit.config(t, rules)) as the code computed it, mt2 = the same applied to mt, mu likewise for u,
   cmds = command paths of the real patch from mt to mu over the shipped rulebook of that hardware.                              *)
EXTENDS Implicit, TLC, Json, IOUtils
Recs == ndJsonDeserialize(IOEnv.TRACE_FILE)
VARIABLE i
Strip(prefix, p) == LET l == p[Len(p)] IN
                    IF Len(l) > 1 /\ l[1] = prefix THEN SubSeq(p, 1, Len(p) - 1) \o <<Tail(l)>> ELSE p
RemovesExplicit(prefix, t, p) == LET l == p[Len(p)] IN
                                 Len(l) > 1 /\ l[1] = prefix /\ (SubSeq(p, 1, Len(p) - 1) \o <<Tail(l)>>) \in Paths(t)
Verdict(r) ==
  LET want == Complete(r.t, r.rules)
      wantU == Complete(r.u, r.rules)
      \* a default present in BOTH completions (old and new are completed the same way) and written in neither input
      onlyImplicit == (Paths(want) \cap Paths(wantU)) \ (Paths(r.t) \cup Paths(r.u))
  IN IF ~SubT(r.t, r.mt) THEN "explicit-line-lost"
     ELSE IF Canon(r.mt) # Canon(want) THEN (IF SubT(r.mt, want) THEN "default-missing" ELSE "default-added-next-to-explicit-line")
     ELSE IF Canon(r.mt2) # Canon(r.mt) THEN "completion-not-idempotent"
     ELSE IF ~r.independent THEN "completed-trees-share-parts"
     \* (a command spelled like a default may also be the REMOVAL of an explicit line of t: `no shutdown` removes the written `shutdown`)
     ELSE IF \E k \in DOMAIN r.cmds : (r.cmds[k] \in onlyImplicit /\ ~RemovesExplicit(r.prefix, r.t, r.cmds[k]))
                                       \/ Strip(r.prefix, r.cmds[k]) \in onlyImplicit
          THEN "command-for-a-default-absent-from-both"
     ELSE "ok"
Init == i = 0
Next == /\ i < Len(Recs) /\ i' = i + 1
        /\ PrintT(<<"V", Recs[i + 1].id, Verdict(Recs[i + 1])>>)
=============================================================================
