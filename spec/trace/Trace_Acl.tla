------------------------------ MODULE Trace_Acl ------------------------------
(* C2S judge for C06.  kind "filter": [id, prefix, acl, t, out, out2, raised]   (apply_acl, apply_acl again, fatal_acl=True outcome)
                        kind "merge":  [id, prefix, a, b, t, xa, xb, xab]        (filters by A, by B and by A+B compiled from the joined text) *)
EXTENDS Acl, TLC, Json, IOUtils
Recs == ndJsonDeserialize(IOEnv.TRACE_FILE)
VARIABLE i
VerdictFilter(r) ==
  LET lo == Lower(r.prefix, r.t, r.acl, <<>>) up == Upper(r.prefix, r.t, r.acl, <<>>)
      rs == RaiseSet(r.prefix, r.out, r.t, Unite(r.acl), <<>>) IN
  IF ~IsSubseqTree(r.out, r.t) THEN "not-an-order-preserving-subtree"
  ELSE IF ~SubTree(r.out, up) THEN "uncovered-line-passed"
  ELSE IF ~SubTree(lo, r.out) THEN "covered-line-dropped"
  ELSE IF rs = {} THEN "no-governing-rule-explains-the-result"
  ELSE IF r.out2 # r.out THEN "not-idempotent"
  ELSE IF HasUncovered(r.prefix, r.t, r.acl, <<>>) /\ ~r.raised THEN "strict-mode-did-not-raise"
  ELSE IF AllInLower(r.prefix, r.t, r.acl, <<>>) /\ r.raised THEN "strict-mode-raised-on-covered-tree"
  ELSE IF r.raised \notin rs THEN (IF r.raised THEN "strict-mode-raised-on-covered-tree" ELSE "strict-mode-did-not-raise")
  ELSE "ok"
\* a path dropped by A+B although A or B alone passes it is "shadowed" when at some level of the path, in A+B, two really different
\* rules or forms match the row (competition): annet lets the most specific one govern; if that one hands no children down (%global,
\* negated form) or is the negated form of a protected rule, lines that one ACL alone passes are lost
RECURSIVE Shadowed(_, _, _, _)
Shadowed(prefix, path, loc, glo) ==
  LET vis == AVisible(loc, glo) ms == Matches(prefix, vis, Head(path)) IN
  \/ Competing(prefix, vis, Head(path))
  \/ (Len(path) > 1 /\ Shadowed(prefix, Tail(path), MergedKids(vis, ms), InheritDown(loc, glo)))
VerdictMerge(r) ==
  LET ab == r.a \o r.b
      missing == (Paths(r.xa) \cup Paths(r.xb)) \ Paths(r.xab)
  IN IF missing = {} THEN <<"ok", "">>
     ELSE <<"merged-acl-drops-what-one-acl-passes",
            IF \A p \in missing : Shadowed(r.prefix, p, ab, <<>>) THEN "competing-rules" ELSE "other">>
Init == i = 0
Next == /\ i < Len(Recs) /\ i' = i + 1
        /\ LET r == Recs[i + 1] IN
           IF r.kind = "filter" THEN PrintT(<<"V", r.id, VerdictFilter(r), "">>)
           ELSE LET v == VerdictMerge(r) IN PrintT(<<"V", r.id, v[1], v[2]>>)
=============================================================================
