--------------------------- MODULE Trace_RuleLang ---------------------------
(* C2S judge for C07.  One record = one real use of annet's rule compiler on (pattern, row):
   [id, pat (tokens), icase, prefix, row, rowl, m (matched?), key (seq of word seqs), hasrev, rev (words of
    the filled-in reverse template), hasrm, rm (did the compiled reverse form match the row?)]
   Each clause compares what the code did with the P-layer RuleLang.                                        *)
EXTENDS RuleLang, TLC, Json, IOUtils
Recs == ndJsonDeserialize(IOEnv.TRACE_FILE)
VARIABLE i
Verdict(r) ==
  LET pm == Match(r.pat, r.row, r.rowl, r.icase) IN
  IF r.m # pm THEN (IF pm THEN "missed-match" ELSE "spurious-match")
  ELSE IF pm /\ r.key # Key(r.pat, r.row) THEN "wrong-key"
  ELSE IF pm /\ r.hasrev /\ RevDefined(r.pat) /\ r.rev # RevInst(r.pat, r.prefix, Key(r.pat, r.row)) THEN "wrong-reverse"
  ELSE IF r.hasrm /\ r.rm # Match(RevPattern(r.pat, r.prefix), r.row, r.rowl, r.icase) THEN "reverse-form-recognition"
  ELSE "ok"
Init == i = 0
Next == /\ i < Len(Recs) /\ i' = i + 1
        /\ PrintT(<<"V", Recs[i + 1].id, Verdict(Recs[i + 1])>>)
=============================================================================
