---------------------------- MODULE Trace_Offside ----------------------------
(* C2S judge for C05: every record is one real execution of annet.tabparser.parse_to_tree:
   [id, comments (seq of 1-char strings), lines (lexed: ind, first, w), err (bool), tree].
   Verdict per record: the real outcome must equal the P-layer (declarative offside rule). *)
EXTENDS Offside, TLC, Json, IOUtils
Recs == ndJsonDeserialize(IOEnv.TRACE_FILE)
VARIABLE i
ToSet(s) == {s[k] : k \in DOMAIN s}
Verdict(r) ==
  LET p == P(r.lines, ToSet(r.comments)) IN
  IF p.err THEN (IF r.err THEN "ok" ELSE "accepted-bad-indentation")
  ELSE IF r.err THEN "refused-good-text"
  ELSE IF p.tree = r.tree THEN "ok"
  ELSE IF Canon(p.tree) = Canon(r.tree) THEN "sibling-order" ELSE "wrong-parent"
Init == i = 0
Next == /\ i < Len(Recs) /\ i' = i + 1
        /\ PrintT(<<"V", Recs[i + 1].id, Verdict(Recs[i + 1])>>)
=============================================================================
