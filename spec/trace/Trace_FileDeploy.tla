--------------------------- MODULE Trace_FileDeploy ---------------------------
(* C2S judge for C19.  Record: [id, gens (listing order; each with `supports`: does the generator accept this device), oldp, oldc (parallel lists: the device's files), reload ("yes"|"no"|"force"), safe,
   newp, newc, newr (new_files(): paths, contents, reload strings), upp, upc (deploy_cmds files: paths, uploaded text), cmdp (paths with a
   reload command), cmdc (their first line), diffp (paths pc_diff yields),
   fullp, fullc / safep, safec (new_files() and new_files(safe=True) asked of ONE result object, in either order), stable (asking again gives the same)]                                                             *)
EXTENDS FileDeploy, TLC, Json, IOUtils
Recs == ndJsonDeserialize(IOEnv.TRACE_FILE)
VARIABLE i
ToSet(s) == {s[k] : k \in DOMAIN s}
Fn(ks, vs) == [p \in ToSet(ks) |-> vs[CHOOSE k \in DOMAIN ks : ks[k] = p]]
Verdict(r0) ==
  LET r == [r0 EXCEPT !.gens = Active(r0.gens)]
      plan == Planned(r.gens)
      new == Fn(r.newp, r.newc)  newr == Fn(r.newp, r.newr)
      old == Fn(r.oldp, r.oldc)
      up == Fn(r.upp, r.upc)
      force == r.reload = "force"
      want == {p \in DOMAIN new : force \/ p \notin DOMAIN old \/ old[p] # new[p]}
      full == Fn(r.fullp, r.fullc)  sf == Fn(r.safep, r.safec)
  IN IF DOMAIN full # PathsOf(r.gens) \/ \E p \in DOMAIN full : full[p] # plan[p].out THEN "full-plan-not-the-winners"
     ELSE IF DOMAIN sf # SafePaths(r.gens) \/ \E p \in DOMAIN sf : sf[p] # plan[p].out THEN "safe-plan-not-the-safe-winners"
     ELSE IF ~r.stable THEN "plan-changes-between-calls"
     ELSE IF ~r.safe /\ DOMAIN new # PathsOf(r.gens) THEN "planned-paths-differ"
     ELSE IF r.safe /\ \E p \in DOMAIN new : \A k \in DOMAIN r.gens : r.gens[k].path = p /\ r.gens[k].out = new[p] => ~r.gens[k].safe THEN "unsafe-generator-in-safe-mode"
     ELSE IF \E p \in DOMAIN new : (~r.safe \/ plan[p].safe) /\ (new[p] # plan[p].out \/ newr[p] # plan[p].reload) THEN "content-not-from-highest-priority-generator"
     ELSE IF DOMAIN up # want THEN (IF \E p \in want : p \notin DOMAIN up THEN "changed-file-not-uploaded" ELSE "unchanged-file-uploaded")
     ELSE IF \E p \in DOMAIN up : up[p] # new[p] THEN "uploaded-bytes-differ-from-generated-content"
     ELSE IF r.reload = "no" /\ r.cmdp # <<>> THEN "reload-command-although-disabled"
     ELSE IF r.reload # "no" /\ ToSet(r.cmdp) # DOMAIN up THEN "reload-command-set-differs-from-uploaded-files"
     ELSE IF r.reload # "no" /\ \E p \in DOMAIN up : Fn(r.cmdp, r.cmdc)[p] # newr[p] THEN "wrong-reload-command"
     ELSE IF ToSet(r.diffp) # {p \in DOMAIN new : p \notin DOMAIN old \/ old[p] # new[p]} THEN "file-diff-shown-iff-contents-differ-violated"
     ELSE "ok"
Init == i = 0
Next == /\ i < Len(Recs) /\ i' = i + 1
        /\ PrintT(<<"V", Recs[i + 1].id, Verdict(Recs[i + 1])>>)
=============================================================================
