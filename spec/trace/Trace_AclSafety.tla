--------------------------- MODULE Trace_AclSafety ---------------------------
(* C2S judge for C02.  Aux: [rbs |-> Seq(RB)].  Record: [id, rb, acl (rules), old (full device config), new, cmds (real command paths)].
   The clauses are those of AclSafety.tla.                                                                                      *)
EXTENDS AclSafety, TLC, Json, IOUtils
Recs == ndJsonDeserialize(IOEnv.TRACE_FILE)
Aux == JsonDeserialize(IOEnv.AUX_FILE)
VARIABLE i
Verdict(r) == SafetyVerdict(Aux.rbs[r.rb], r.acl, r.old, r.cmds)
Init == i = 0
Next == /\ i < Len(Recs) /\ i' = i + 1
        /\ PrintT(<<"V", Recs[i + 1].id, Verdict(Recs[i + 1])>>)
=============================================================================
