---------------------------- MODULE Trace_Deploy ----------------------------
(* C2S judge for C01.  Aux: [rbs |-> Seq(RB)].  Two kinds of record, both one real _diff_and_patch + cmd_paths call:
   kind "apply":  [id, rb, old, new, cmds]         the device (P-layer, Device.tla) starts at `old`, executes the real command
                                                    paths one by one; the result must have converged to `new` (contract-aware);
                                                    the final device state is printed for the next round.
   kind "second": [id, rb, old, new, dev, diff2, cmds2]   the real second diff/patch taken on the spec's device state `dev`:
                                                    empty where convergence was strict, otherwise navigation only and effect-free. *)
EXTENDS Device, TLC, Json, IOUtils
Recs == ndJsonDeserialize(IOEnv.TRACE_FILE)
Aux == JsonDeserialize(IOEnv.AUX_FILE)
VARIABLE i
\* navigation: a block exit, the header of a block some other command goes into, or -- for vendors without an exit word, where an
\* entered-and-left block leaves no second line -- the bare header of a block the device already has
IsNav(RB, dev, cmds, p) == \/ (RB.exit # "" /\ p[Len(p)] = <<RB.exit>>)
                           \/ \E k \in DOMAIN cmds : Len(cmds[k]) = Len(p) + 1 /\ SubSeq(cmds[k], 1, Len(p)) = p
                           \/ (RB.exit = "" /\ PresentPath(dev, p) /\ KidsAt(dev, p) # <<>>)
                           \/ ("flat" \in DOMAIN RB /\ RB.flat /\ p[1][1] = "set"            \* flat vendors: `set <header of an existing block>`
                               /\ LET q == FlatPath(RB, p[1]) IN q # <<>> /\ PresentPath(dev, q) /\ KidsAt(dev, q) # <<>>)
VerdictApply(r) ==
  LET RB == Aux.rbs[r.rb]
      dev == Run(RB, r.old, r.cmds)
  IN <<(IF Conv(dev, r.new, r.old, RB.rules, <<>>) THEN "ok" ELSE "device-did-not-converge"),
       ToJson([t |-> dev, strict |-> Same(dev, r.new, RB.rules, <<>>)])>>
VerdictSecond(r) ==
  LET RB == Aux.rbs[r.rb]
      strict == Same(r.dev, r.new, RB.rules, <<>>)
  IN <<(IF strict THEN (IF r.diff2 # <<>> THEN "second-diff-not-empty"
                        ELSE IF r.cmds2 # <<>> THEN "second-patch-has-commands" ELSE "ok")
        ELSE IF Canon(Run(RB, r.dev, r.cmds2)) # Canon(r.dev) THEN "second-patch-has-effect"
        ELSE IF \E k \in DOMAIN r.cmds2 : ~IsNav(RB, r.dev, r.cmds2, r.cmds2[k]) THEN "second-patch-has-commands"
        ELSE "ok"), "">>
Verdict(r) == IF r.kind = "apply" THEN VerdictApply(r) ELSE VerdictSecond(r)
Init == i = 0
Next == /\ i < Len(Recs) /\ i' = i + 1
        /\ LET v == Verdict(Recs[i + 1]) IN PrintT(<<"V", Recs[i + 1].id, v[1], v[2]>>)
=============================================================================
