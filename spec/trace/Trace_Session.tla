---------------------------- MODULE Trace_Session ----------------------------
(* C2S judge for C09.  Record: [id, v (vendor class), pt (patch tree), shown (lexed formatter.patch: d,row),
   paths (cmd_paths keys), sent (CommandList: d,row,timeout,answers), docommit, dofinalize, twostage (the model edits a candidate configuration), nocommit (the model writes straight into the running configuration), drules (deploy rule tree, rules may carry ifctx), ctxs (context of each command path, as [key, value] pairs), judgeParams] *)
EXTENDS DeploySession, TLC, Json, IOUtils
Recs == ndJsonDeserialize(IOEnv.TRACE_FILE)
VARIABLE i
Lines(s) == [k \in DOMAIN s |-> [d |-> s[k].d, row |-> s[k].row]]
Verdict(r) ==
  LET sent == Lines(r.sent)
      pathLines == [k \in DOMAIN r.paths |-> [d |-> Len(r.paths[k]) - 1, row |-> r.paths[k][Len(r.paths[k])]]]
      \* flattening vendors (juniper, ribbon, nokia, routeros) send one line per command path; what is displayed is the nested patch, so for
      \* them the body of the stream is the sequence of command paths and the display clauses do not apply
      ex == Extra(sent, IF r.flat THEN pathLines ELSE r.shown, 1)
      bodyPos == {k \in DOMAIN sent : \A j \in DOMAIN ex : ex[j] # k}
  IN
  IF ~r.flat /\ ~NestingOK(r.shown) THEN <<"shown-patch-nesting-broken", 0>>
  ELSE IF ~r.flat /\ pathLines # r.shown THEN <<"cmd-paths-differ-from-shown-patch", 0>>
  ELSE IF ~r.flat /\ PathsOf(r.shown, <<>>) # r.paths THEN <<"cmd-path-nesting-differs-from-shown", 0>>
  ELSE IF \E j \in DOMAIN ex : ex[j] = 0 THEN <<"sent-stream-is-not-the-shown-patch", 0>>
  ELSE IF \E j \in DOMAIN ex : sent[ex[j]].d # 0 \/ sent[ex[j]].row \notin WrapperCmds THEN <<"non-wrapper-command-added", 0>>
  ELSE IF ~r.docommit /\ \E j \in DOMAIN ex : sent[ex[j]].row \in CommitCmds THEN <<"commit-sent-although-disabled", 0>>
  ELSE IF r.nocommit /\ \E j \in DOMAIN ex : sent[ex[j]].row \in CommitCmds THEN <<"commit-sent-to-a-device-without-candidate-configuration", 0>>
  ELSE IF r.docommit /\ r.twostage /\ bodyPos # {} /\ ~CommitSent(sent, ex, IF bodyPos = {} THEN 0 ELSE CHOOSE k \in bodyPos : \A j \in bodyPos : j <= k)
       THEN <<"commit-missing-although-enabled", 0>>
  ELSE IF r.judgeParams /\ \E k \in bodyPos :
            LET kk == Cardinality({j \in bodyPos : j <= k})         \* index in the body
                want == RuleFor(r.drules, r.paths[kk], r.ctxs[kk])
            IN ParamsDefined(r.drules, r.paths[kk], r.ctxs[kk]) /\ (r.sent[k].timeout # want.timeout \/ r.sent[k].answers # want.answers)
       THEN <<"wrong-timeout-or-dialog", 0>>
  ELSE IF r.checkModel /\ Flatten(r.v, r.pt, 0, <<>>) # r.shown THEN <<"ok", 1>>      \* model drift (A-layer), not a violation
  ELSE <<"ok", 0>>
Init == i = 0
Next == /\ i < Len(Recs) /\ i' = i + 1
        /\ LET v == Verdict(Recs[i + 1]) IN PrintT(<<"V", Recs[i + 1].id, v[1], v[2]>>)
=============================================================================
