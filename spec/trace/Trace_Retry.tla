----------------------------- MODULE Trace_Retry -----------------------------
(* C2S judge for the retry loop (C12): record [id, n, pat, outcome ("returned"|"raised"), calls, value_ok] of one real
   invoke_retry call whose task follows `pat`. *)
EXTENDS Naturals, Sequences, TLC, Json, IOUtils
Recs == ndJsonDeserialize(IOEnv.TRACE_FILE)
VARIABLE i
L == INSTANCE Retry WITH MaxRetry <- 0, netRetry <- 0, pattern <- <<>>, attempt <- 0, calls <- 0, state <- ""
Verdict(r) ==
  IF r.outcome # L!Expected(r.pat, r.n) THEN (IF r.outcome = "returned" THEN "failure-reported-as-success" ELSE "success-reported-as-failure")
  ELSE IF r.calls # L!ExpectedCalls(r.pat, r.n) THEN "wrong-number-of-calls"
  ELSE IF r.outcome = "returned" /\ ~r.value_ok THEN "wrong-payload"
  ELSE "ok"
Init == i = 0
Next == /\ i < Len(Recs) /\ i' = i + 1
        /\ PrintT(<<"V", Recs[i + 1].id, Verdict(Recs[i + 1])>>)
=============================================================================
