---------------------------- MODULE Trace_Patcher ----------------------------
(* Drift meter (not a property judge): the A-layer transcription of annet's algorithm (Patcher.tla) against the real code.
   Aux: [rbs |-> Seq(RB)] with every rule carrying rk (rank of its raw rule text as compiled by annet).
   Record [id, rb, old, new, diff (the real stripped diff), cmds (the real cmd_paths keys)].
   Verdict "same", or which stage differs first: "diff-differs" / "commands-differ".  A difference means the implementation no
   longer has the shape that MC_Converge verified; the drivers report it as model_drift in the evidence, never as a VIOLATION. *)
EXTENDS Patcher, Json, IOUtils
Recs == ndJsonDeserialize(IOEnv.TRACE_FILE)
Aux == JsonDeserialize(IOEnv.AUX_FILE)
VARIABLE i
Verdict(r) ==
  LET RB == Aux.rbs[r.rb]
      d == AMakeDiff(RB, r.old, r.new)
  IN IF Strip(Bare(d)) # r.diff THEN "diff-differs"
     ELSE IF ACmdsOf(RB, d) # r.cmds THEN "commands-differ"
     ELSE "same"
Init == i = 0
Next == /\ i < Len(Recs) /\ i' = i + 1
        /\ PrintT(<<"V", Recs[i + 1].id, Verdict(Recs[i + 1])>>)
=============================================================================
