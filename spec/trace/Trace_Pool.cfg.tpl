CONSTANTS
  N = @N@
  W = @W@
  MaxTasks = @M@
  Raises = @R@
  Tolerate = @T@
  Drain = TRUE
INIT TInit
NEXT TNext
