------------------------------ MODULE Trace_Vlan ------------------------------
(* C2S judge for C11.  kind "patch":   [id, old, new (lines as range tokens), cmds ([op, toks])]   -- real patch of a VLAN-list key
                        kind "collapse": [id, set (numbers), toks (lexed output of the real collapse), back (numbers: real expand of that text)] *)
EXTENDS Vlan, TLC, Json, IOUtils
Recs == ndJsonDeserialize(IOEnv.TRACE_FILE)
VARIABLE i
ToSet(s) == {s[k] : k \in DOMAIN s}
Verdict(r) ==
  IF r.kind = "patch" THEN
       IF \E k \in DOMAIN r.cmds : r.cmds[k].op = "other" THEN "unrecognised-command"
       ELSE Judge(SetOf(r.old), SetOf(r.new), r.cmds)
  ELSE IF Expand(r.toks) # ToSet(r.set) THEN "collapse-changes-the-set"
  ELSE IF ToSet(r.back) # ToSet(r.set) THEN "expand-of-collapse-differs"
  ELSE "ok"
Init == i = 0
Next == /\ i < Len(Recs) /\ i' = i + 1
        /\ PrintT(<<"V", Recs[i + 1].id, Verdict(Recs[i + 1])>>)
=============================================================================
