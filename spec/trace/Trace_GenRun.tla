----------------------------- MODULE Trace_GenRun -----------------------------
(* C2S judge for C10.  Record: [id, prefix, gens: Seq([name, prog, acl, declines]), outcome, new]
   outcome \in {"ok", "generator-error", "not-exclusive", "other"} is what annet.gen._old_new_per_device did with real PartialGenerators
   interpreting the programs; new is result.new when outcome = "ok".                                                                  *)
EXTENDS GenRun, TLC, Json, IOUtils
Recs == ndJsonDeserialize(IOEnv.TRACE_FILE)
VARIABLE i
\* a generator may decline the device (supports_device() false, or NotSupportedDevice raised from its run): it then takes no part in the
\* run -- neither its lines nor its ACL -- and the run goes on with the others
Verdict(r0) ==
  LET r == [r0 EXCEPT !.gens = SelectSeq(r0.gens, LAMBDA g : ~g.declines)]
      n == Len(r.gens)
      T(k) == Tree(r.gens[k].prog)
      mustErr == \E k \in 1..n : HasUncovered(r.prefix, T(k), r.gens[k].acl, <<>>)
      cleanAll == \A k \in 1..n : AllInLower(r.prefix, T(k), r.gens[k].acl, <<>>)
      merged == FlatSeq([k \in 1..n |-> r.gens[k].acl])
      U == MergeAll([k \in 1..n |-> T(k)])
  IN
  IF r.outcome = "other" THEN "unexpected-exception"
  ELSE IF mustErr THEN (IF r.outcome = "generator-error" THEN "ok" ELSE "uncovered-line-not-refused")
  ELSE IF ~cleanAll THEN "ok"                                   \* competition inside one generator's ACL: tie-break not judged
  ELSE IF r.outcome = "generator-error" THEN "covered-output-refused"
  ELSE IF TwoOwners(r.prefix, U, merged, <<>>) THEN (IF r.outcome = "not-exclusive" THEN "ok" ELSE "ownership-conflict-not-reported")
  ELSE IF r.outcome = "not-exclusive" THEN (IF MaybeTwoOwners(r.prefix, U, merged, <<>>) THEN "ok" ELSE "false-ownership-conflict")
  ELSE IF ~SubTree(r.new, U) THEN "line-appeared-that-nobody-yielded"
  ELSE IF ~SubTree(Lower(r.prefix, U, merged, <<>>), r.new) THEN "yielded-line-lost"
  ELSE "ok"
Init == i = 0
Next == /\ i < Len(Recs) /\ i' = i + 1
        /\ PrintT(<<"V", Recs[i + 1].id, Verdict(Recs[i + 1])>>)
=============================================================================
