------------------------------ MODULE Trace_HwDb ------------------------------
(* C2S judge for C18.
   kind "model":  [id, hits (sequences whose own regex is found in the model string), seqs (all sequences of the database),
                   trueFull (full sequences the implementation reports true, via hw.match),
                   spell ([v, ans]: hw.match of short spellings: "true" | "false" | "refused"), cands ([v,dots] matching vendor expressions),
                   choices (vendor chosen under each tried registration order)]
   kind "load":   [id, ok, unresolved (count of logic names that do not import), badregex, equalTwice, shippedLoaded, overlayEqual]                                   *)
EXTENDS HwDb, TLC, Json, IOUtils
Recs == ndJsonDeserialize(IOEnv.TRACE_FILE)
VARIABLE i
ToSet(s) == {s[k] : k \in DOMAIN s}
VerdictModel(r) ==
  LET hits == ToSet(r.hits)
      want == {s \in ToSet(r.seqs) : IsTrue(hits, s)}
      got == ToSet(r.trueFull)
      seqs == ToSet(r.seqs)
      badSpell == {k \in DOMAIN r.spell :
                     LET den == Denotes(seqs, r.spell[k].v)
                         v == r.spell[k].v
                         \* names are resolved one after the other: a spelling can only be asked when each of its beginnings is a spelling too
                         walkable == \A j \in 1..(Len(v) - 1) : Cardinality(Denotes(seqs, SubSeq(v, 1, j))) = 1
                         truth == IF IsTrue(hits, CHOOSE q \in den : TRUE) THEN "true" ELSE "false" IN
                     IF Cardinality(den) = 1 THEN (IF walkable THEN r.spell[k].ans # truth ELSE r.spell[k].ans \notin {truth, "refused"})
                     ELSE IF Cardinality(den) > 1 THEN r.spell[k].ans # "refused" ELSE FALSE}
  IN IF got # want THEN "true-sequences-differ-from-regex-chain"
     ELSE IF badSpell # {} THEN (IF \E k \in badSpell : Cardinality(Denotes(seqs, r.spell[k].v)) > 1 THEN "ambiguous-spelling-answered" ELSE "short-spelling-answers-differently")
     ELSE IF \E s \in got : \E p \in Prefixes(s) : p \notin got THEN "not-hierarchical"
     ELSE IF Cardinality(ToSet(r.choices)) > 1 THEN "vendor-depends-on-registration-order"
     ELSE IF ~Unambiguous(r.cands) THEN "vendor-tie-between-equally-specific-matches"
     ELSE IF r.cands # <<>> /\ ToSet(r.choices) # Best(r.cands) THEN "less-specific-vendor-chosen"
     \* models of the menu of real product names: the family each of them belongs to is an input (a fact about the devices)
     ELSE IF r.family # "" /\ ToSet(r.choices) # {r.family} THEN "known-model-resolves-to-another-vendor"
     ELSE IF r.cands = <<>> /\ ToSet(r.choices) # {"generic"} THEN "vendor-chosen-although-no-expression-matches"
     ELSE "ok"
VerdictLoad(r) ==
  IF ~r.ok THEN "rulebook-does-not-load"
  ELSE IF r.unresolved > 0 THEN "logic-function-not-importable"
  ELSE IF r.badregex > 0 THEN "row-regex-does-not-compile"
  ELSE IF ~r.equalTwice THEN "two-loads-differ"
  ELSE IF ~r.shippedLoaded THEN "shipped-order-or-deploy-file-not-what-was-loaded"
  ELSE IF ~r.overlayEqual THEN "site-overlay-changes-the-stock-rulebook"
  ELSE "ok"
Init == i = 0
Next == /\ i < Len(Recs) /\ i' = i + 1
        /\ PrintT(<<"V", Recs[i + 1].id, IF Recs[i + 1].kind = "model" THEN VerdictModel(Recs[i + 1]) ELSE VerdictLoad(Recs[i + 1])>>)
=============================================================================
