----------------------------- MODULE Trace_Pool -----------------------------
(* C2S judge for C12 (stepping judge).  Input: a JSON file [traces |-> Seq(trace)], all recorded under the constants of this
   run; a trace is [id, ev: Seq([a, w]), end: "done"|"raised"|..., out: Seq([id, val, failed]), exc].
   Every recorded event must be an enabled Pool action with that argument (the state is updated by Pool's own actions);
   the parent's internal decisions that touch no shared primitive (PCheckNone, PDecide loop/break) are silent steps, at most
   two between events.  At the end of a trace the P-layer obligations are evaluated on the state the REAL events led to.
   A trace no action can explain is rejected with the offending position; the judge then moves on to the next trace.      *)
EXTENDS Pool, TLC, Json, IOUtils, Integers
Data == JsonDeserialize(IOEnv.TRACE_FILE)
Traces == Data.traces
VARIABLES tid, l
tvars == <<tid, l>>
Tr == Traces[tid]
HasEv == tid <= Len(Traces) /\ l <= Len(Tr.ev)
Ev == Tr.ev[l]
Consume(a) == HasEv /\ Ev.a = a /\ l' = l + 1 /\ tid' = tid

EvTGet   == Consume("tget") /\ Ev.w \in Workers /\ WGet(Ev.w)
EvPut    == Consume("put") /\ Ev.w \in Workers /\ WPut(Ev.w)
EvExit0  == Consume("exit0") /\ Ev.w \in Workers /\ ws[Ev.w] = "leave0" /\ WExit(Ev.w)
EvExit9  == Consume("exit9") /\ Ev.w \in Workers /\ ws[Ev.w] = "leave9" /\ WExit(Ev.w)
EvDGet   == Consume("dget") /\ PGet
\* the order in which exit codes are read / retired names restarted is not part of the property: any order is accepted
EvCheck  == Consume("exitcode") /\ ppc = "check" /\ PCheckW(Ev.w)
EvYield  == Consume("yield") /\ ppc = "yield" /\ got = Ev.w /\ PYield
EvStart  == Consume("start") /\ PStartW(Ev.w)
\* tolerate_fails = False: once the parent has decided to raise it re-reads exit codes and terminates the live workers
EvRaiseCk == Consume("exitcode") /\ ppc = "raise" /\ UNCHANGED vars
EvKill    == Consume("kill") /\ ppc = "raise" /\ Ev.w \in Workers /\ ws[Ev.w] \in {"idle", "busy", "leave0", "leave9"}
             /\ ws' = [ws EXCEPT ![Ev.w] = "killed"]
             /\ UNCHANGED <<taskQ, doneQ, cnt, cur, pool, delivered, ppc, got, retired, toCheck>>
EventStep == EvTGet \/ EvPut \/ EvExit0 \/ EvExit9 \/ EvDGet \/ EvCheck \/ EvYield \/ EvStart \/ EvRaiseCk \/ EvKill
Silent == /\ tid <= Len(Traces) /\ UNCHANGED tvars
          /\ \/ PCheckNone
             \/ (ppc = "decide" /\ (retired = {} \/ CanBreak) /\ PDecide)

Reset == /\ taskQ' = [i \in 1..(N + W) |-> IF i <= N THEN i ELSE STOP]
         /\ doneQ' = <<>> /\ ws' = [w \in Workers |-> "idle"] /\ cnt' = [w \in Workers |-> 0] /\ cur' = [w \in Workers |-> 0]
         /\ pool' = Workers /\ delivered' = <<>> /\ ppc' = "get" /\ got' = 0 /\ retired' = {} /\ toCheck' = <<>>
NextTrace == tid' = tid + 1 /\ l' = 1 /\ Reset

OutIds == [k \in DOMAIN Tr.out |-> Tr.out[k].id]
PayloadOK == \A k \in DOMAIN Tr.out : LET o == Tr.out[k] IN
                IF o.id \in Raises THEN o.failed ELSE (~o.failed /\ o.val = o.id * 10)
OutNoDup == \A a, b \in DOMAIN Tr.out : a # b => Tr.out[a].id # Tr.out[b].id
FinalVerdict ==          \* traces without events (sequential branch of irun, real-process runs): the outcome alone is judged
  IF Tr.end = "done" THEN
       IF ~OutNoDup THEN "duplicate-delivery"
       ELSE IF SeqSet(OutIds) # Ids THEN "lost-results"
       ELSE IF ~PayloadOK THEN "wrong-payload"
       ELSE IF ~Tolerate /\ Raises # {} THEN "failure-swallowed"
       \* Parallel.run(ids, tolerate_fails, strict_error_code): with a strict exit code asked for, failures end in an error of their own
       ELSE IF Tr.viaRun /\ Tr.strict /\ Raises # {} THEN "strict-exit-code-not-raised-despite-failures"
       ELSE "ok"
  ELSE IF Tr.end = "strict" THEN
       IF Tr.viaRun /\ Tr.strict /\ Raises # {} /\ Tolerate THEN "ok" ELSE "strict-error-without-cause"
  ELSE IF Tr.end = "raised" THEN
       IF Tolerate \/ Raises = {} THEN "raised-without-cause"
       ELSE IF ~OutNoDup \/ ~PayloadOK \/ ~(SeqSet(OutIds) \subseteq Ids) THEN "bad-partial-delivery"
       ELSE "ok"
  ELSE Tr.end
EndVerdict ==
  IF Tr.mode # "events" THEN FinalVerdict
  ELSE IF Tr.end = "done" THEN
       IF ppc # "done" THEN "returned-while-work-outstanding"
       ELSE IF OutIds # delivered THEN "consumer-saw-other-results"
       ELSE IF ~NoDup THEN "duplicate-delivery"
       ELSE IF SeqSet(delivered) # Ids THEN "lost-results"
       ELSE IF ~PayloadOK THEN "wrong-payload"
       ELSE IF ~Tolerate /\ Raises # {} THEN "failure-swallowed"
       ELSE "ok"
  ELSE IF Tr.end = "raised" THEN
       IF ppc # "raise" THEN "raised-without-cause"
       ELSE IF ~(~Tolerate /\ got \in Raises) THEN "raised-without-cause"
       ELSE IF OutIds # delivered \/ ~NoDup \/ ~PayloadOK THEN "bad-partial-delivery"
       ELSE IF \E w \in Workers : ws[w] \in {"idle", "busy", "leave0", "leave9"} THEN "worker-left-running"
       ELSE "ok"
  ELSE Tr.end                                  \* "deadlock" / "livelock" reported by the driver: no termination
EndTrace == /\ tid <= Len(Traces) /\ l = Len(Tr.ev) + 1
            /\ ~ENABLED Silent
            /\ PrintT(<<"V", Tr.id, EndVerdict>>)
            /\ NextTrace
Reject == /\ HasEv /\ ~ENABLED EventStep /\ ~ENABLED Silent
          /\ PrintT(<<"V", Tr.id, "event-not-allowed", l, Ev.a, Ev.w, ppc>>)
          /\ NextTrace
TInit == Init /\ tid = 1 /\ l = 1
TNext == EventStep \/ Silent \/ EndTrace \/ Reject
=============================================================================
