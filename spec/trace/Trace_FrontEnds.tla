-------------------------- MODULE Trace_FrontEnds --------------------------
(* C2S judge for C16: [id, fcmds, dcmds (command paths as word sequences), fdiff, ddiff (entries op,row,kids)] *)
EXTENDS FrontEnds, TLC, Json, IOUtils
Recs == ndJsonDeserialize(IOEnv.TRACE_FILE)
VARIABLE i
Verdict(r) ==
  IF r.fcmds # r.dcmds THEN <<"patch-differs", FirstDiff(r.fcmds, r.dcmds)>>
  ELSE IF r.fdiff # r.ddiff THEN <<"diff-differs", FirstDiff(r.fdiff, r.ddiff)>>
  ELSE <<"ok", 0>>
Init == i = 0
Next == /\ i < Len(Recs) /\ i' = i + 1
        /\ LET v == Verdict(Recs[i + 1]) IN PrintT(<<"V", Recs[i + 1].id, v[1], v[2]>>)
=============================================================================
