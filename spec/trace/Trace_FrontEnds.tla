-------------------------- MODULE Trace_FrontEnds --------------------------
(* C2S judge for C16: [id, fcmds, dcmds (command paths as word sequences), fdiff, ddiff (entries op,row,kids), ferr, derr (the front end raised),
   wlines, dlines (patch text printed by file_patch_worker for the two files / device-mode patch text, as word sequences; both <<>> when not driven),
   fview, dview (the diff as printed from the grouped diff each front end hands back),
   plines (what the production worker of `annet patch` prints for the configurations the two files hold; compared with dlines),
   wview, dview2 (diff text printed by file_diff_worker for the two files / device-mode diff of what the files hold, printed the same way)] *)
EXTENDS FrontEnds, TLC, Json, IOUtils
Recs == ndJsonDeserialize(IOEnv.TRACE_FILE)
VARIABLE i
Verdict(r) ==
  IF r.ferr # r.derr THEN <<(IF r.derr THEN "file-mode-hides-an-error-of-device-mode" ELSE "file-mode-fails-where-device-mode-works"), 0>>
  ELSE IF r.ferr THEN <<"ok", 0>>
  ELSE IF r.fcmds # r.dcmds THEN <<"patch-differs", FirstDiff(r.fcmds, r.dcmds)>>
  ELSE IF r.fdiff # r.ddiff THEN <<"diff-differs", FirstDiff(r.fdiff, r.ddiff)>>
  ELSE IF r.fview # r.dview THEN <<"printed-file-diff-differs-from-device-mode", FirstDiff(r.fview, r.dview)>>
  ELSE IF ~WorkerAgrees(r.wlines, r.dlines) THEN <<"file-worker-output-differs-from-device-mode", FirstDiff(r.wlines, r.dlines)>>
  ELSE IF ~WorkerAgrees(r.plines, r.dlines) THEN <<"annet-patch-worker-output-differs-from-device-mode", FirstDiff(r.plines, r.dlines)>>
  ELSE IF ~WorkerAgrees(r.wview, r.dview2) THEN <<"file-diff-worker-output-differs-from-device-mode", FirstDiff(r.wview, r.dview2)>>
  ELSE <<"ok", 0>>
Init == i = 0
Next == /\ i < Len(Recs) /\ i' = i + 1
        /\ LET v == Verdict(Recs[i + 1]) IN PrintT(<<"V", Recs[i + 1].id, v[1], v[2]>>)
=============================================================================
