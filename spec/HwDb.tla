-------------------------------- MODULE HwDb --------------------------------
(* C18.  The hardware database is a tree of named nodes (sequences `A.B.C`), each with a regular expression; a model string makes a node
   true when the node's expression and the expressions of all its ancestors are found in it.
   P-layer:  True(seq)  <=> every prefix of seq hits (hits = per-node regex table for the model, computed outside: Python re.search)
             -> the true set is prefix-closed by construction; the implementation must agree node by node.
             Vendor(model) = the registered vendor with the most specific (most dotted) matching expression; it must not depend on the
             order in which vendors were registered: a tie between two vendors of equal specificity is an order dependence.
   A-layer:  Registry.match: candidates in registration order, stable sort by dots descending, first one.                            *)
EXTENDS Naturals, Sequences, FiniteSets

Prefixes(seq) == {SubSeq(seq, 1, k) : k \in 1..Len(seq)}
IsTrue(hits, seq) == \A p \in Prefixes(seq) : p \in hits

(* Short spellings.  A node `A.B.C.D` may be written with leading names dropped and with middle names dropped, always keeping the last
   one (`B.C.D`, `A.D`, `D`, ...).  A spelling that denotes exactly one node answers for that node; a spelling that two nodes share
   denotes neither: asking it is refused -- it must not silently stand for one of them (hierarchy would break: `SN` false, `NVIDIA.SN` true). *)
Variants(seq) == {SubSeq(seq, l + 1, Len(seq) - r) \o <<seq[Len(seq)]>> : l \in 0..(Len(seq) - 1), r \in 1..Len(seq)} \ {<<>>}
Denotes(seqs, v) == {q \in seqs : v \in {w \in Variants(q) : Len(w) >= 1 /\ Len(w) <= Len(q)}}
\* candidates: sequence of [v (vendor name), dots (Nat)] in registration order (a vendor may appear once per matching expression)
MaxDots(cands) == IF cands = <<>> THEN 0 ELSE LET D == {cands[i].dots : i \in DOMAIN cands} IN CHOOSE d \in D : \A e \in D : e <= d
Best(cands) == {cands[i].v : i \in {j \in DOMAIN cands : cands[j].dots = MaxDots(cands)}}
Unambiguous(cands) == Cardinality(Best(cands)) <= 1
\* A: stable sort by dots descending = the first candidate with maximal dots
Choice(cands) == IF cands = <<>> THEN "generic"
                 ELSE cands[CHOOSE i \in DOMAIN cands : cands[i].dots = MaxDots(cands) /\ \A j \in DOMAIN cands : cands[j].dots = MaxDots(cands) => i <= j].v
=============================================================================
