------------------------------ MODULE AclSafety ------------------------------
(* P-layer of C02: what "a patch never touches configuration outside the generators' ACL" means for a command list executed on the
   device (Device.tla) under an ACL (Acl.tla).  Used by the trace judge of real patches (Trace_AclSafety) and by the composed pipeline
   model (Annet.tla / MC_Pipeline).
   (a) every command path is covered by the ACL level by level, directly or as the negated form (block-exit words excepted)
   (b) a row of old that the ACL does not cover, and whose ancestors all survive, is still there after the patch ran on the device;
       if nothing below it is covered either, its whole subtree is unchanged
   (c) the slot of a row of old that only cant_delete rules cover is still occupied afterwards                                  *)
EXTENDS Acl, Device
RECURSIVE Get(_, _)        \* subtree below a path, or "absent"
Get(t, p) == IF p = <<>> THEN [ok |-> TRUE, kids |-> t]
             ELSE LET k == IdxOf(t, Head(p)) IN IF k = 0 THEN [ok |-> FALSE, kids |-> <<>>] ELSE Get(t[k].kids, Tail(p))
Present(t, p) == Get(t, p).ok
\* all matches at the last level of a path, through every chain of the (merged) ACL, carry cant_delete
RECURSIVE OnlyCantDelete(_, _, _, _)
OnlyCantDelete(prefix, path, loc, glo) ==
  LET vis == AVisible(loc, glo) ms == Matches(prefix, vis, Head(path)) IN
  /\ ms # {}
  /\ IF Len(path) = 1 THEN AllCantDelete(vis, ms)
     ELSE OnlyCantDelete(prefix, Tail(path), MergedKids(vis, ms), InheritDown(loc, glo))
\* rules (patching rulebook) visible at the parent of a path
RECURSIVE RulesAt(_, _, _)
RulesAt(p, loc, glo) == IF Len(p) <= 1 THEN <<loc, glo>>
                        ELSE RulesAt(Tail(p), KidRules(Visible(loc, glo), Head(p)), InheritDown(loc, glo))
SlotOccupied(RB, dev, p) ==
  LET par == SubSeq(p, 1, Len(p) - 1)
      rg == RulesAt(p, RB.rules, <<>>)
      vis == Visible(rg[1], rg[2])
      sibs == Get(dev, par).kids
  IN \E k \in DOMAIN sibs : Slot(vis, sibs[k].row) = Slot(vis, p[Len(p)]) /\ Slot(vis, p[Len(p)]) # <<0>>
SafetyVerdict(RB, acl, old, cmds) ==
  LET pf == RB.prefix
      cov(p) == CoveredSome(pf, p, acl, <<>>)
      dev == ExecAll(RB, old, cmds)
      oldPaths == Paths(old)
      ancOK(p) == \A j \in 1..(Len(p) - 1) : Present(dev, SubSeq(p, 1, j))
      isExit(p) == RB.exit # "" /\ p[Len(p)] = <<RB.exit>>
      badA == {k \in DOMAIN cmds : ~isExit(cmds[k]) /\ ~cov(cmds[k])}
      badB == {p \in oldPaths : ~cov(p) /\ ancOK(p) /\
                 (\/ ~Present(dev, p)
                  \/ ((\A q \in oldPaths : (Len(q) > Len(p) /\ SubSeq(q, 1, Len(p)) = p) => ~cov(q))
                      /\ Canon(Get(dev, p).kids) # Canon(Get(old, p).kids)))}
      badC == {p \in oldPaths : OnlyCantDelete(pf, p, acl, <<>>) /\ ancOK(p) /\ ~SlotOccupied(RB, dev, p)}
  IN IF badA # {} THEN "command-outside-acl"
     ELSE IF badB # {} THEN "uncovered-line-changed"
     ELSE IF badC # {} THEN "cant-delete-line-removed"
     ELSE "ok"
=============================================================================
