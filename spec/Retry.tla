-------------------------------- MODULE Retry --------------------------------
(* C12, inside one worker: annet.parallel.invoke_retry(func, net_retry, id).  The task is called until it returns, raises an
   error that is not a network error, or has raised a network error (BrokenPipeError / ConnectionResetError anywhere in the
   exception's context chain) net_retry + 1 times.  One action per call of the task.
   Pattern: what the task would do on its 1st, 2nd, ... call: "ok" | "net" | "fatal".
   P-layer: the id's outcome is a success exactly when the first call that is not a network error returns and comes no later
   than call net_retry + 1; otherwise it is a failure -- never a success without a value.                                  *)
EXTENDS Naturals, Sequences
CONSTANT MaxRetry
VARIABLES netRetry, pattern,       \* chosen once: the pool's net_retry and the behaviour of the task
          attempt, calls, state
vars == <<netRetry, pattern, attempt, calls, state>>
Outcomes == {"ok", "net", "fatal"}
Init == /\ netRetry \in 0..MaxRetry /\ pattern \in [1..(MaxRetry + 2) -> Outcomes]
        /\ attempt = 0 /\ calls = 0 /\ state = "calling"
Call == /\ state = "calling" /\ calls < Len(pattern)
        /\ calls' = calls + 1 /\ UNCHANGED <<netRetry, pattern>>
        /\ LET o == pattern[calls + 1] IN
           CASE o = "ok"    -> state' = "returned" /\ attempt' = attempt
             [] o = "fatal" -> state' = "raised" /\ attempt' = attempt
             [] OTHER       -> IF attempt >= netRetry THEN state' = "raised" /\ attempt' = attempt
                               ELSE state' = "calling" /\ attempt' = attempt + 1
Next == Call
(* P-layer *)
FirstNonNet(p) == LET S == {i \in DOMAIN p : p[i] # "net"} IN IF S = {} THEN Len(p) + 1 ELSE CHOOSE i \in S : \A j \in S : i <= j
ExpectedCalls(p, n) == IF FirstNonNet(p) <= n + 1 THEN FirstNonNet(p) ELSE n + 1
Expected(p, n) == IF FirstNonNet(p) <= n + 1 /\ FirstNonNet(p) <= Len(p) /\ p[FirstNonNet(p)] = "ok" THEN "returned" ELSE "raised"
OutcomeRight == state # "calling" => (state = Expected(pattern, netRetry) /\ calls = ExpectedCalls(pattern, netRetry))
\* every pattern is long enough to decide the outcome: the loop never runs out of pattern
Decided == state = "calling" => calls < Len(pattern)
=============================================================================
