------------------------------- MODULE History -------------------------------
(* C20.  A worker process serves a history of jobs.  What survives a job is a set of CACHES of compiled objects, each a map from a key
   to the object that was built the first time that key was asked for:
     "rb"   the rulebook provider's cache (patching / ordering / deploy rulebooks of a hardware)
     "re"   compiled row regexps (one compiler for rulebooks and ACLs)
     "acl"  compiled ACLs (the generators' combined ACL text)
     "ord"  the compiled ordering rulebook an Orderer is built around
   Two things make a result depend on history, and the code protects each cache against both:
     * a key that is too coarse -- two jobs that need different objects find each other's (Fine[c] = the key tells them apart):
         rb keyed by the hardware view, not the vendor;  re keyed by row text AND flags, not by the text alone
     * an operation that writes into the cached object instead of a private copy (Prot[c] = jobs work on copies):
         rb: per-call copies of rule attributes handed to logic functions;   acl: merging the children of several matching rules builds
         new lists;   ord: an Orderer extends a copy of the cached ordering (children of overlapping rules, inserted reference configs)
   A job is [key (per cache: <<fine key, coarse key>>), reads (caches its result depends on), writes (caches its operations would write
   into without the protection)].  Its result, per cache it reads, is the object it finds there and whether that object was written to.
   P-layer: observational determinism -- result(j | any history) = result(j | empty history) -- and the frame condition on the caches.   *)
EXTENDS Naturals, Sequences, FiniteSets
CONSTANTS Jobs,
          FineRb, FineRe,               \* key fineness switches (TRUE = as in the code)
          ProtRb, ProtAcl, ProtOrd      \* copy protections      (TRUE = as in the code)
Caches == {"rb", "re", "acl", "ord"}
Fine(c) == CASE c = "rb" -> FineRb [] c = "re" -> FineRe [] OTHER -> TRUE
Prot(c) == CASE c = "rb" -> ProtRb [] c = "acl" -> ProtAcl [] c = "ord" -> ProtOrd [] OTHER -> TRUE
VARIABLES cache,      \* cache[c]: function from used key to the fine key of the job that filled it (= which object sits there)
          dirty,      \* dirty[c]: used keys whose object has been written to
          hist, obs
vars == <<cache, dirty, hist, obs>>
KeyOf(j, c) == IF Fine(c) THEN j.key[c][1] ELSE j.key[c][2]
Init == cache = [c \in Caches |-> [k \in {} |-> 0]] /\ dirty = [c \in Caches |-> {}] /\ hist = <<>> /\ obs = <<>>
Found(j, c) == IF KeyOf(j, c) \in DOMAIN cache[c] THEN cache[c][KeyOf(j, c)] ELSE j.key[c][1]
Result(j) == [c \in j.reads |-> [obj |-> Found(j, c), written |-> KeyOf(j, c) \in dirty[c]]]
Fresh(j) == [c \in j.reads |-> [obj |-> j.key[c][1], written |-> FALSE]]
Run(j) == /\ obs' = Append(obs, <<j, Result(j)>>)
          /\ hist' = Append(hist, j)
          /\ cache' = [c \in Caches |->
                         IF c \in j.reads \cup j.writes /\ KeyOf(j, c) \notin DOMAIN cache[c]
                         THEN [k \in (DOMAIN cache[c]) \cup {KeyOf(j, c)} |-> IF k = KeyOf(j, c) THEN j.key[c][1] ELSE cache[c][k]]
                         ELSE cache[c]]
          /\ dirty' = [c \in Caches |-> IF c \in j.writes /\ ~Prot(c) THEN dirty[c] \cup {KeyOf(j, c)} ELSE dirty[c]]
Next == \E j \in Jobs : Run(j)
ObsDeterminism == \A i \in DOMAIN obs : obs[i][2] = Fresh(obs[i][1])
CacheFrame == \A c \in Caches : dirty[c] = {}
=============================================================================
