------------------------------- MODULE History -------------------------------
(* C20.  A worker process serves a history of jobs.  Per-process state that survives a job:
     rbcache  : compiled rulebooks, keyed by what the provider uses as key (the hardware view; a coarser key is the modelled hazard)
     rules    : the cached rule objects themselves, which logic functions receive and may write to (hazard), protected by per-call copies
   A job is [hw, vendor, mutates]: its result is a function of the rulebook it SHOULD see (the one of its hw, unmodified).
   P-layer: observational determinism -- result(j | any history) = result(j | empty history); inputs and cached rulebooks unchanged.
   Switches (TRUE = the protections of the code as it is): KeyByHw (provider cache keyed by hardware, not vendor), CopyAttrs (make_patch
   deep-copies the rule attributes per (rule,key) before calling the logic function).                                                *)
EXTENDS Naturals, Sequences, FiniteSets
CONSTANTS Jobs, KeyByHw, CopyAttrs
VARIABLES rbcache, dirty, hist, obs
vars == <<rbcache, dirty, hist, obs>>
KeyOf(j) == IF KeyByHw THEN j.hw ELSE j.vendor
Init == rbcache = [k \in {} |-> 0] /\ dirty = {} /\ hist = <<>> /\ obs = <<>>
\* what the job computes with: the rulebook found under its key (compiled for the hw that first filled that key), and whether a previous
\* job has written into those cached rule objects
Seen(j) == IF KeyOf(j) \in DOMAIN rbcache THEN rbcache[KeyOf(j)] ELSE j.hw
Result(j) == [rb |-> Seen(j), tainted |-> KeyOf(j) \in dirty]
Fresh(j) == [rb |-> j.hw, tainted |-> FALSE]
Run(j) == /\ obs' = Append(obs, <<j, Result(j)>>)
          /\ hist' = Append(hist, j)
          /\ rbcache' = IF KeyOf(j) \in DOMAIN rbcache THEN rbcache
                        ELSE [k \in (DOMAIN rbcache) \cup {KeyOf(j)} |-> IF k = KeyOf(j) THEN j.hw ELSE rbcache[k]]
          /\ dirty' = IF j.mutates /\ ~CopyAttrs THEN dirty \cup {KeyOf(j)} ELSE dirty
Next == \E j \in Jobs : Run(j)
ObsDeterminism == \A i \in DOMAIN obs : obs[i][2] = Fresh(obs[i][1])
CacheFrame == dirty = {}
=============================================================================
